"""C12 — source positions and parse information are exact.

(a) every string over {a, space, LF, CR} up to a length bound (exhaustive) and random longer texts with
    mixed line-break conventions x both input implementations (TextLines, legacy Buffer) x every offset
    0..len: `cursor.lineinfo(pos)` and the lineat/poscol/line/col/get_line accessors are compared with an
    independent splitter on ``\\r\\n | \\n | \\r`` (vt/monitors/c12_lines.py).  Offset == len is ambiguous in
    the statement (one past the end vs clamped to the last character): there the oracle accepts either
    reading and requires no exception.  `FailedParse.info` must describe `FailedParse.pos`.
(b) with parseinfo enabled (directive / parse-time setting), every dict-like AST and every model node in the
    result of a real parse carries a parseinfo whose (rule, pos, endpos) is a successful rule evaluation of
    REF (vt/ref.py) for that input *with an equal value*, and whose `line` is the splitter's line of `pos`.
    A node that several rules return unchanged (`expr = sum | term ;`, `e = @:t ;`) may carry the evaluation of ANY
    of them (the statement says "a rule that returned it"): no more, no less.
    PASS-THROUGH / RETRY family (run_retry): chains of 1..3 rules that return the node of the next rule as their own,
    and statements whose alternatives ask for rules of the chain again at the same offset after an earlier alternative
    (or a lookahead, an optional, a closure) completed an outer rule over the node and then failed on its terminator,
    so that the later request is answered from the memo.  Evidence monitor vt/monitors/c12_memo.py: action events of
    a recording semantics object with and without memoization, against a packrat prediction over REF's call tree.
DESIGN.md section 3/C12.
"""
from __future__ import annotations

import itertools
import random
import re
import sys

from .. import gen as G
from .. import lang as L
from .. import shrink as S
from ..common import h64
from ..monitors import c12_lines as O
from ..monitors import c12_memo as M
from ..ref import CL, left_recursive_rules, ref_run
from ..tsu import StepHeart, build, gen_parser

ID = 'C12'
LEVEL = 'exploration'
RULE = ('(a) cases = (text, input implementation, offset): every string over {a,space,LF,CR} up to the length bound '
        '(exhaustive, sharded by prefix) plus seeded random texts up to 2000 chars mixing LF/CR/CRLF, x {TextLines, Buffer} '
        'x every offset 0..len, each observed through lineinfo/lineat/poscol/line/col/get_line and compared with an '
        'independent splitter; (b) cases = (grammar, start, input, variant) with parseinfo on: seeded random grammars with '
        'named elements (some rules typed -> model nodes through asmodel/ModelBuilderSemantics; some rules decorated '
        '@nomemo/@nostak; model, text-compiled and GENERATED-parser routes; about 55% of the cases with one more bundle of parse-time '
        'settings that only concern diagnostics or caching next to parseinfo: trace on (plain, colorized, with source names; '
        'output to a counting sink), memoization off (no left recursion), perlinememos 0.01, prune_memos_on_cut off) and hand-written typed grammars (incl. a '
        'left-recursive cycle entered mid-text, nullable tail rules matching at end of text, decorated copies), and the PASS-THROUGH / RETRY '
        'family: leaf rules building a dict-like AST or a model node, chains of 1..3 rules that return the next rule\'s node '
        'unchanged (single call, choice of a longer form and a call, @:call, [sign] @:call, group, parenthesised recursion), a '
        'statement rule with 2..4 alternatives that ask for rules of the chain at one offset, each with its own terminator, '
        'plain or behind &lookahead / !lookahead / an optional / a closure over an outer rule / a sign token, inputs derived '
        'with a preference for the later alternatives (the earlier ones complete their rule and fail late; the later ones are '
        'answered from the memo), x parseinfo by directive/setting x object/text/generated route x str/TextLines/Buffer x '
        'AST/asmodel/builder x {none, memoization off, prune_memos_on_cut off, trace, perlinememos}, some rules @nomemo/@nostak; '
        'inputs derivation-guided with leading/inter-token blanks, CR/LF/CRLF and comments; every AST/Node in the '
        'result is looked up in REF\'s table of successful rule evaluations. non-trivial = (a) a text with >=1 line break or '
        'an offset at end of text, distinct by (text, impl); (b) an accepted parse in which >=1 AST/Node parseinfo was '
        'checked, distinct by (grammar text, start, input, variant)')
ASSUMPTIONS = [
    'line breaks are exactly CRLF, LF and CR (the alphabet the quantifier fixes: letter, space, LF, CR); other unicode '
    'line separators are outside the statement and never generated',
    'offset == len(text) is ambiguous in the statement for the cursor accessors of part (a): both "one past the last '
    'character" and "clamped to the last character" are accepted there (per accessor; lineinfo as a whole tuple); '
    'offsets > len are not exercised. For parseinfo.line (part b) the start line is the number of line breaks before '
    '`pos`, also for pos == len(text): a node that starts after a trailing line break is on the new, empty last line',
    '@nomemo / @nostak (and the @tatsu.nomemo marks the code generator derives from its left-recursion analysis) only '
    'change caching and tracing: REF ignores them and the same (rule, pos, endpos, value, line) is required',
    'whether a line\'s text/end include the line break is left open by the statement: both are accepted provided '
    '`text == source[start:end]`',
    'REF (vt/ref.py) decides which rule evaluations succeeded, where they start after leading whitespace/comments and what '
    'they return; executions through documented-open corners (REF flags / recorded C01 trigger) are compared on '
    '(rule,pos,endpos) only, not on the value; accept/reject disagreements between REF and the real parser belong to '
    'C01 and are counted, not judged here',
    'trace / colorize / trace_filename (console diagnostics), memoization off for grammars without left recursion, perlinememos '
    'and prune_memos_on_cut (cache size and eviction) do not change what a rule matched: REF ignores them and the same (rule, '
    'pos, endpos, value, line) is required; a violation that vanishes when only these settings are removed gets the '
    'signature suffix only-with:<setting>',
    'ParseInfo.endline, Node.text and the parseinfo argument handed to semantic actions are not in the statement: '
    'observed and counted only',
    'a node returned unchanged by several rules (pass-through: `e = t ;`, `e = sum | t ;`, `e = @:t ;`) may carry the '
    '(rule, pos, endpos) of any successful REF evaluation that returned an equal value, whichever of them stamped it last and '
    'whether or not that evaluation is part of the final derivation; anything else (in particular a span no evaluation of the '
    'named rule has) is a violation',
    'the memo monitor of the pass-through / retry family (vt/monitors/c12_memo.py) is evidence only: a semantics object '
    'whose actions return the node unchanged (or delegate to ModelBuilderSemantics) records action events in two further '
    'parses (memoization as configured / off); "answered from the memo after a relabel" is a packrat simulation over REF\'s '
    'call tree, counted only for executions whose observed action events equal the simulated ones',
]
EXHAUSTIVE = {'quick': 'all 21845 strings over {a,space,LF,CR} of length <=7 x {TextLines,Buffer} x all offsets 0..len',
              'thorough': 'all 349525 strings over {a,space,LF,CR} of length <=9 x {TextLines,Buffer} x all offsets 0..len'}
ALPHABET = 'a \n\r'
EXH_MAXLEN = {'quick': 7, 'thorough': 9}
EXH_PREFIX = {'quick': 2, 'thorough': 3}

N_LONG = {'quick': 300, 'thorough': 6000}          # random long texts (all offsets each)
N_FAIL = {'quick': 1200, 'thorough': 24000}        # FailedParse.info probes
N_GRAMMARS = {'quick': 6600, 'thorough': 320000}   # random grammars for (b)
INPUTS_PER = {'quick': 6, 'thorough': 8}
N_TYPED = {'quick': 4000, 'thorough': 192000}      # inputs over the hand-written typed grammars
N_RETRY = {'quick': 360, 'thorough': 24000}        # grammars of the pass-through / retry family
RETRY_INPUTS_PER = {'quick': 6, 'thorough': 8}

FLOORS = {
    'quick': {'a_strings': 21845, 'a_offsets_checked': 400000, 'a_offsets:end-of-text': 22000,
              'a_offsets:on-cr': 30000, 'a_offsets:on-lf': 30000, 'a_offsets:on-cr-of-crlf': 10000,
              'a_offsets:on-lf-of-crlf': 10000, 'a_offsets:empty-text': 2, 'a_offsets:line-start': 45000,
              'a_long_texts': 300, 'a_long_offsets': 100000, 'a_texts_mixed_conventions': 15000,
              'a_failinfo_checked': 1000,
              'b_accepted': 15000, 'b_nodes_checked': 18000, 'b_ast_nodes': 9000, 'b_model_nodes': 9000,
              'b_value_compared': 12000, 'b_after_leading_ws': 9000, 'b_line_nonzero': 8000,
              'b_pos_at_end_of_text': 2500, 'b_enable:directive': 5000, 'b_enable:setting': 5000,
              'b_impl:Buffer': 4000, 'b_impl:TextLines': 2000, 'b_impl:str': 4000, 'b_route:text': 1700,
              'b_route:generated': 2000, 'b_accepted_decorated_nomemo_nostak': 4000,
              'b_accepted_generated_with_uncached_rules': 800, 'b_nodes_of_uncached_rules': 6000,
              'b_nodes_of_uncached_rules_after_leading_ws': 3500, 'b_nodes_of_uncached_rules_after_line_break': 2000,
              'b_pos_at_end_of_text_after_trailing_break': 1200,
              'b_mode:asmodel': 3000, 'b_mode:builder': 3000, 'b_mode:ast': 3500,
              'b_failinfo_checked': 7000,
              'b_cfg:trace': 2500, 'b_cfg:trace_color': 1200, 'b_cfg:trace_source': 600, 'b_cfg:memo_off': 1100,
              'b_cfg:plm': 1200, 'b_cfg:noprune': 1200, 'b_nodes_checked_under_extra_settings': 12000,
              'b_traced_nodes_checked': 7000, 'b_traced_ast_nodes': 3500, 'b_traced_model_nodes': 3000,
              'b_traced_nodes_after_leading_ws': 4000, 'b_traced_nodes_ending_before_blanks': 2700,
              'b_traced_nodes_ending_before_line_break': 1800, 'b_traced_inner_nodes_ending_before_blanks': 1800,
              'b_traced_nodes_of_rules_ending_in_a_call_before_blanks': 1400, 'b_trace_lines_written': 150000,
              'b_traced_route:generated': 700, 'b_traced_route:text': 600},
    'thorough': {'a_strings': 349525, 'a_offsets_checked': 7000000, 'a_offsets:end-of-text': 350000,
                 'a_offsets:on-cr': 600000, 'a_offsets:on-lf': 600000, 'a_offsets:on-cr-of-crlf': 200000,
                 'a_offsets:on-lf-of-crlf': 200000, 'a_offsets:empty-text': 2, 'a_long_texts': 6000,
                 'a_long_offsets': 3000000, 'a_failinfo_checked': 20000,
                 'b_accepted': 1000000, 'b_nodes_checked': 1000000, 'b_ast_nodes': 450000, 'b_model_nodes': 430000,
                 'b_value_compared': 700000, 'b_after_leading_ws': 500000, 'b_line_nonzero': 450000,
                 'b_pos_at_end_of_text': 100000, 'b_enable:directive': 350000, 'b_enable:setting': 350000,
                 'b_impl:Buffer': 280000, 'b_impl:TextLines': 150000, 'b_impl:str': 280000,
                 'b_mode:asmodel': 160000, 'b_mode:builder': 180000, 'b_mode:ast': 220000,
                 'b_route:text': 80000, 'b_route:generated': 100000, 'b_failinfo_checked': 400000,
                 'b_accepted_decorated_nomemo_nostak': 200000, 'b_accepted_generated_with_uncached_rules': 35000,
                 'b_nodes_of_uncached_rules': 300000, 'b_nodes_of_uncached_rules_after_leading_ws': 170000,
                 'b_nodes_of_uncached_rules_after_line_break': 100000,
                 'b_pos_at_end_of_text_after_trailing_break': 55000,
                 'b_cfg:trace': 100000, 'b_cfg:trace_color': 48000, 'b_cfg:trace_source': 24000,
                 'b_cfg:memo_off': 44000, 'b_cfg:plm': 48000, 'b_cfg:noprune': 48000,
                 'b_nodes_checked_under_extra_settings': 480000, 'b_traced_nodes_checked': 280000,
                 'b_traced_ast_nodes': 140000, 'b_traced_model_nodes': 120000,
                 'b_traced_nodes_after_leading_ws': 160000, 'b_traced_nodes_ending_before_blanks': 108000,
                 'b_traced_nodes_ending_before_line_break': 72000,
                 'b_traced_inner_nodes_ending_before_blanks': 72000,
                 'b_traced_nodes_of_rules_ending_in_a_call_before_blanks': 56000, 'b_trace_lines_written': 6000000,
                 'b_traced_route:generated': 28000, 'b_traced_route:text': 24000},
}
# pass-through / retry family (run_retry): a run that never has a relabelled node answered from the memo is inconclusive
RETRY_FLOORS = {'b_retry_accepted': 1200,
                'b_retry_memo_prediction_confirmed': 1200,
                'b_retry_action_events_saved_by_memo': 12000,
                'b_retry_executions_with_memo_answers_observed': 1000,
                'b_retry_memo_answers_of_relabelled_nodes': 2200,
                'b_retry_memo_answers_of_relabelled_nodes:depth1': 800,
                'b_retry_memo_answers_of_relabelled_nodes:depth2': 750,
                'b_retry_memo_answers_of_relabelled_nodes:depth3': 300,
                'b_retry_memo_answers_of_relabelled_nodes_with_another_span': 90,
                'b_retry_result_nodes_last_answered_from_memo_after_relabel': 1200,
                'b_retry_executions_with_result_node_answered_after_relabel': 700,
                'b_retry_result_nodes_labelled_by_a_chain_rule': 2000,
                'b_retry_answered_after_relabel_enable:directive': 350,
                'b_retry_answered_after_relabel_enable:setting': 320,
                'b_retry_answered_after_relabel_impl:str': 220,
                'b_retry_answered_after_relabel_impl:TextLines': 220,
                'b_retry_answered_after_relabel_impl:Buffer': 220,
                'b_retry_answered_after_relabel_mode:ast': 280,
                'b_retry_answered_after_relabel_mode:asmodel': 70,
                'b_retry_answered_after_relabel_mode:builder': 300,
                'b_retry_answered_after_relabel_route:object': 450,
                'b_retry_answered_after_relabel_route:generated': 160,
                'b_retry_answered_after_relabel_route:text': 45,
                'b_retry_answered_after_relabel_multiline': 450,
                'b_retry_answered_after_relabel_cfg:none': 450}
FLOORS['quick'].update(RETRY_FLOORS)
FLOORS['thorough'].update({k: 50 * v for k, v in RETRY_FLOORS.items()})
SHARD_TIMEOUT = {'quick': 600, 'thorough': 3000}
PEAK_COUNTERS = ('b_max_rules_in_one_tree',)


# =============================================================================== plan
def plan(tier, seed):
    shards = []
    k = EXH_PREFIX[tier]
    prefixes = [''.join(t) for t in itertools.product(ALPHABET, repeat=k)]
    per = 8 if tier == 'quick' else 1
    groups = [prefixes[i:i + per] for i in range(0, len(prefixes), per)]
    for gi, grp in enumerate(groups):
        shards.append({'mode': 'exh', 'prefixes': grp, 'short': gi == 0, 'maxlen': EXH_MAXLEN[tier],
                       'plen': k})
    nl = 1 if tier == 'quick' else 12
    for i in range(nl):
        shards.append({'mode': 'long', 'seed': seed, 'shard': i, 'n': N_LONG[tier] // nl,
                       'nfail': N_FAIL[tier] // nl})
    nb = 11 if tier == 'quick' else 64
    for i in range(nb):
        shards.append({'mode': 'pinfo', 'seed': seed, 'shard': i, 'n': N_GRAMMARS[tier] // nb,
                       'inputs': INPUTS_PER[tier]})
    nt = 2 if tier == 'quick' else 16
    for i in range(nt):
        shards.append({'mode': 'typed', 'seed': seed, 'shard': i, 'n': N_TYPED[tier] // nt})
    nr = 4 if tier == 'quick' else 16
    for i in range(nr):
        shards.append({'mode': 'retry', 'seed': seed, 'shard': i, 'n': N_RETRY[tier] // nr,
                       'inputs': RETRY_INPUTS_PER[tier]})
    return shards


def run_shard(desc, acc):
    {'exh': run_exh, 'long': run_long, 'pinfo': run_pinfo, 'typed': run_typed,
     'retry': run_retry}[desc['mode']](desc, acc)


# =============================================================================== part (a)
def _impls():
    from tatsu.input.buffer import Buffer
    from tatsu.input.textlines import TextLines
    return {'TextLines': TextLines, 'Buffer': Buffer}


def _call(f):
    try:
        return True, f()
    except Exception as e:  # noqa: BLE001 - the class is the observation
        return False, e


def _goto_get(c, pos, attr):
    c.goto(pos)
    return getattr(c, attr)


def _goto_lineinfo(c, pos):
    c.goto(pos)
    return c.lineinfo()


def accessors(impl, inp, cur):
    """[(name, kind, fn(pos))] — kind in lineinfo|line|col.  Optional accessors that a refactor removed
    are reported by the caller as unobserved, never as an alarm."""
    cn = type(cur).__name__
    out = [(f'{cn}.lineinfo', 'lineinfo', cur.lineinfo),
           (f'{cn}.lineinfo@goto', 'lineinfo', lambda p: _goto_lineinfo(cur, p))]
    for name, kind in (('lineat', 'line'), ('poscol', 'col')):
        if hasattr(cur, name):
            out.append((f'{cn}.{name}', kind, getattr(cur, name)))
    for name, kind in (('line', 'line'), ('col', 'col')):
        if hasattr(type(cur), name):
            out.append((f'{cn}.{name}@goto', kind, lambda p, a=name: _goto_get(cur, p, a)))
    if impl == 'Buffer':
        # the legacy Buffer is itself a positioned reader with the same accessors
        for name, kind in (('lineinfo', 'lineinfo'), ('posline', 'line'), ('poscol', 'col')):
            if hasattr(inp, name):
                out.append((f'Buffer.{name}', kind, getattr(inp, name)))
        for name, kind in (('line', 'line'), ('col', 'col')):
            if hasattr(type(inp), name) and hasattr(inp, 'goto'):
                out.append((f'Buffer.{name}@goto', kind, lambda p, a=name: _goto_get(inp, p, a)))
    return out


EXPECTED_ACCESSORS = {'TextLines': 6, 'Buffer': 11}


def check_text(acc, text, impl, cls, origin, count=True):
    """all offsets of one text through one implementation; returns number of violations raised"""
    Lo = O.Lines(text)
    ok, inp = _call(lambda: cls(text))
    if not ok:
        acc.violation(f'a:exc:{type(inp).__name__}:construct:{impl}',
                      f'{impl}({text!r}) raised {type(inp).__name__}: {inp}', {'part': 'a', 'text': text, 'impl': impl})
        return 1
    ok, cur = _call(inp.newcursor)
    if not ok:
        acc.violation(f'a:exc:{type(cur).__name__}:newcursor:{impl}',
                      f'{impl}({text!r}).newcursor() raised {type(cur).__name__}: {cur}',
                      {'part': 'a', 'text': text, 'impl': impl})
        return 1
    accs = accessors(impl, inp, cur)
    if len(accs) < EXPECTED_ACCESSORS[impl]:
        acc.note(f'{impl}: only {len(accs)} of {EXPECTED_ACCESSORS[impl]} position accessors exist (others unobserved)')
    nviol = 0
    n = len(text)
    has_get_line = hasattr(cur, 'get_line')
    for pos in range(n + 1):
        kind = Lo.kind(pos)
        coarse = kind if kind in ('end-of-text', 'empty-text') else 'in-text'
        if count:
            acc.evaluations += 1
            acc.count('a_offsets_checked')
            acc.count('a_offsets:' + kind)
        cands = Lo.candidates(pos)
        lines_ok = {c[0] for c in cands}
        cols_ok = {c[1] for c in cands}
        for name, akind, fn in accs:
            ok, v = _call(lambda: fn(pos))  # noqa: B023
            if count:
                acc.count('a_calls')
            if not ok:
                nviol += 1
                acc.violation(f'a:exc:{type(v).__name__}:{coarse}:{name}',
                              f'{name}({pos}) on {text!r} raised {type(v).__name__}: {v}',
                              {'part': 'a', 'text': text, 'impl': impl, 'pos': pos, 'accessor': name,
                               'origin': origin})
                continue
            bad = None
            if akind == 'lineinfo':
                bad = O.lineinfo_ok(Lo, pos, v)
                if bad is None and count and pos < n:
                    if cands[0][3] == cands[0][4]:
                        acc.count('a_lineinfo_on_line_without_break')
                    else:
                        acc.count('a_lineinfo_text_with_break' if v[4] == cands[0][4]
                                  else 'a_lineinfo_text_without_break')
                exp = [(c[0], c[1], c[2], c[4], text[c[2]:c[4]]) for c in cands]
                got = tuple(v)[1:] if isinstance(v, tuple) else v
            elif akind == 'line':
                if v not in lines_ok:
                    bad = 'line'
                    if coarse == 'end-of-text' and v == Lo.editor_linecount:
                        bad = 'line=linecount'
                exp, got = sorted(lines_ok), v
            else:
                if v not in cols_ok:
                    bad = 'col'
                    if coarse == 'end-of-text' and v == 0:
                        bad = 'col=0'
                exp, got = sorted(cols_ok), v
            if bad:
                nviol += 1
                where = coarse if coarse != 'in-text' else kind
                acc.violation(f'a:{bad}:{where}:{name}',
                              f'{name}({pos}) on {text!r} (len {n}) = {got!r}; splitter oracle: {exp!r}',
                              {'part': 'a', 'text': text, 'impl': impl, 'pos': pos, 'accessor': name,
                               'got': got, 'expected': exp, 'origin': origin})
        # line text by line number (only where the line number itself is unambiguous)
        if has_get_line and pos < n:
            k, _c, s, e, eb = cands[0]
            ok, v = _call(lambda: cur.get_line(k))  # noqa: B023
            if count:
                acc.count('a_calls')
            if not ok:
                nviol += 1
                acc.violation(f'a:exc:{type(v).__name__}:{coarse}:{type(cur).__name__}.get_line',
                              f'get_line({k}) on {text!r} raised {type(v).__name__}: {v}',
                              {'part': 'a', 'text': text, 'impl': impl, 'pos': pos, 'accessor': 'get_line'})
            elif v not in (text[s:e], text[s:eb]):
                nviol += 1
                acc.violation(f'a:text:{kind}:{type(cur).__name__}.get_line',
                              f'get_line({k}) on {text!r} = {v!r}; splitter oracle: {text[s:eb]!r}',
                              {'part': 'a', 'text': text, 'impl': impl, 'pos': pos, 'accessor': 'get_line'})
    if count:
        if Lo.lines and (len(Lo.lines) > 1 or Lo.ends_with_break):
            acc.nontriv('a', text, impl)
        for cv in Lo.conventions():
            acc.count('a_texts_with:' + cv)
        if len(Lo.conventions()) > 1:
            acc.count('a_texts_mixed_conventions')
    return nviol


def run_exh(desc, acc):
    impls = _impls()
    probe_cache_builder(acc)
    maxlen, plen = desc['maxlen'], desc['plen']

    def strings():
        if desc['short']:
            for n in range(plen):
                for t in itertools.product(ALPHABET, repeat=n):
                    yield ''.join(t)
        for p in desc['prefixes']:
            for n in range(maxlen - plen + 1):
                for t in itertools.product(ALPHABET, repeat=n):
                    yield p + ''.join(t)

    sampled = False
    for text in strings():
        acc.count('a_strings')
        for impl, cls in impls.items():
            check_text(acc, text, impl, cls, 'exhaustive')
        if desc['short'] and not sampled and len(text) == maxlen and '\r\n' in text and '\n\r' in text:
            sampled = True
            Lo = O.Lines(text)
            acc.sample({'part': 'a', 'text': text, 'offsets': len(text) + 1, 'impls': list(impls),
                        'oracle(line,col,start,end_wo_break,end_with_break) per offset':
                            [Lo.candidates(p) for p in range(len(text) + 1)]})


PIECES = ['a', 'ab', ' ', '  ', 'a b', 'aaa aa', '\n', '\r', '\r\n', '\n\n', '\r\r', '\n\r', '\r\n\r\n', ' \n', 'b\r']


def long_text(rng):
    style = rng.random()
    if style < 0.25:
        breaks = [rng.choice(['\n', '\r', '\r\n'])]          # one convention
    else:
        breaks = ['\n', '\r', '\r\n']                        # mixed
    target = rng.choice([20, 60, 200, 600, 2000])
    out = []
    size = 0
    while size < target:
        r = rng.random()
        if r < 0.3:
            p = rng.choice(breaks)
        elif r < 0.4:
            p = rng.choice(PIECES)
        else:
            p = ''.join(rng.choice('ab ') for _ in range(rng.randrange(1, 30)))
        out.append(p)
        size += len(p)
    return ''.join(out)[:2000]


FAIL_GRAMMAR = "start = {word} $ ;\nword = /[ab]+/ ;\n"


def run_long(desc, acc):
    impls = _impls()
    probe_cache_builder(acc)
    for i in range(desc['n']):
        rng = random.Random(h64('C12', 'long', desc['seed'], desc['shard'], i))
        text = long_text(rng)
        acc.count('a_long_texts')
        acc.count('a_long_offsets', 2 * (len(text) + 1))
        for impl, cls in impls.items():
            check_text(acc, text, impl, cls, {'mode': 'long', 'shard': desc['shard'], 'i': i})
        if i == 0 and desc['shard'] == 0:
            acc.sample({'part': 'a-long', 'len': len(text), 'text_head': text[:60],
                        'conventions': sorted(O.Lines(text).conventions())})
    # FailedParse.info must describe FailedParse.pos
    import tatsu
    model = tatsu.compile(FAIL_GRAMMAR)
    for i in range(desc['nfail']):
        rng = random.Random(h64('C12', 'fail', desc['seed'], desc['shard'], i))
        base = long_text(rng)[:rng.choice([5, 20, 80, 300])].replace('  ', ' ')
        k = rng.randrange(len(base) + 1)
        text = base[:k] + rng.choice(['!', '!', '?x']) + base[k:]
        impl = ('str', 'TextLines', 'Buffer')[i % 3]
        check_failinfo(acc, model, text, impl, 'a')


def make_input(text, impl, lexical=None):
    if impl == 'str':
        return text
    return _impls()[impl](text, **(lexical or {}))


def check_failinfo(acc, model, text, impl, part, exc=None, witness=None):
    """FailedParse.info (a LineInfo) against the splitter at FailedParse.pos"""
    from tatsu.exceptions import FailedParse
    if exc is None:
        try:
            model.parse(make_input(text, impl))
            acc.count(f'{part}_failprobe_accepted')
            return
        except FailedParse as e:
            exc = e
        except Exception as e:  # noqa: BLE001
            acc.violation(f'{part}:failinfo:exc:{type(e).__name__}:{impl_name(impl)}',
                          f'parse of {text!r} ({impl}) raised {type(e).__name__}: {e}',
                          witness or {'part': 'fail', 'text': text, 'impl': impl})
            return
    acc.evaluations += 1
    ok, got = _call(lambda: (exc.pos, exc.info))
    if not ok:
        acc.violation(f'{part}:failinfo:exc:{type(got).__name__}', f'FailedParse.pos/.info raised {got!r}',
                      witness or {'part': 'fail', 'text': text, 'impl': impl})
        return
    pos, info = got
    if not isinstance(pos, int) or pos < 0 or pos > len(text):
        acc.violation(f'{part}:failinfo:pos-out-of-range', f'FailedParse.pos={pos!r} for text of len {len(text)}',
                      witness or {'part': 'fail', 'text': text, 'impl': impl})
        return
    Lo = O.Lines(text)
    acc.count(f'{part}_failinfo_checked')
    kind = Lo.kind(pos)
    acc.count(f'{part}_failinfo:' + ('in-text' if kind not in ('end-of-text', 'empty-text') else kind))
    bad = O.lineinfo_ok(Lo, pos, info)
    if bad:
        coarse = kind if kind in ('end-of-text', 'empty-text') else 'in-text'
        acc.violation(f'{part}:failinfo:{bad}:{coarse}:{impl_name(impl)}',
                      f'FailedParse at pos {pos} of {text!r} carries info {tuple(info)[1:]!r}; splitter oracle: '
                      f'{[(c[0], c[1], c[2], c[4]) for c in Lo.candidates(pos)]!r}',
                      witness or {'part': 'fail', 'text': text, 'impl': impl})
    elif Lo.lines and len(Lo.lines) > 1:
        acc.nontriv('failinfo', text, impl)


def impl_name(impl):
    return 'TextLines' if impl == 'str' else impl


# ---- evidence probe on the cache builder (never decides)
_PROBED = False


def probe_cache_builder(acc):
    """icontract postcondition on PosLine.build_line_cache: len(cache) == size + 1 (or empty) and start
    offsets monotone.  Evidence only: a failed probe is a note/counter, a vanished name is 'unobserved'."""
    global _PROBED
    if _PROBED:
        return
    _PROBED = True
    try:
        import icontract
        from tatsu.input import infos
        orig = infos.PosLine.build_line_cache

        def post(result, lines, size):
            cache = result[0]
            if not lines:
                return cache == []
            starts = [p[0] for p in cache]
            return len(cache) == size + 1 and all(a <= b for a, b in zip(starts, starts[1:]))

        checked = icontract.ensure(post)(orig)

        def wrapper(lines, size):
            acc.count('probe_build_line_cache_calls')
            try:
                return checked(lines, size)
            except icontract.ViolationError:
                acc.count('probe_build_line_cache_postcondition_failed')
                acc.note('evidence probe: PosLine.build_line_cache postcondition (len == size+1, monotone starts) failed')
                return orig(lines, size)

        infos.PosLine.build_line_cache = staticmethod(wrapper)
    except Exception as e:  # noqa: BLE001
        acc.note(f'evidence probe on PosLine.build_line_cache unobserved: {type(e).__name__}')


# =============================================================================== part (b)
class NodeVal:
    """REF-side stand-in for the model node a typed rule returns"""
    __slots__ = ('typename', 'val')

    def __init__(self, typename, val):
        self.typename = typename
        self.val = val

    def __repr__(self):
        return f'NodeVal({self.typename}, {self.val!r})'


def ref_action(rule, val, pos, end):
    if rule.params:
        return NodeVal(str(rule.params[0]).split('::')[0], val)
    return val


def cref(v):
    if isinstance(v, NodeVal):
        return ['<node>', v.typename, cref(v.val)]
    if isinstance(v, dict):
        return {k: cref(x) for k, x in v.items()}
    if isinstance(v, (list, tuple)):
        return [cref(x) for x in v]
    return v


_NODE_BASE = ('ast', 'ctx', 'parseinfo')
PI_KEYS = ('parseinfo', '__parseinfo__')


def is_node(x):
    from tatsu.objectmodel import Node
    return isinstance(x, Node)


def is_tatsu_ast(x):
    from tatsu.contexts.ast import AST
    return isinstance(x, AST)


def node_fields(x):
    return {k: v for k, v in vars(x).items() if not k.startswith('_') and k not in _NODE_BASE}


def creal(v, depth=0):
    if depth > 200:
        return '<deep>'
    if is_node(v):
        f = node_fields(v)
        body = {k: creal(x, depth + 1) for k, x in f.items()} if f else creal(v.ast, depth + 1)
        return ['<node>', type(v).__name__, body]
    if isinstance(v, dict):
        return {k: creal(x, depth + 1) for k, x in v.items() if k not in PI_KEYS}
    if isinstance(v, (list, tuple)):
        return [creal(x, depth + 1) for x in v]
    return v


def walk_real(v, out, depth=0):
    """collect every dict-like AST and every model node reachable in a parse result"""
    if depth > 200:
        return
    if is_node(v):
        out.append(('node', v))
        for x in node_fields(v).values():
            walk_real(x, out, depth + 1)
        if not isinstance(v.ast, dict):
            walk_real(v.ast, out, depth + 1)
    elif isinstance(v, dict):
        out.append(('ast', v))
        for k, x in v.items():
            if k not in PI_KEYS:
                walk_real(x, out, depth + 1)
    elif isinstance(v, (list, tuple)):
        for x in v:
            walk_real(x, out, depth + 1)


def judge_tree(result, ref, text, value_sensitive, uncached=frozenset(), calltail=frozenset()):
    """-> (problems, stats)   problems: [(sigpart, human text)]
    uncached: names of rules that run without memoization / off the call stack (evidence counters only)
    calltail: names of rules whose body may end in a call to another rule (evidence counters only)"""
    Lo = O.Lines(text)
    ev = {}
    for (rule, pos, end, val) in ref.events:
        ev.setdefault((rule, pos, end), []).append(val)
    nodes = []
    walk_real(result, nodes)
    problems = []
    stats = {'nodes': 0, 'ast': 0, 'node': 0, 'value': 0, 'after_ws': 0, 'line_nonzero': 0, 'at_eot': 0,
             'node_text_none': 0, 'node_text_ok': 0, 'endline_other': 0, 'distinct_rules': set(),
             'plain_dict_open_corner': 0, 'at_eot_after_break': 0, 'uncached': 0, 'uncached_after_ws': 0,
             'uncached_after_break': 0, 'before_blanks': 0, 'before_break': 0, 'calltail_before_blanks': 0,
             'inner_before_blanks': 0}
    seen = set()
    for kind, x in nodes:
        if id(x) in seen:
            continue
        seen.add(id(x))
        if kind == 'ast' and not is_tatsu_ast(x) and not value_sensitive:
            # a plain dict that is not a tatsu AST, in an execution through a documented-open corner
            # (e.g. nested overrides leak an internal {'__vallue__': ...}): not a rule's AST, C01 business
            stats['plain_dict_open_corner'] += 1
            continue
        stats['nodes'] += 1
        stats[kind] += 1
        try:
            pi = x.parseinfo if not isinstance(x, dict) or is_tatsu_ast(x) else None
        except Exception as e:  # noqa: BLE001
            problems.append((f'exc:{type(e).__name__}:{kind}', f'reading .parseinfo of a {kind} raised {e!r}'))
            continue
        if pi is None:
            problems.append((f'missing:{kind}', f'{kind} {short(creal(x))} carries no parseinfo'))
            continue
        try:
            rule, pos, endpos, line = pi.rule, pi.pos, pi.endpos, pi.line
        except Exception as e:  # noqa: BLE001
            problems.append((f'shape:{kind}', f'parseinfo {pi!r} lacks rule/pos/endpos/line: {e!r}'))
            continue
        if not isinstance(rule, str):
            problems.append((f'rule-not-a-name:{kind}', f'parseinfo.rule is {short(creal(rule))!r}, not a rule name'))
            continue
        key = (rule, pos, endpos)
        stats['distinct_rules'].add(rule)
        if key not in ev:
            same_r = [k for k in ev if k[0] == rule]
            if any(k[2] == endpos for k in same_r):
                p2 = [k[1] for k in same_r if k[2] == endpos]
                lo, hi = min(p2[0], pos), max(p2[0], pos)
                tag = 'pos-not-after-leading-ws' if text[lo:hi].strip() == '' or pos < p2[0] else 'pos'
            elif any(k[1] == pos for k in same_r):
                tag = 'endpos'
            elif any(k[1] == pos and k[2] == endpos for k in ev):
                tag = 'rule'
            else:
                tag = 'span'
            problems.append((f'{tag}:{kind}',
                             f'{kind} {short(creal(x))} carries parseinfo (rule={rule!r}, pos={pos}, endpos={endpos}) '
                             f'= {text[pos:endpos]!r} but no successful evaluation of {rule!r} spans it; '
                             f'evaluations of that rule: {sorted(k[1:] for k in same_r)[:6]}'))
        elif value_sensitive:
            stats['value'] += 1
            cx = creal(x)
            if not any(cref(v) == cx for v in ev[key]):
                problems.append((f'value:{kind}',
                                 f'{kind} {short(cx)} carries parseinfo ({rule!r},{pos},{endpos}) but that evaluation '
                                 f'returned {short(cref(ev[key][0]))}'))
        # start line: the line of `pos` = number of line breaks before it; a start at len(text) is one past the
        # last character (after a trailing line break that is the new, empty last line)
        if isinstance(pos, int) and 0 <= pos <= len(text):
            want = Lo.at(pos)[0] if pos < len(text) else Lo.onepast()[0]
            if line != want:
                where = Lo.kind(pos)
                if where in ('end-of-text', 'empty-text'):
                    tag = f'line=clamped:{where}' if line == Lo.clamped()[0] else f'line:{where}'
                else:
                    tag = 'line:in-text'
                problems.append((tag, f'parseinfo of rule {rule!r} has pos={pos} line={line}; splitter oracle: line '
                                      f'{want} (text {short(text)!r}, len {len(text)})'))
            if pos == len(text) and Lo.ends_with_break:
                stats['at_eot_after_break'] += 1
            if rule in uncached:
                stats['uncached'] += 1
                if pos and text[pos - 1] in ' \n\r\t':
                    stats['uncached_after_ws'] += 1
                if pos and text[pos - 1] in '\n\r':
                    stats['uncached_after_break'] += 1
            if pos and pos <= len(text) and text[pos - 1] in ' \n\r\t':
                stats['after_ws'] += 1
            if line:
                stats['line_nonzero'] += 1
            if pos == len(text):
                stats['at_eot'] += 1
            if key in ev and isinstance(endpos, int) and pos < endpos < len(text) and text[endpos] in ' \n\r\t':
                # the match stops right before blanks / a line break that the rule did not consume
                stats['before_blanks'] += 1
                if text[endpos] in '\n\r' or text[endpos:].lstrip(' \t')[:1] in ('\n', '\r'):
                    stats['before_break'] += 1
                if rule in calltail:
                    stats['calltail_before_blanks'] += 1
                if x is not result:
                    stats['inner_before_blanks'] += 1
            # outside the statement: counted only
            try:
                if isinstance(endpos, int) and 0 <= endpos <= len(text) and \
                        pi.endline not in O.line_candidates(Lo, endpos):
                    stats['endline_other'] += 1
            except Exception:  # noqa: BLE001
                pass
        if kind == 'node':
            try:
                t = x.text
                if t is None:
                    stats['node_text_none'] += 1
                elif t == text[pos:endpos]:
                    stats['node_text_ok'] += 1
                if x.line != line:
                    problems.append(('node-line-accessor', f'Node.line={x.line!r} but parseinfo.line={line!r}'))
            except Exception:  # noqa: BLE001
                pass
    return problems, stats


def short(v, n=160):
    s = v if isinstance(v, str) else repr(v)
    return s if len(s) <= n else s[:n] + '...'


class Variant:
    """how one grammar is exercised (all JSON-able)"""

    def __init__(self, enable, route, impl, mode, extra='none'):
        self.enable, self.route, self.impl, self.mode, self.extra = enable, route, impl, mode, extra

    def json(self):
        return {'enable': self.enable, 'route': self.route, 'impl': self.impl, 'mode': self.mode, 'extra': self.extra}

    @staticmethod
    def of(d):
        return Variant(d['enable'], d['route'], d['impl'], d['mode'], d.get('extra', 'none'))


# parse-time settings that accompany `parseinfo` and, by the documentation, change diagnostics or caching only: the
# statement quantifies over "inputs with parseinfo on" whatever else is configured, so the same (rule, pos, endpos,
# line) is required under each of them.  `memo_off` is only drawn for grammars without left recursion (left recursion
# needs the memo table).
EXTRAS = {
    'none': {},
    'trace': {'trace': True, 'colorize': False},
    'trace_color': {'trace': True, 'colorize': True},
    'trace_source': {'trace': True, 'colorize': False, 'trace_filename': 'vt-input'},
    'memo_off': {'memoization': False},
    'plm': {'perlinememos': 0.01},
    'noprune': {'prune_memos_on_cut': False},
}
EXTRA_DRAW = (['none'] * 11 + ['trace'] * 4 + ['trace_color'] * 2 + ['trace_source'] + ['memo_off'] * 2 + ['plm'] * 2
              + ['noprune'] * 2)


def draw_extra(rng, g):
    x = rng.choice(EXTRA_DRAW)
    if x == 'memo_off' and left_recursive_rules(g)[0]:
        x = 'trace'
    return x


class TraceSink:
    """stands in for sys.stderr while a traced parse runs (the console tracer prints there)"""

    def __init__(self):
        self.chars = 0
        self.lines = 0

    def write(self, s):
        self.chars += len(s)
        self.lines += s.count('\n')
        return len(s)

    def flush(self):
        pass

    def isatty(self):
        return False


def ends_in_call(e):
    """the last thing the expression does may be a call to another rule (evidence counters only)"""
    if isinstance(e, L.Call):
        return True
    if isinstance(e, L.Seq):
        return bool(e.items) and ends_in_call(e.items[-1])
    if isinstance(e, (L.LA, L.NLA)):
        return False
    return any(ends_in_call(c) for c in L.children(e))


LEXICAL = ('whitespace', 'comments', 'eol_comments', 'nameguard', 'namechars', 'ignorecase')


class PCase:
    """grammar + variant with its real model built once"""

    def __init__(self, g, variant, text_syntax_alt=False):
        self.g = g
        self.v = variant
        d = dict(g.directives)
        self.kw = {}
        if variant.enable == 'directive':
            d['parseinfo'] = True
        else:
            self.kw['parseinfo'] = True
        self.gm = L.Grammar(list(g.rules), d, tuple(g.keywords))
        self.lexical = {k: v for k, v in g.directives.items() if k in LEXICAL}
        self.build_error = None
        self.model = None
        self.cls = None
        self.decorated = any(d in ('nomemo', 'nostak') for r in g.rules for d in r.decorators)
        self.uncached = frozenset(r.name for r in g.rules if any(d in ('nomemo', 'nostak') for d in r.decorators))
        self.alt = text_syntax_alt
        self.src = L.grammar_text(self.gm)
        self.calltail = frozenset(r.name for r in g.rules if ends_in_call(r.body))
        self.trace_chars = self.trace_lines = 0
        # end-position wrappers (DESIGN 2.1), one per rule: VTS<i> = v:<rule> r:VTREST ; VTREST = /(?s).*/ ;
        # upper-case names: no whitespace skipping of their own
        self.wrap = {r.name: f'VTS{i}' for i, r in enumerate(g.rules)}
        extra = [L.Rule(w, L.Seq((L.Named('v', L.Call(n)), L.Named('r', L.Call('VTREST')))))
                 for n, w in self.wrap.items()]
        extra.append(L.Rule('VTREST', L.Pat('(?s).*')))
        gw = L.Grammar(list(self.gm.rules) + extra, dict(self.gm.directives), tuple(self.gm.keywords))
        try:
            if variant.route == 'text' or (variant.route == 'generated' and text_syntax_alt):
                import tatsu
                src = L.grammar_text(gw)
                if text_syntax_alt:
                    src = re.sub(r'(?m)^(\w+)\[(\w+)\] =', r'\1::\2 =', src)
                self.model = tatsu.compile(src, name='T')
            else:
                self.model = build(gw, route='object')
            if variant.route == 'generated':
                # the real code generator: it marks every rule its left-recursion analysis leaves unmemoized
                # with @tatsu.nomemo (evidence: which of our rules those are)
                self.cls = gen_parser(self.model)[0]
                try:
                    names = {r.name for r in g.rules}
                    self.uncached = self.uncached | frozenset(
                        r.name for r in self.model.rules
                        if r.name in names and not r.memoizable and not r.is_lrec)
                except Exception:  # noqa: BLE001 - internal names: evidence only
                    pass
        except Exception as e:  # noqa: BLE001
            self.model = None
            self.build_error = (type(e).__name__, str(e)[:200])

    def sem_kw(self):
        if self.v.mode == 'asmodel':
            return {'asmodel': True}
        if self.v.mode == 'builder':
            from tatsu.objectmodel import ModelBuilderSemantics
            return {'semantics': ModelBuilderSemantics()}
        return {}

    def parse(self, text, start, parseinfo=True, override=None):
        from tatsu.exceptions import FailedParse
        kw = dict(self.kw)
        if not parseinfo:
            kw['parseinfo'] = False
        kw.update(self.sem_kw())
        kw.update(EXTRAS[self.v.extra])
        if override:
            kw.pop('asmodel', None)
            kw.update(override)
        n = S.gsize(self.g)
        heart = StepHeart(5000 + 60 * n * n * (len(text) + 1) * (len(text) + 1))
        sink, old = None, sys.stderr
        if kw.get('trace'):
            sink = sys.stderr = TraceSink()
        try:
            inp = make_input(text, self.v.impl, self.lexical)
            parser = self.cls() if self.cls is not None else self.model
            res = parser.parse(inp, start=self.wrap[start], heart=heart, **kw)
            return 'ok', (res['v'], len(text) - len(res['r']))
        except FailedParse as e:
            return 'fail', e
        except RecursionError as e:
            return 'EXC', e
        except Exception as e:  # noqa: BLE001
            return 'EXC', e
        finally:
            sys.stderr = old
            if sink is not None:
                self.trace_chars += sink.chars
                self.trace_lines += sink.lines

    def ref(self, text, start):
        action = ref_action if self.v.mode != 'ast' else None
        return ref_run(self.g, text, start, max_steps=30000, action=action)


def check_pcase(acc, pc: PCase, start, text, origin, shrink=True, out=None):
    """one execution with parseinfo on; returns the set of violation sig-parts
    out: optional dict that receives {'accepted': True, 'result': ..., 'nodes': n} for a judged execution"""
    v = pc.v
    a, r = pc.ref(text, start)
    acc.evaluations += 1
    if a[0] == 'budget':
        acc.count('b_ref_budget')
        return set()
    tc0 = pc.trace_chars, pc.trace_lines
    tag, res = pc.parse(text, start)
    extra = v.extra
    traced = bool(EXTRAS[extra].get('trace'))
    if traced:
        acc.count('b_traced_parses')
        acc.count('b_trace_chars_written', pc.trace_chars - tc0[0])
        acc.count('b_trace_lines_written', pc.trace_lines - tc0[1])
        if pc.trace_lines == tc0[1]:
            acc.count('b_traced_parses_without_output')
    wit = {'part': 'b', 'grammar': L.to_json(pc.g), 'grammar_text': L.grammar_text(pc.gm), 'start': start,
           'text': text, 'variant': v.json(), 'origin': origin}
    if tag == 'EXC':
        # an exception is a C12 observation only if switching parseinfo off makes it go away
        tag2, res2 = pc.parse(text, start, parseinfo=False)
        if tag2 == 'EXC' and type(res2) is type(res):
            acc.count('b_exc_unrelated_to_parseinfo')
            return set()
        where = 'empty-text' if text == '' else 'other'
        part = f'exc:{type(res).__name__}:{where}:{impl_name(v.impl)}'
        acc.violation('b:' + part,
                      f'parse with parseinfo on raised {type(res).__name__}: {short(str(res))} (without parseinfo: {tag2}); '
                      f'grammar {L.grammar_text(pc.gm).strip()!r} start {start!r} input {text!r} via {v.impl}', wit)
        return {part}
    if tag == 'fail':
        acc.count('b_rejected')
        if a[0] == 'ok':
            acc.count('b_accept_disagreement_c01_domain')
        check_failinfo(acc, None, text, v.impl, 'b', exc=res, witness=wit)
        return set()
    if a[0] != 'ok':
        acc.count('b_accept_disagreement_c01_domain')
        return set()
    res, consumed = res
    if consumed != a[1]:
        # REF and the real parser consumed different amounts: PEG-semantics business (C01/C05), not judged here
        acc.count('b_length_disagreement_c01_domain')
        if extra != 'none':
            acc.count('b_length_disagreement_c01_domain_under_extra_settings')
        return set()
    flagged = bool(r.nonw or r.triggers)
    value_sensitive = not flagged
    if value_sensitive and cref(a[2]) != creal(res):
        # the overall value already differs from REF: AST-shape business (C01/C14), not judged here
        acc.count('b_value_disagreement_c01_domain')
        return set()
    acc.count('b_accepted')
    problems, st = judge_tree(res, r, text, value_sensitive, pc.uncached, pc.calltail)
    if out is not None:
        out.update(accepted=True, result=res, nodes=st['nodes'], problems=len(problems))
    acc.count('b_nodes_checked', st['nodes'])
    acc.count('b_nodes_ending_before_blanks', st['before_blanks'])
    acc.count('b_nodes_of_rules_ending_in_a_call_before_blanks', st['calltail_before_blanks'])
    if extra != 'none':
        acc.count('b_nodes_checked_under_extra_settings', st['nodes'])
        acc.count(f'b_nodes_checked:{extra}', st['nodes'])
    if traced:
        acc.count('b_traced_nodes_checked', st['nodes'])
        acc.count('b_traced_nodes_after_leading_ws', st['after_ws'])
        acc.count('b_traced_nodes_ending_before_blanks', st['before_blanks'])
        acc.count('b_traced_nodes_ending_before_line_break', st['before_break'])
        acc.count('b_traced_nodes_of_rules_ending_in_a_call_before_blanks', st['calltail_before_blanks'])
        acc.count('b_traced_inner_nodes_ending_before_blanks', st['inner_before_blanks'])
        acc.count('b_traced_model_nodes', st['node'])
        acc.count('b_traced_ast_nodes', st['ast'])
    acc.count('b_ast_nodes', st['ast'])
    acc.count('b_model_nodes', st['node'])
    acc.count('b_value_compared', st['value'])
    acc.count('b_after_leading_ws', st['after_ws'])
    acc.count('b_line_nonzero', st['line_nonzero'])
    acc.count('b_pos_at_end_of_text', st['at_eot'])
    acc.count('b_pos_at_end_of_text_after_trailing_break', st['at_eot_after_break'])
    acc.count('b_nodes_of_uncached_rules', st['uncached'])
    acc.count('b_nodes_of_uncached_rules_after_leading_ws', st['uncached_after_ws'])
    acc.count('b_nodes_of_uncached_rules_after_line_break', st['uncached_after_break'])
    acc.count('b_node_text_none(outside statement)', st['node_text_none'])
    acc.count('b_node_text_ok', st['node_text_ok'])
    acc.count('b_endline_not_line_of_endpos(outside statement)', st['endline_other'])
    acc.peak('b_max_rules_in_one_tree', len(st['distinct_rules']))
    acc.count('b_plain_dict_in_open_corner_execution(skipped)', st['plain_dict_open_corner'])
    if flagged:
        acc.count('b_accepted_flagged_value_insensitive')
    if st['nodes']:
        acc.count('b_accepted_with_nodes')
        acc.count('b_enable:' + v.enable)
        acc.count('b_impl:' + v.impl)
        acc.count('b_route:' + v.route)
        acc.count('b_mode:' + v.mode)
        acc.count('b_cfg:' + extra)
        if traced:
            acc.count('b_traced_route:' + v.route)
            acc.count('b_traced_impl:' + v.impl)
        if pc.decorated:
            acc.count('b_accepted_decorated_nomemo_nostak')
        if v.route == 'generated' and pc.uncached:
            acc.count('b_accepted_generated_with_uncached_rules')
        acc.nontriv('b', L.grammar_text(pc.gm), start, text, v.json())
    if not problems:
        return set()
    # a problem that only exists under the extra parse-time settings is a different mechanism from one that is there anyway
    plain_parts = None
    if extra != 'none':
        pc0 = PCase.__new__(PCase)
        pc0.__dict__.update(pc.__dict__)
        pc0.v = Variant(v.enable, v.route, v.impl, v.mode, 'none')
        tag0, res0 = pc0.parse(text, start)
        if tag0 == 'ok' and res0[1] == a[1]:
            plain_parts = {p[0] for p in judge_tree(res0[0], r, text, value_sensitive, pc.uncached, pc.calltail)[0]}
    parts = set()
    for part, what in problems:
        if part in parts:
            continue
        parts.add(part)
        only = tail = ''
        if plain_parts is not None and part not in plain_parts:
            only = ':only-with:' + ('trace' if traced else extra)
            tail = f' -- the same call without {EXTRAS[extra]} does not show this'
        g2, t2, w = pc.g, text, dict(wit)
        if shrink and origin.get('mode') != 'replay' and acc.counters.get('violations:b:' + part + only, 0) < 3:
            g2, t2, (part2, what2) = shrink_b(pc, start, text, (part, what))
            if part2 == part and (g2 is not pc.g or t2 != text):
                what = what2
                w.update({'grammar': L.to_json(g2), 'grammar_text': L.grammar_text(g2), 'text': t2,
                          'original': {'grammar_text': wit['grammar_text'], 'text': text}})
            else:
                g2, t2 = pc.g, text
        acc.violation('b:' + part + only,
                      f'{what}; grammar {L.grammar_text(g2).strip()!r} start {start!r} input {t2!r} '
                      f'[{v.enable},{v.route},{v.impl},{v.mode}' + (f',{extra} {EXTRAS[extra]}' if extra != 'none' else '')
                      + ']' + tail, w)
    return parts


def shrink_b(pc, start, text, first):
    part = first[0]
    found = {}

    def pred(g2, s2, t2):
        c = PCase(g2, pc.v)
        if c.model is None:
            return False
        a, r = c.ref(t2, s2)
        if a[0] != 'ok':
            return False
        tag, res = c.parse(t2, s2)
        if tag != 'ok' or res[1] != a[1]:
            return False
        res = res[0]
        vs = not (r.nonw or r.triggers)
        if vs and cref(a[2]) != creal(res):
            return False
        probs, _ = judge_tree(res, r, t2, vs, c.uncached)
        for p in probs:
            if p[0] == part:
                found[(L.grammar_text(g2), t2)] = p
                return True
        return False

    try:
        g2, t2 = S.shrink(pc.g, start, text, pred, budget=80)
    except Exception:  # noqa: BLE001
        return pc.g, text, first
    return g2, t2, found.get((L.grammar_text(g2), t2), first)


# ---- inputs with blanks, line breaks and comments between tokens
def enrich(rng, s, comments):
    seps = [' ', '\n', '\r\n', '\r', '  ', '\n\n', ' \n ']
    if comments:
        seps += [' #c\n', '#\n', ' # a b\r\n']
    if rng.random() < 0.55:
        out = []
        for ch in s:
            if ch in ' \n' and rng.random() < 0.6:
                out.append(rng.choice(seps))
            else:
                out.append(ch)
        s = ''.join(out)
    if rng.random() < 0.35:
        s = rng.choice(seps) + s
    if rng.random() < 0.35:
        s = s + rng.choice(seps)
    if rng.random() < 0.04:
        s = rng.choice([' ', '\n', ' \n', '\r\n', '\r', '\n\n', '  \r\n ', '\n \r'] + seps)
    return s


TYPE_NAMES = {'start': 'Tstart', 'x': 'Tx', 'Y': 'Ty', 'z': 'Tz', 'w': 'Tw'}


def random_case(rng, i):
    F = dict(G.FEATURES)
    F['cut'] = rng.random() < 0.2
    for k in ('over', 'la', 'join', 'skipto', 'const', 'skipgroup'):
        if rng.random() < 0.25:
            F[k] = False
    g = G.gen_grammar(rng, F, max_rules=5 if rng.random() < 0.4 else 3, pats=list(G.PATS))
    # make sure most rules produce dict-like ASTs: name the body of some rules
    rules = []
    for r in g.rules:
        body = r.body
        if rng.random() < 0.45 and not any(isinstance(x, (L.Named, L.NamedList, L.Over, L.OverList))
                                           for x in L.walk(body)):
            body = G.normalise(L.Named(rng.choice(['n', 'm', 'k']), body))
        rules.append(L.Rule(r.name, body))
    mode = ('ast', 'ast', 'asmodel', 'builder')[i % 4]
    route = 'text' if i % 13 == 0 else 'generated' if i % 6 == 3 else 'object'
    if route == 'generated' and mode == 'asmodel':
        mode = 'builder'      # generated parsers take a semantics object
    if mode != 'ast':
        rules = [L.Rule(r.name, r.body, params=(TYPE_NAMES[r.name],)) if rng.random() < 0.5 else r for r in rules]
    if rng.random() < 0.4:
        # @nomemo / @nostak only change caching and tracing: REF ignores them, parseinfo must not move
        rules = [L.Rule(r.name, r.body, rng.choice([('nomemo',), ('nostak',), ('nomemo', 'nostak')]), r.params)
                 if rng.random() < 0.55 else r for r in rules]
    directives = {}
    if rng.random() < 0.2:
        directives['eol_comments'] = '#[^\\n\\r]*'
    g = L.Grammar(rules, directives)
    variant = Variant(enable=('directive', 'setting')[(i // 4) % 2],
                      route=route,
                      impl=('str', 'Buffer', 'str', 'TextLines', 'Buffer')[i % 5],
                      mode=mode)
    return g, variant


def run_pinfo(desc, acc):
    for i in range(desc['n']):
        rng = random.Random(h64('C12', 'pinfo', desc['seed'], desc['shard'], i))
        g, variant = random_case(rng, i)
        # its own stream: the grammar/input streams are the same as without this dimension
        variant.extra = draw_extra(random.Random(h64('C12', 'pinfo-extra', desc['seed'], desc['shard'], i)), g)
        pc = PCase(g, variant, text_syntax_alt=bool(i % 2))
        if pc.model is None:
            acc.count('b_build_failed')
            acc.note(f'b: model build failed ({variant.route}): {pc.build_error[0]}')
            continue
        starts = [g.rules[0].name]
        if len(g.rules) > 1 and rng.random() < 0.3:
            starts.append(rng.choice(g.rules[1:]).name)
        for start in starts:
            texts = G.gen_inputs(rng, g, start, desc['inputs'])
            texts = [enrich(rng, t, 'eol_comments' in g.directives) for t in texts]
            for text in texts:
                check_pcase(acc, pc, start, text, {'mode': 'pinfo', 'shard': desc['shard'], 'i': i})
        if i == 0 and desc['shard'] < 2:
            acc.sample({'part': 'b', 'grammar': L.grammar_text(pc.gm), 'variant': variant.json(),
                        'start': starts[0], 'inputs': texts})


# ---- hand-written typed grammars (text route; `rule::Type = ...` and `rule[Type] = ...`)
def _typed_grammars():
    N, C, T, P, Sq, Ch = L.Named, L.Call, L.Tok, L.Pat, L.Seq, L.Choice
    out = []
    # pairs
    out.append(('pairs', L.Grammar([
        L.Rule('start', Sq((N('xs', L.PClo(C('pair'))), L.EOF()))),
        L.Rule('pair', Sq((N('k', C('key')), T('='), N('v', C('value')))), params=('Pair',)),
        L.Rule('key', N('name', P(r'[a-z]\w*')), params=('Key',)),
        L.Rule('value', Ch((L.Over(C('num')), L.Over(C('key'))))),
        L.Rule('num', P(r'\d+'), params=('Num',)),
    ]), ['a', 'bc', 'x1', '42', '7', '=', '=', '=']))
    # nested expressions, cut, recursion through parentheses, list-valued names
    out.append(('expr', L.Grammar([
        L.Rule('start', Sq((N('e', C('expr')), L.EOF()))),
        L.Rule('expr', Sq((N('l', C('term')), L.Clo(Sq((L.NamedList('ops', L.Group(Ch((T('+'), T('-'))))),
                                                        L.NamedList('rs', C('term'))))))), params=('Expr',)),
        L.Rule('term', Ch((L.Over(C('num')), Sq((T('('), L.Cut(), L.Over(C('expr')), T(')')))))),
        L.Rule('num', N('d', P(r'\d+')), params=('Num',)),
    ]), ['1', '22', '+', '-', '(', ')', '3']))
    # typed rules over non-dict values; a gather; comments
    out.append(('lists', L.Grammar([
        L.Rule('start', Sq((N('a', C('lst')), T(';'), N('b', L.Opt(C('pairs'))), L.EOF()))),
        L.Rule('lst', L.Clo(C('num')), params=('Lst',)),
        L.Rule('pairs', L.Join(T(','), C('kv'), True, True), params=('Pairs',)),
        L.Rule('kv', Sq((N('k', C('WORD')), T(':'), N('v', C('num'))))),
        L.Rule('WORD', P(r'[a-z]+')),
        L.Rule('num', P(r'\d+'), params=('Num',)),
    ], {'eol_comments': '#[^\\n\\r]*'}), ['1', '22', ';', ';', 'k', 'ab', ':', ',', '3']))
    # left recursion
    out.append(('leftrec', L.Grammar([
        L.Rule('start', Sq((N('e', C('expr')), N('ts', L.Clo(C('more'))), L.EOF()))),
        L.Rule('more', Sq((T(','), N('x', C('expr'))))),     # a cycle rule entered with blanks pending
        L.Rule('expr', Ch((C('add'), C('num')))),
        L.Rule('add', Sq((N('l', C('expr')), T('+'), N('r', C('num')))), params=('Add',)),
        L.Rule('num', N('d', P(r'\d+')), params=('Num',)),
    ]), ['1', '22', '+', '+', '3', ',']))
    # nullable rules that match at the very end, after trailing blanks / line breaks (their start is len(text))
    out.append(('tails', L.Grammar([
        L.Rule('start', Sq((N('xs', L.Clo(C('word'))), N('t', C('tail')), N('g', C('gap')), N('e', C('ending')),
                            N('q', C('opt')), L.EOF()))),
        L.Rule('word', N('w', P(r'[a-z]+')), params=('Word',)),
        L.Rule('tail', N('n', L.Const('1')), params=('Tail',)),
        L.Rule('gap', N('v', L.Void())),
        L.Rule('ending', L.Clo(L.NamedList('k', T('!'))), params=('Ending',)),
        L.Rule('opt', L.Opt(N('o', T('?')))),
    ]), ['ab', 'c', 'xyz', '!', '?', 'ab']))
    return out


def decorated(g):
    """the same grammar with @nomemo / @nostak spread over its rules (caching and tracing only)"""
    cyc = [('nomemo',), ('nostak',), ('nomemo', 'nostak')]
    return L.Grammar([L.Rule(r.name, r.body, cyc[j % 3], r.params, r.kwparams, r.base) for j, r in enumerate(g.rules)],
                     dict(g.directives), tuple(g.keywords))


SEPS = [' ', ' ', '', '\n', '\r\n', '\r', '  ', '\n\n', '\n  ', ' \r\n']


def typed_input(rng, vocab, comments):
    n = rng.choice([1, 2, 3, 3, 5, 7, 9, 12])
    seps = SEPS + ([' # c\n', '#x\r\n'] if comments else [])
    out = [rng.choice(seps)] if rng.random() < 0.4 else []
    for _ in range(n):
        out.append(rng.choice(vocab))
        out.append(rng.choice(seps))
    if rng.random() < 0.5:
        out.pop()
    return ''.join(out)


def typed_derived(rng, name):
    """inputs that are mostly accepted"""
    if name == 'pairs':
        toks = []
        for _ in range(rng.randrange(1, 5)):
            toks += [rng.choice(['a', 'bc', 'x1']), '=', rng.choice(['42', '7', 'q'])]
    elif name == 'expr':
        def e(d):
            t = [term(d)]
            for _ in range(rng.choice([0, 0, 1, 2])):
                t += [rng.choice('+-')] + term(d)
            return sum(([x] if isinstance(x, str) else x for x in t), [])

        def term(d):
            if d > 2 or rng.random() < 0.7:
                return [rng.choice(['1', '22', '3'])]
            return ['('] + e(d + 1) + [')']
        toks = e(0)
    elif name == 'lists':
        toks = [rng.choice(['1', '22']) for _ in range(rng.randrange(0, 4))] + [';']
        for j in range(rng.randrange(0, 3)):
            toks += ([','] if j else []) + [rng.choice(['k', 'ab']), ':', rng.choice(['3', '44'])]
    elif name == 'tails':
        toks = [rng.choice(['ab', 'c', 'xyz']) for _ in range(rng.choice([0, 0, 1, 2, 3]))]
        toks += ['!'] * rng.choice([0, 0, 0, 1, 2]) + ['?'] * rng.choice([0, 0, 1])
    else:
        toks = []
        for j in range(rng.choice([1, 1, 2, 3])):
            toks += ([','] if j else []) + [rng.choice(['1', '22'])]
            for _ in range(rng.randrange(0, 4)):
                toks += ['+', rng.choice(['3', '4'])]
    return toks


def run_typed(desc, acc):
    grammars = _typed_grammars()
    cases = {}
    for i in range(desc['n']):
        rng = random.Random(h64('C12', 'typed', desc['seed'], desc['shard'], i))
        gi = i % len(grammars)
        name, g0, vocab = grammars[gi]
        route = rng.choice(['text', 'text', 'generated'])
        mode = rng.choice(['asmodel', 'builder', 'ast'])
        if route == 'generated' and mode == 'asmodel':
            mode = 'builder'
        variant = Variant(enable=rng.choice(['directive', 'setting']), route=route,
                          impl=rng.choice(['str', 'Buffer', 'TextLines']), mode=mode)
        deco = rng.random() < 0.5
        variant.extra = draw_extra(random.Random(h64('C12', 'typed-extra', desc['seed'], desc['shard'], i)), g0)
        alt = variant.enable == 'directive' and route == 'text'     # `rule::Type =` vs `rule[Type] =`
        key = (gi, variant.enable, variant.mode, route, deco)
        if key not in cases:
            cases[key] = PCase(decorated(g0) if deco else g0, variant, text_syntax_alt=alt)
            if cases[key].model is not None:
                acc.count('b_typed_models_built')
        base = cases[key]
        g = base.g
        if base.model is None:
            acc.violation(f'b:exc:build:{base.build_error[0]}', f'building typed grammar {name} failed: {base.build_error}',
                          {'part': 'typed-build', 'name': name})
            continue
        pc = PCase.__new__(PCase)
        pc.__dict__.update(base.__dict__)
        pc.v = variant
        comments = 'eol_comments' in g.directives
        if rng.random() < 0.7:
            toks = typed_derived(rng, name)
            seps = SEPS + ([' # c\n', '#x\r\n'] if comments else [])
            text = (rng.choice(seps) if rng.random() < 0.4 else '') + ''.join(
                t + rng.choice(seps) for t in toks)
            if rng.random() < 0.5:
                text = text.rstrip(' ')
            if rng.random() < 0.15:
                text = G.mutate(rng, text, ''.join(vocab) + ' \n')
        else:
            text = typed_input(rng, vocab, comments)
        if name == 'tails':
            k = rng.random()
            if k < 0.15:
                text = ''.join(rng.choice([' ', '\n', '\r\n', '\r']) for _ in range(rng.randrange(1, 5)))
            elif k < 0.75:
                text = text.rstrip() + rng.choice(['\n', '\r\n', '\r', ' \n', '\n\n', '\n \r\n', ' \r', '\n  '])
        start = 'start' if rng.random() < 0.8 else rng.choice(g.rules[1:]).name
        acc.count('b_typed_cases')
        check_pcase(acc, pc, start, text, {'mode': 'typed', 'shard': desc['shard'], 'i': i, 'grammar': name},
                    shrink=False)
        if i == 1 and desc['shard'] == 0:
            acc.sample({'part': 'b-typed', 'grammar': base.src, 'variant': variant.json(), 'start': start,
                        'input': text})


# ---- pass-through / retry family: nodes that travel unchanged through chains of rules, asked for again after a
#      failed alternative (or after a lookahead) and answered from the memo
RETRY_TERMS = [';', '.', '!', '?', ':']
RETRY_PATS = {r'\d+': ['1', '22', '305', '7'], r'[a-z]+': ['a', 'bc', 'xyz', 'q']}
RETRY_SEPS = ['', ' ', ' ', '\n', '\r\n', '\r', '  ', '\n\n', ' \n ']
RETRY_EXTRA_DRAW = (['none'] * 12 + ['memo_off'] * 2 + ['noprune'] * 2 + ['trace'] * 2 + ['trace_color'] + ['plm'])
RETRY_FORMS = ('call', 'call', 'choice-long', 'choice-long', 'over', 'sign-over', 'group', 'choice-leaf', 'paren')
RETRY_ASKS = ('plain', 'plain', 'plain', 'la', 'la-seq', 'nla', 'opt', 'clo')


def retry_case(rng, i):
    r"""-> (grammar, variant, info)   info: {'chain': [outermost..innermost pass-through rule], 'depth': its length}

    leaf      a rule that builds a dict-like AST / a model node:       num = v:/\d+/ ;   num::Num = /\d+/ ;
    chain     1..3 rules that return the node of the next rule (or of the leaf) as their own value:
              e = t ;   e = sum | t ;   e = @:t ;   e = ['-'] @:t ;   e = (t) ;   e = t | word ;   e = '(' @:e0 ')' | t ;
    stmt      2..4 alternatives at one position that ask for rules of the chain (usually outermost first), each followed
              by its own terminator, also behind &lookahead, !lookahead, an optional or a closure over an outer rule:
              stmt = e ';' | t '.' | num '!' ;   stmt = &e t '.' | ... ;   stmt = [e ';'] t '.' ;   stmt = {e ','} t '.' ;
              stmt = e ';' | '-' t '.' ;  (e = ['-'] @:t : the node of t comes back with the span of e, sign included)
    start     {stmt}+ $  (plain, named list, or a single statement)"""
    N, C, T, P, Sq, Ch = L.Named, L.Call, L.Tok, L.Pat, L.Seq, L.Choice
    mode = ('ast', 'asmodel', 'builder', 'ast', 'builder')[i % 5]
    route = 'generated' if i % 4 == 2 else 'text' if i % 9 == 0 else 'object'
    if route == 'generated' and mode == 'asmodel':
        mode = 'builder'
    typed = mode != 'ast'
    rules = []
    # leaves
    if typed and rng.random() < 0.3:
        leaf = L.Rule('num', P(r'\d+'), params=('Num',))                 # a model node over a plain value
    else:
        leaf = L.Rule('num', N('v', P(r'\d+')), params=('Num',) if typed and rng.random() < 0.75 else ())
    word = L.Rule('word', N('n', P(r'[a-z]+')), params=('Word',) if typed and rng.random() < 0.5 else ())
    k = rng.choice([1, 1, 2, 2, 3])
    chain = ['expr', 'term', 'atom'][:k]
    ops = ['+', '*', '^']
    need_word = False
    longs = []
    for j, name in enumerate(chain):
        inner = chain[j + 1] if j + 1 < k else 'num'
        form = rng.choice(RETRY_FORMS)
        if form == 'call':
            body = C(inner)
        elif form == 'choice-long':
            ln = ('sum', 'prod', 'power')[j]
            longs.append(L.Rule(ln, Sq((N('l', C(inner)), T(ops[j]), N('r', C(name)))),
                                params=(ln.capitalize(),) if typed and rng.random() < 0.6 else ()))
            body = Ch((C(ln), C(inner)))
        elif form == 'over':
            body = L.Over(C(inner))
        elif form == 'sign-over':
            body = Sq((L.Opt(T('-')), L.Over(C(inner))))
        elif form == 'group':
            body = L.Group(C(inner))
        elif form == 'choice-leaf':
            need_word = True
            body = Ch((C(inner), C('word')))
        else:
            body = Ch((Sq((T('('), L.Over(C(chain[0])), T(')'))), C(inner)))
        # a typed chain rule wraps the node in a node of its own (no pass-through there): rare, as a control
        rules.append(L.Rule(name, body, params=(name.capitalize(),) if typed and rng.random() < 0.06 else ()))
    signed = [name for name, r in zip(chain, rules) if isinstance(r.body, L.Seq) and isinstance(r.body.items[0], L.Opt)]
    askable = chain + ['num']
    nalt = rng.choice([2, 2, 3, 3, 4])
    if rng.random() < 0.7:
        # outermost first: the earlier alternatives complete the pass-through rules and fail on the terminator
        idx = sorted(rng.choice(range(len(askable))) for _ in range(nalt))
        if idx[0] == idx[-1] and len(askable) > 1:
            idx[0], idx[-1] = 0, len(askable) - 1
        asked = [askable[x] for x in idx]
    else:
        asked = [rng.choice(askable) for _ in range(nalt)]
    terms = rng.sample(RETRY_TERMS, nalt)
    named_stmt = rng.random() < 0.4
    alts = []
    for a, (r, t) in enumerate(zip(asked, terms)):
        ask = rng.choice(RETRY_ASKS)
        if a and signed and r not in signed[:1] and rng.random() < 0.5:
            ask = 'sign'      # the sign taken here, then a rule further in: asked at the offset after the sign
        outer = rng.choice(askable[:askable.index(r) + 1])     # r itself or a rule further out
        other = rng.choice([x for x in RETRY_TERMS if x != t])
        core = N('x', C(r)) if named_stmt else C(r)
        if ask == 'plain':
            items = (core, T(t))
        elif ask == 'sign':
            items = (T('-'), core, T(t))
        elif ask == 'la':
            items = (L.LA(C(outer)), core, T(t))
        elif ask == 'la-seq':
            items = (L.LA(Sq((C(outer), T(t)))), core, T(t))
        elif ask == 'nla':
            items = (L.NLA(Sq((C(outer), T(other)))), core, T(t))
        elif ask == 'opt':
            items = (L.Opt(Sq((C(outer), T(other)))), core, T(t))
        else:
            items = (L.Clo(Sq((C(outer), T(',')))), core, T(t))
        alts.append(Sq(items))
    stmt = L.Rule('stmt', Ch(tuple(alts)), params=('Stmt',) if typed and named_stmt and rng.random() < 0.5 else ())
    sk = rng.random()
    if sk < 0.45:
        sbody = Sq((L.PClo(C('stmt')), L.EOF()))
    elif sk < 0.85:
        sbody = Sq((N('ss', L.PClo(C('stmt'))), L.EOF()))
    else:
        sbody = Sq((C('stmt'), L.EOF()))
    start = L.Rule('start', sbody, params=('Prog',) if typed and 0.45 <= sk < 0.85 and rng.random() < 0.4 else ())
    rules = [start, stmt] + rules + longs + [leaf] + ([word] if need_word else [])
    if rng.random() < 0.12:
        # @nomemo on some rules (those are never answered from the memo), @nostak changes nothing here
        rules = [L.Rule(r.name, r.body, rng.choice([('nomemo',), ('nostak',)]), r.params) if rng.random() < 0.35 else r
                 for r in rules]
    directives = {}
    if rng.random() < 0.15:
        directives['eol_comments'] = '#[^\\n\\r]*'
    g = L.Grammar(rules, directives)
    variant = Variant(enable=('directive', 'setting')[(i // 2) % 2], route=route,
                      impl=('str', 'Buffer', 'TextLines')[i % 3], mode=mode)
    return g, variant, {'chain': chain, 'depth': k}


def retry_tokens(rng, g, e, depth=0, late=True):
    """token list of a text the expression probably accepts; `late`: in a choice of statement alternatives prefer
    the later ones, so that the earlier ones complete their rule and fail on the terminator"""
    d = depth + 1
    if isinstance(e, L.Tok):
        return [e.s]
    if isinstance(e, L.Pat):
        return [rng.choice(RETRY_PATS[e.rx])]
    if isinstance(e, L.Call):
        r = g.rule(e.name)
        return retry_tokens(rng, g, r.body, d, late=(e.name == 'stmt'))
    if isinstance(e, L.Seq):
        return [t for x in e.items for t in retry_tokens(rng, g, x, d, False)]
    if isinstance(e, L.Choice):
        n = len(e.opts)
        if depth > 7:
            o = e.opts[-1]
        elif late:
            o = rng.choices(e.opts, weights=[1 + 2 * j for j in range(n)])[0]
        else:
            o = e.opts[-1] if rng.random() < 0.6 else rng.choice(e.opts)
        return retry_tokens(rng, g, o, d, False)
    if isinstance(e, (L.Group, L.Named, L.NamedList, L.Over)):
        return retry_tokens(rng, g, e.e, d, False)
    if isinstance(e, L.Opt):
        return retry_tokens(rng, g, e.e, d, False) if depth < 7 and rng.random() < 0.4 else []
    if isinstance(e, (L.Clo, L.PClo)):
        n = rng.choice([0, 0, 1, 2]) if isinstance(e, L.Clo) else rng.choice([1, 1, 2, 3, 4])
        if depth > 7:
            n = min(n, 1)
        return [t for _ in range(n) for t in retry_tokens(rng, g, e.e, d, False)]
    return []        # lookaheads, $ : no text of their own


def retry_text(rng, g, start):
    toks = retry_tokens(rng, g, L.Call(start))
    comments = 'eol_comments' in g.directives
    seps = RETRY_SEPS + ([' # c\n', '#x\r\n'] if comments else [])
    style = rng.random()
    out = [rng.choice(seps)] if rng.random() < 0.35 else []
    for a, t in enumerate(toks):
        out.append(t)
        nxt = toks[a + 1] if a + 1 < len(toks) else ''
        if style < 0.15:
            sep = ''
        elif style < 0.3:
            sep = ' '
        else:
            sep = rng.choice(seps)
        if not sep and t[-1:].isalnum() and nxt[:1].isalnum():
            sep = ' '
        out.append(sep)
    text = ''.join(out)
    if rng.random() < 0.4:
        text = text.rstrip()
    if rng.random() < 0.12:
        text = G.mutate(rng, text, '12a;.!?:+-( \n')
    return text


def retry_evidence(acc, pc, start, text, info, out):
    """evidence only (never a violation): how often the memo answered, for which nodes, and whether the action events
    seen at the boundary agree with the packrat prediction over REF's call tree (vt/monitors/c12_memo.py)"""
    v = pc.v
    memo_on = EXTRAS[v.extra].get('memoization', True)
    action = ref_action if v.mode != 'ast' else None
    tr = M.tree_run(pc.g, text, start, action=action)
    if tr is None:
        acc.count('b_retry_memo_unpredicted')
        return
    names = [r.name for r in pc.g.rules]
    memoizable = {r.name for r in pc.g.rules if 'nomemo' not in r.decorators}
    pred = M.predict(tr.tree, memoizable, memo_on=memo_on)

    def observed(memoization):
        inner = None
        if v.mode != 'ast':
            from tatsu.objectmodel import ModelBuilderSemantics
            inner = ModelBuilderSemantics()
        rec = M.Recorder(names, inner)
        ov = {'semantics': rec}
        if not memoization:
            ov['memoization'] = False
        tag, _res = pc.parse(text, start, override=ov)
        c = rec.counts() if tag == 'ok' else None
        rec.events = []
        return c

    on = observed(memo_on)
    off = observed(False)
    if on is None or off is None:
        acc.count('b_retry_memo_unobserved')
        return
    acc.count('b_retry_memo_observed_executions')
    saved = sum((off - on).values())
    acc.count('b_retry_action_events_with_memo', sum(on.values()))
    acc.count('b_retry_action_events_without_memo', sum(off.values()))
    acc.count('b_retry_action_events_saved_by_memo', saved)
    if saved:
        acc.count('b_retry_executions_with_memo_answers_observed')
    if off != pred['all']:
        acc.count('b_retry_action_events_without_memo_differ_from_ref')
        return
    if on != pred['computed']:
        acc.count('b_retry_memo_prediction_not_confirmed')
        acc.count('b_retry_memo_prediction_not_confirmed:' + v.extra)
        return
    acc.count('b_retry_memo_prediction_confirmed')
    ans = [a for a in pred['answers'] if a['node']]
    rel = [a for a in ans if a['relabelled']]
    acc.count('b_retry_memo_answers', len(pred['answers']))
    acc.count('b_retry_memo_answers_failed', pred['failed_answers'])
    acc.count('b_retry_memo_answers_of_nodes', len(ans))
    acc.count('b_retry_memo_answers_of_relabelled_nodes', len(rel))
    acc.count('b_retry_memo_answers_of_relabelled_nodes_with_another_span', sum(a['span_differs'] for a in rel))
    for a in rel:
        acc.count(f'b_retry_memo_answers_of_relabelled_nodes:depth{min(a["depth"], 3)}')
    n = pred['result_nodes_last_answered_relabelled']
    acc.count('b_retry_result_nodes_passed_through', pred['result_nodes_passed_through'])
    acc.count('b_retry_result_nodes_last_answered_from_memo_after_relabel', n)
    if n:
        acc.count('b_retry_executions_with_result_node_answered_after_relabel')
        for key in ('enable:' + v.enable, 'impl:' + v.impl, 'route:' + v.route, 'mode:' + v.mode, 'cfg:' + v.extra):
            acc.count('b_retry_answered_after_relabel_' + key)
        if any(ch in text for ch in '\n\r'):
            acc.count('b_retry_answered_after_relabel_multiline')
    # observed on the judged result itself: nodes that carry the name of a pass-through rule
    nodes = []
    walk_real(out['result'], nodes)
    chain = set(info['chain'])
    lab = 0
    for _kind, x in nodes:
        try:
            if x.parseinfo is not None and x.parseinfo.rule in chain:
                lab += 1
        except Exception:  # noqa: BLE001
            pass
    acc.count('b_retry_result_nodes_labelled_by_a_chain_rule', lab)


def run_retry(desc, acc):
    for i in range(desc['n']):
        rng = random.Random(h64('C12', 'retry', desc['seed'], desc['shard'], i))
        g, variant, info = retry_case(rng, i)
        variant.extra = rng.choice(RETRY_EXTRA_DRAW)
        pc = PCase(g, variant, text_syntax_alt=bool(i % 2))
        if pc.model is None:
            acc.count('b_build_failed')
            acc.note(f'b-retry: model build failed ({variant.route}): {pc.build_error[0]}')
            continue
        acc.count('b_retry_grammars')
        acc.count(f'b_retry_chain_depth:{info["depth"]}')
        texts = []
        for _ in range(desc['inputs']):
            start = 'start' if rng.random() < 0.85 else 'stmt'
            text = retry_text(rng, g, start)
            texts.append(text)
            out = {}
            acc.count('b_retry_cases')
            check_pcase(acc, pc, start, text, {'mode': 'retry', 'shard': desc['shard'], 'i': i}, out=out)
            if out.get('accepted') and out['nodes']:
                acc.count('b_retry_accepted')
                acc.count('b_retry_accepted_cfg:' + variant.extra)
                retry_evidence(acc, pc, start, text, info, out)
        if i == 0 and desc['shard'] == 0:
            acc.sample({'part': 'b-retry', 'grammar': pc.src, 'variant': variant.json(), 'inputs': texts})


# =============================================================================== replay
def replay(w, acc):
    part = w.get('part')
    if part == 'a':
        impls = _impls()
        check_text(acc, w['text'], w['impl'], impls[w['impl']], 'replay')
    elif part == 'fail':
        import tatsu
        check_failinfo(acc, tatsu.compile(FAIL_GRAMMAR), w['text'], w['impl'], 'a')
    elif part == 'b':
        g = L.from_json(w['grammar'])
        pc = PCase(g, Variant.of(w['variant']))
        if pc.model is None:
            acc.note(f'replay: model build failed {pc.build_error}')
            return
        check_pcase(acc, pc, w['start'], w['text'], {'mode': 'replay'}, shrink=False)
    else:
        acc.note(f'replay: unknown witness kind {part!r}')


MANIFEST = {
    'technique': 'runtime monitoring: independent line-splitter oracle over every offset of exhaustively enumerated and random '
                 'texts through both input implementations; REF rule-evaluation table as oracle for parseinfo on the results of '
                 'real parses',
    'level_text': '(a) the space {a,space,LF,CR}^<=N x {TextLines,Buffer} x offsets 0..len is enumerated completely (N=7 quick, 9 '
                  'thorough) and every position accessor of the real cursors is compared with an independent splitter; random texts '
                  'up to 2000 chars mix the three conventions; FailedParse.info is compared with the splitter at FailedParse.pos. '
                  '(b) random and hand-written grammars are parsed by the real engine with parseinfo on (directive and setting, '
                  'text, object and generated-parser route, @nomemo/@nostak rules, str/TextLines/Buffer input, plain ASTs and model nodes, '
                  'alone or together with trace / colorize / trace_filename / memoization off / perlinememos / prune_memos_on_cut; incl. a family of '
                  'pass-through rule chains whose nodes are asked for again from the memo after a failed alternative or a lookahead) and every AST/Node found in the '
                  'result must carry a parseinfo that names a successful REF evaluation (rule, start after leading whitespace, end, '
                  'equal value) and the splitter\'s line of its start. exploration is the right level: the grammar x input space '
                  'is unbounded; the finite slice of (a) is exhaustive',
    'level_note': 'trusted: vt/monitors/c12_lines.py (the splitter), vt/ref.py, python re. For the cursor accessors offset == len accepts both readings; parseinfo.line at pos == len must be the one-past line; '
                  'line text may or may not carry its break. Value comparison is skipped for executions through documented-open '
                  'corners. endline, Node.text and the parseinfo handed to semantic actions are outside the statement (counted). '
                  'held = no disagreement on the executions listed in the evidence, not a proof',
}
