"""C20 — styling text never alters the text itself.

Oracle: Python's own `format(text, spec)` is the text every styled output must reduce to, both
through the library's `descape` and through an independent SGR stripper; with colour disabled the
output must be exactly that text.  `len(style)`/`visual_len` must be its length.  The repr round
trip (`Style.from_raw(repr(s))`) is compared attribute by attribute with the attributes the case
asked for.  Users: `FailedParse.render(color)`/`str(FailedParse)`/`str(ParseError)` must de-escape
to their `Color.never()` / NO_COLOR rendering.  DESIGN.md section 3/C20.
"""
from __future__ import annotations

import json
import os
import random
import subprocess
import sys

from ..common import h64
from ..monitors import c20_style as M

ID = 'C20'
LEVEL = 'exploration'
RULE = ('style cases = (unicode text without ESC drawn from ascii/brace/quote/latin/combining/CJK/fullwidth/emoji/'
        'ZWJ/RTL/bidi/space/control/format-like/escape-notation pools, fg and bg in {none,0-15,16-255,RGB}, a subset of '
        'the 8 modifiers, a format spec [fill][align][0][width][.precision][s] or none, colour policy in '
        '{always, never, enable(True/False), environment (NO_COLOR x FORCE_COLOR x tty)}, construction route in '
        '{kwargs, chained methods, Color.style, named methods}); every case is executed through str, apply, call, %s, '
        "f-string, str.format, apply(fmt=), call(fmt=), format(), f'{s:{spec}}', '{:{}}'.format, len, repr/from_raw. "
        'error cases = real parse failures of two compiled grammars on multi-line unicode sources (and ParseError '
        'family messages), rendered under every colour policy; markup cases = tag/text sequences. environment cases '
        'are repeated in child processes with real env vars and a real pty. non-trivial = an output that actually '
        'carried escape sequences (or a round trip of a style that has attributes) and was compared with the oracle; '
        'distinct by (text, attributes, spec, policy, route) resp. (grammar, source, policy)')
ASSUMPTIONS = [
    "python's format(text, spec) is 'the text formatted by that specification'; specs it rejects are not cases",
    'a style carrying its own fmt AND given a second spec (format(s.fmt(a), b)) is not an execution the statement '
    'describes; each case carries exactly one spec',
    'the independent stripper removes exactly ESC [ (digit|;)* m; any other ESC in an output is reported as a '
    'malformed escape (texts and specs never contain ESC)',
    'repr round trip: text equality is required for texts without {}:\\\'" and without Cc characters; texts with '
    'Cf/Zl/Zp (format/separator "controls") are counted as an open reading and compared on attributes only; '
    'the fmt attribute is compared only when text and spec are both free of the excluded characters',
    'expected colour state for the environment policy is the documented priority: explicit > NO_COLOR > FORCE_COLOR '
    '> isatty (env values used: unset or "1")',
    'in-process environment emulation replaces os.environ entries and wraps sys.stdout/sys.stderr with an object '
    'whose isatty() is fixed; child processes use real env vars, pipes and a pty',
]
FLOORS = {
    'quick': {'outputs_checked': 180000, 'outputs_with_escapes': 90000, 'outputs_colour_off': 80000,
              'spec_outputs_with_escapes': 75000, 'len_checked': 30000, 'repr_attrs_compared': 30000,
              'repr_text_compared': 22000, 'repr_fmt_compared': 18000, 'render_outputs_with_escapes': 7000,
              'failures_rendered': 1800, 'failures_past_line_9': 550, 'parse_error_strs': 1500,
              'perr_outputs_with_escapes': 3500, 'markup_outputs_with_escapes': 2700,
              'child_processes': 40, 'child_outputs_checked': 18000, 'env_outputs': 50000,
              'distinct_nontrivial': 27000},
    'thorough': {'outputs_checked': 6000000, 'outputs_with_escapes': 3000000, 'outputs_colour_off': 2800000,
                 'spec_outputs_with_escapes': 2700000, 'len_checked': 1100000, 'repr_attrs_compared': 1100000,
                 'repr_text_compared': 750000, 'repr_fmt_compared': 600000, 'render_outputs_with_escapes': 200000,
                 'failures_rendered': 50000, 'failures_past_line_9': 17000, 'parse_error_strs': 30000,
                 'perr_outputs_with_escapes': 85000, 'markup_outputs_with_escapes': 65000,
                 'child_processes': 450, 'child_outputs_checked': 550000, 'env_outputs': 1700000,
                 'distinct_nontrivial': 850000},
}
SHARD_TIMEOUT = {'quick': 600, 'thorough': 3000}
PEAK_COUNTERS = ('max_sgr_sequences',)

N_STYLE = {'quick': 30000, 'thorough': 1000000}
N_FAIL = {'quick': 3200, 'thorough': 100000}
N_PERR = {'quick': 2400, 'thorough': 60000}
N_MARKUP = {'quick': 2400, 'thorough': 60000}
N_CHILD = {'quick': 3, 'thorough': 8}          # child processes per shard
CHILD_STYLES = {'quick': 60, 'thorough': 200}
SHARDS = {'quick': 16, 'thorough': 64}

FORMAT_ENTRIES = ('fstring', 'strformat', 'format', 'fstring-spec', 'format-method')


def plan(tier, seed):
    k = SHARDS[tier]
    return [{'seed': seed, 'shard': i, 'of': k, 'tier': tier,
             'n_style': N_STYLE[tier] // k, 'n_fail': N_FAIL[tier] // k, 'n_perr': N_PERR[tier] // k,
             'n_markup': N_MARKUP[tier] // k, 'n_child': N_CHILD[tier], 'child_styles': CHILD_STYLES[tier]}
            for i in range(k)]


# ------------------------------------------------------------------------------- oracle: styles

def expected_text(case):
    spec = case['spec']
    return format(case['text'], spec if spec is not None else '')


def diagnose_format(case, entry, out, obs):
    """name the mechanism when the output is exactly 'the wrapper applied to format(<already rendered string>)'"""
    wrap = obs.get('wrap')
    if entry not in FORMAT_ENTRIES or not wrap:
        return None
    p, r = wrap
    spec = case['spec'] if case['spec'] is not None else ''
    if entry in ('fstring', 'strformat'):
        body = format(case['text'], spec)              # what str(s) is (s carries the spec)
        inner = p + body + r if body else ''
    else:
        inner = p + case['text'] + r
    try:
        model = format(inner, spec)
    except ValueError:
        return None
    if model and (p or r):
        model = p + model + r
    if out != model:
        return None
    return 'formats-escaped-string' if (p or r) else 'fmt-applied-twice'


def check_output(acc, case, entry, out, err, want, enabled, obs, origin):
    """one observed output against the oracle"""
    from tatsu.util.tty import descape, visual_len
    acc.evaluations += 1
    acc.count('outputs_checked')
    acc.count('entry:' + entry)
    onoff = 'on' if enabled else 'off'
    wit = {'kind': 'style', 'case': case, 'entry': entry, 'origin': origin}

    def bad(kind, detail):
        d = diagnose_format(case, entry, out, obs) if out is not None else None
        group = 'format' if entry in FORMAT_ENTRIES else entry
        sig = f'format:{d}' if d else f'{group}/{onoff}/{kind}'
        acc.violation(sig, f'{entry} of text {case["text"]!r} spec {case["spec"]!r} (colour {onoff}, {case["mode"]}): '
                           f'{detail}; output {out!r}, oracle text {want!r}', wit)

    if err is not None:
        bad('exception:' + err.split(':')[0].split(' ')[0], f'raised/returned {err}')
        return
    has_esc = M.ESC in out
    if has_esc:
        acc.count('outputs_with_escapes')
        if case['spec']:
            acc.count('spec_outputs_with_escapes')
    if not enabled:
        acc.count('outputs_colour_off')
        if has_esc:
            bad('leak', 'escape sequence although colour is disabled')
            return
        if out != want:
            bad('text', 'colour disabled but output is not the formatted text')
            return
    if case['mode'] == 'env':
        acc.count('env_outputs')
    try:
        got = descape(out)
    except Exception as e:  # noqa: BLE001
        bad('exception:descape', f'descape raised {type(e).__name__}: {e}')
        return
    mine, nseq = M.strip_sgr(out)
    if got != want:
        bad('text', f'descape(output) = {got!r}')
        return
    if mine is None:
        bad('malformed', 'an ESC in the output does not start an SGR sequence')
        return
    if mine != want:
        bad('text', f'independent strip gives {mine!r}')
        return
    try:
        vl = visual_len(out)
    except Exception as e:  # noqa: BLE001
        bad('exception:visual_len', f'visual_len raised {type(e).__name__}: {e}')
        return
    if vl != len(want):
        bad('len', f'visual_len(output) = {vl}, len(text) = {len(want)}')
        return
    if has_esc:
        obs['_escaped_ok'] = obs.get('_escaped_ok', 0) + 1
        acc.peak('max_sgr_sequences', nseq)


def norm_colour(v):
    return -1 if v is None or v == -1 else v


def check_roundtrip(acc, case, obs, origin):
    tcls = M.text_class(case['text'])
    spec = case['spec']
    spec_clean = spec is None or M.text_class(spec) == 'clean' or spec == ''
    want = {'fg': norm_colour(case['fg']), 'bg': norm_colour(case['bg']), 'mods': list(case['mods'])}
    for name, rt in obs['repr'].items():
        wit = {'kind': 'style', 'case': case, 'entry': 'repr:' + name, 'origin': origin}
        acc.evaluations += 1
        if rt['err'] is not None:
            acc.violation('repr/exception:' + rt['err'].split(':')[0],
                          f'repr/from_raw of text {case["text"]!r} raised {rt["err"]}', wit)
            continue
        back = rt['back']
        acc.count('repr_attrs_compared')
        acc.count('repr_textclass:' + tcls)
        if 'probe' in back or 'probe' in rt['orig']:
            # private slots not observable: attributes (and fmt) compared through repr of a probe text
            acc.count('repr_attrs_via_public_probe')
            acc.note('Style private slots unobserved: repr round trip compared through the public probe repr(s("P"))')
            if not (tcls == 'clean' and spec_clean):
                acc.count('repr_attrs_unobserved')      # the probe folds fmt in, which is not promised here
            elif back.get('probe') != rt['orig'].get('probe'):
                acc.violation('repr/attrs',
                              f'from_raw(repr(s)) writes {back.get("probe")!r} around a probe text, the style '
                              f'{rt["orig"].get("probe")!r}; text {case["text"]!r} repr {rt["repr"]!r}', wit)
            elif tcls == 'clean' and back['value'] != case['text']:
                acc.violation('repr/text', f'from_raw(repr(s)).value = {back["value"]!r}, text {case["text"]!r}', wit)
            continue
        got = {k: back[k] for k in ('fg', 'bg', 'mods')}
        if got != want:
            sig = 'repr/attrs'
            if '\\e' in case['text'] or '\\x1b' in case['text']:
                sig = 'repr/attrs:text-contains-escape-notation'
            acc.violation(sig, f'from_raw(repr(s)) has attributes {got}, the style was built with {want}; '
                               f'text {case["text"]!r} repr {rt["repr"]!r}', wit)
            continue
        if M.has_codes(case):
            obs['_escaped_ok'] = obs.get('_escaped_ok', 0) + 1
        if tcls in ('clean', 'nonprintable'):
            acc.count('repr_text_compared')
            if back['value'] != case['text']:
                sig = 'repr/text' if tcls == 'clean' else 'repr/text:nonprintable-escaped'
                acc.violation(sig, f'from_raw(repr(s)).value = {back["value"]!r}, text {case["text"]!r} '
                                   f'(repr {rt["repr"]!r})', wit)
                continue
            if tcls == 'clean' and spec_clean:
                acc.count('repr_fmt_compared')
                if back['fmt'] != spec:
                    acc.violation('repr/fmt', f'from_raw(repr(s))._fmt = {back["fmt"]!r}, style had {spec!r}; '
                                              f'text {case["text"]!r} repr {rt["repr"]!r}', wit)
        elif tcls == 'open':
            acc.count('repr_text_open_format_chars')
        else:
            acc.count('repr_text_excluded_by_statement')


def check_style(acc, case, obs, origin, enabled=None):
    try:
        want = expected_text(case)
    except ValueError:
        acc.count('invalid_spec_skipped')
        return
    if enabled is None:
        enabled = M.expected_enabled(case)
    acc.count('cases_style')
    acc.count('mode:' + case['mode'])
    acc.count('route:' + case['route'])
    if case['spec']:
        acc.count('cases_with_spec')
    if not M.has_codes(case):
        acc.count('cases_without_attributes')
    for entry, out, err in obs['outs']:
        check_output(acc, case, entry, out, err, want, enabled, obs, origin)
    for name, n, err in obs['lens']:
        acc.evaluations += 1
        acc.count('len_checked')
        wit = {'kind': 'style', 'case': case, 'entry': 'len:' + name, 'origin': origin}
        if err is not None:
            acc.violation('len/exception:' + err.split(':')[0], f'len(style) raised {err}; text {case["text"]!r}', wit)
        elif n != len(want):
            acc.violation('len/value', f'len(style) = {n} but the formatted text {want!r} has length {len(want)} '
                                       f'(text {case["text"]!r} spec {case["spec"]!r}, colour {case["mode"]})', wit)
    for name, value, raw in obs['values']:
        acc.evaluations += 1
        if value != case['text'] or raw != case['text']:
            acc.violation('value/altered', f'style.value = {value!r} / str value {raw!r} for text {case["text"]!r}',
                          {'kind': 'style', 'case': case, 'entry': 'value:' + name, 'origin': origin})
    check_roundtrip(acc, case, obs, origin)
    if obs.get('_escaped_ok'):
        acc.count('cases_nontrivial')
        acc.nontriv('style', case['text'], case['fg'], case['bg'], case['mods'], case['spec'], case['mode'],
                    case.get('env'), case['route'])


# ------------------------------------------------------------------------------- oracle: renderings

def check_render(acc, what, ref, name, out, err, enabled, wit, group):
    """`out` must de-escape to `ref` (the Color.never()/NO_COLOR rendering)"""
    from tatsu.util.tty import descape
    acc.evaluations += 1
    acc.count(group + '_outputs_checked')
    onoff = {True: 'on', False: 'off', None: 'any'}[enabled]
    if err is not None:
        acc.violation(f'{group}/exception:' + err.split(':')[0].split(' ')[0], f'{what}: {name} raised {err}', wit)
        return
    has_esc = M.ESC in out
    if enabled is False:
        if has_esc:
            acc.violation(f'{group}/off/leak', f'{what}: {name} has escape sequences although colour is disabled: '
                                               f'{out!r}', wit)
            return
        if out != ref:
            acc.violation(f'{group}/off/text', f'{what}: {name} = {out!r} differs from the colourless rendering '
                                               f'{ref!r}', wit)
            return
    got = descape(out)
    mine, _ = M.strip_sgr(out)
    if got != ref or mine != ref:
        kind = 'malformed' if mine is None and got == ref else 'text'
        acc.violation(f'{group}/{onoff}/{kind}', f'{what}: {name} de-escapes to {got!r} (independent: {mine!r}), '
                                                 f'colourless rendering is {ref!r}', wit)
        return
    if has_esc:
        acc.count(group + '_outputs_with_escapes')
        acc.nontriv(group, what, name)


def env_enabled(env):
    if env.get('NO_COLOR') is not None:
        return False
    if env.get('FORCE_COLOR') is not None:
        return True
    return bool(env.get('tty'))


def check_failure(acc, f, res, envs, origin, child_enabled=None):
    wit = {'kind': 'failure', 'f': f, 'envs': envs, 'origin': origin}
    if res is None:
        acc.count('sources_that_parsed')
        return
    if 'other' in res:
        acc.count('sources_other_exception')
        acc.note('non-FailedParse exception from a generated source: ' + res['other'][:120])
        return
    acc.count('failures_rendered')
    acc.count('failure:' + res['cls'])
    if res['line'] >= 9:
        acc.count('failures_past_line_9')
    ref, err = res['renders']['never']
    what = f'{res["cls"]} of grammar #{f["gi"]} on {f["src"]!r}'
    if err is not None or ref is None:
        acc.violation('render/exception:' + str(err).split(':')[0], f'{what}: render(Color.never()) raised {err}', wit)
        return
    if M.ESC in ref:
        acc.violation('render/off/leak', f'{what}: render(Color.never()) contains escapes: {ref!r}', wit)
        return
    if f['src'].strip() and not any(ln.strip() and ln.expandtabs() in ref for ln in f['src'].splitlines()):
        acc.count('render_without_source_line')
    for name, (out, err) in res['renders'].items():
        if name == 'never':
            continue
        if name in ('always', 'stderr-enabled'):
            enabled = True
        elif name.startswith('env'):
            env = envs[int(name[3:name.index(':')])]
            enabled = env_enabled(env)
        elif child_enabled is not None:
            enabled = child_enabled
        else:
            enabled = None          # the shard's own stderr/env: transparency only
        check_render(acc, what, ref, name, out, err, enabled, wit, 'render')


def check_parse_error(acc, kind, msg, res, envs, origin):
    wit = {'kind': 'perr', 'cls': kind, 'msg': msg, 'envs': envs, 'origin': origin}
    offs = [i for i, e in enumerate(envs) if not env_enabled(e)]
    ref = None
    for i in offs:
        out, err = res[f'env{i}']
        if err is None and out is not None and M.ESC not in out:
            ref = out
            break
    acc.count('parse_error_strs')
    what = f'str({kind}({msg!r}))'
    if ref is None:
        acc.evaluations += 1
        acc.violation('perr/off/leak', f'{what}: no colourless rendering without escapes: {res}', wit)
        return
    # the colourless rendering must carry the message verbatim (ParseError prefixes the first line)
    first, _, rest = msg.partition('\n')
    if msg and not (first in ref and ref.endswith(rest)):
        acc.violation('perr/off/text', f'{what}: colourless rendering {ref!r} does not carry the message', wit)
    for i, env in enumerate(envs):
        out, err = res[f'env{i}']
        check_render(acc, what, ref, f'env{i}', out, err, env_enabled(env), wit, 'perr')


def check_markup(acc, src, plain, res, env, origin):
    wit = {'kind': 'markup', 'src': src, 'plain': plain, 'env': env, 'origin': origin}
    acc.count('markup_cases')
    what = f'markup({src!r})'
    for name, (out, value, err) in res.items():
        if name.startswith('env'):
            enabled = env_enabled(env)
        else:
            enabled = name.startswith('always')
        if err is None and value != plain:
            acc.evaluations += 1
            acc.violation('markup/value', f'{what}: {name} value {value!r}, segments give {plain!r}', wit)
            continue
        check_render(acc, what, plain, name, out, err, enabled, wit, 'markup')


# ------------------------------------------------------------------------------- workload

def gen_filename(rng):
    return rng.choice([None, None, 'input.txt', 'ünï/日本.txt', 'a b/c:d.src', '[bold]x[/]'])


def gen_msg(rng):
    t = M.gen_text(rng)
    if rng.random() < 0.4:
        t = t + ' ' + M.gen_text(rng) + ' — ' + M.gen_text(rng)
    return t


def gen_perr_msg(rng):
    first = M.gen_text(rng).replace('\n', ' ')
    r = rng.random()
    if r < 0.5:
        return first
    return first + '\n' + '\n'.join(M.gen_text(rng) for _ in range(rng.randint(1, 3)))


def pick_envs(rng, k=3):
    return [dict(e) for e in rng.sample(M.ENVS, k)]


def run_style_case(acc, case, origin):
    obs = M.observe(case)
    check_style(acc, case, obs, origin)
    return obs


def side_notes(acc):
    """outside the statement, recorded only"""
    from tatsu.ztyle import Style
    s = Style('x', bold=True)
    try:
        hash(s)
    except Exception as e:  # noqa: BLE001
        acc.note(f'hash(Style) raises {type(e).__name__} (outside the statement, noted only)')
    try:
        if not (s == s):
            acc.note('Style.__eq__: a Style does not compare equal to itself (outside the statement, noted only)')
    except Exception as e:  # noqa: BLE001
        acc.note(f'Style == Style raises {type(e).__name__} (outside the statement, noted only)')


def run_shard(desc, acc):
    seed, shard = desc['seed'], desc['shard']
    if shard == 0:
        side_notes(acc)
    for i in range(desc['n_style']):
        rng = random.Random(h64(ID, seed, shard, 'style', i))
        case = M.gen_case(rng)
        obs = run_style_case(acc, case, {'shard': shard, 'i': i})
        if i == 0:
            acc.sample({'case': case, 'outputs': obs['outs'][:4], 'repr': obs['repr'].get('ctor', {}).get('repr')})
    for i in range(desc['n_fail']):
        rng = random.Random(h64(ID, seed, shard, 'fail', i))
        gi = rng.randrange(len(M.GRAMMARS))
        f = {'gi': gi, 'src': M.gen_source(rng, gi), 'filename': gen_filename(rng), 'semmsg': gen_msg(rng)}
        envs = pick_envs(rng, 2)
        res = M.observe_failure(f['gi'], f['src'], f['filename'], f['semmsg'], envs)
        check_failure(acc, f, res, envs, {'shard': shard, 'i': i})
        if i == 0 and res and 'renders' in res:
            acc.sample({'failure': f, 'never': res['renders']['never'][0], 'always': res['renders']['always'][0]})
    for i in range(desc['n_perr']):
        rng = random.Random(h64(ID, seed, shard, 'perr', i))
        kind = rng.choice(['ParseError', 'GrammarError', 'CodegenError', 'HeartDied'])
        msg = gen_perr_msg(rng)
        envs = [dict(e) for e in M.ENVS]
        res = M.observe_parse_error(kind, msg, envs)
        check_parse_error(acc, kind, msg, res, envs, {'shard': shard, 'i': i})
    for i in range(desc['n_markup']):
        rng = random.Random(h64(ID, seed, shard, 'markup', i))
        src, plain = M.gen_markup(rng)
        env = dict(rng.choice(M.ENVS))
        res = M.observe_markup(src, env)
        check_markup(acc, src, plain, res, env, {'shard': shard, 'i': i})
        if i == 0:
            acc.sample({'markup': src, 'plain': plain, 'always': res['always'][0]})
    for k in range(desc['n_child']):
        run_child(acc, desc, k)


# ------------------------------------------------------------------------------- child processes

def run_child(acc, desc, k):
    seed, shard = desc['seed'], desc['shard']
    env_cfg = dict(M.ENVS[(shard * desc['n_child'] + k + seed) % len(M.ENVS)])
    rng = random.Random(h64(ID, seed, shard, 'child', k))
    job = {'styles': [M.gen_case(rng, mode=rng.choice(['env', 'env', 'env', 'always', 'never']))
                      for _ in range(desc['child_styles'])],
           'failures': [], 'perrs': [], 'markup': []}
    for c in job['styles']:
        if c['mode'] == 'env':
            c['env'] = env_cfg
    for _ in range(12):
        gi = rng.randrange(len(M.GRAMMARS))
        job['failures'].append({'gi': gi, 'src': M.gen_source(rng, gi), 'filename': gen_filename(rng),
                                'semmsg': gen_msg(rng)})
    for _ in range(12):
        job['perrs'].append({'kind': rng.choice(['ParseError', 'GrammarError']), 'msg': gen_perr_msg(rng)})
    pairs = [M.gen_markup(rng) for _ in range(12)]
    job['markup'] = [p[0] for p in pairs]
    out = exec_child(acc, job, env_cfg, f'c{k}')
    if out is None:
        return
    enabled = env_enabled({**env_cfg, 'tty': out['isatty'][0]})
    enabled_err = env_enabled({**env_cfg, 'tty': out['isatty'][1]})
    acc.count('child_processes')
    acc.count('child_env:' + ('N' if env_cfg['NO_COLOR'] else '-') + ('F' if env_cfg['FORCE_COLOR'] else '-')
              + ('T' if out['isatty'][0] else '-'))
    if env_cfg['tty'] and out['isatty'][0]:
        acc.count('child_tty_processes')
    before = acc.counters.get('outputs_checked', 0) + acc.counters.get('render_outputs_checked', 0) \
        + acc.counters.get('perr_outputs_checked', 0) + acc.counters.get('markup_outputs_checked', 0)
    origin = {'shard': shard, 'child': k, 'env': env_cfg, 'isatty': out['isatty']}
    for case, obs in zip(job['styles'], out['styles']):
        case = dict(case)
        if case['mode'] == 'env':
            case['env'] = {**env_cfg, 'tty': out['isatty'][0]}
        check_style(acc, case, obs, origin)
    for f, res in zip(job['failures'], out['failures']):
        check_failure(acc, f, res, [], origin, child_enabled=enabled_err)
    for p, (s, err) in zip(job['perrs'], out['perrs']):
        wit = {'kind': 'perr', 'cls': p['kind'], 'msg': p['msg'], 'envs': [{**env_cfg, 'tty': out['isatty'][1]}],
               'origin': origin}
        first, _, rest = p['msg'].partition('\n')
        acc.count('parse_error_strs')
        if err is None and s is not None:
            got, _n = M.strip_sgr(s)
            # reference: the message itself must survive; compare the coloured form with its own de-escaped form
            ref = got if got is not None else s
            if not (first in ref and ref.endswith(rest)):
                acc.violation('perr/child/text', f'str({p["kind"]}({p["msg"]!r})) = {s!r} does not carry the message',
                              wit)
                continue
            check_render(acc, f'str({p["kind"]}({p["msg"]!r})) in child', ref, 'str', s, None, enabled_err, wit, 'perr')
        else:
            check_render(acc, f'str({p["kind"]}(...)) in child', '', 'str', s, err or 'no output', enabled_err, wit,
                         'perr')
    for (src, plain), (on, off, err) in zip(pairs, out['markup']):
        wit = {'kind': 'markup', 'src': src, 'plain': plain, 'env': env_cfg, 'origin': origin}
        check_render(acc, f'markup({src!r}) in child', plain, 'default', on, err, enabled, wit, 'markup')
        check_render(acc, f'markup({src!r}) in child', plain, 'never', off, err, False, wit, 'markup')
    after = acc.counters.get('outputs_checked', 0) + acc.counters.get('render_outputs_checked', 0) \
        + acc.counters.get('perr_outputs_checked', 0) + acc.counters.get('markup_outputs_checked', 0)
    acc.count('child_outputs_checked', after - before)


def exec_child(acc, job, env_cfg, tag):
    scratch = os.environ.get('VT_SCRATCH') or '/tmp'
    infile = os.path.join(scratch, f'{tag}.in.json')
    outfile = os.path.join(scratch, f'{tag}.out.json')
    with open(infile, 'w') as f:
        json.dump(job, f)
    env = dict(os.environ)
    for kname in ('NO_COLOR', 'FORCE_COLOR'):
        env.pop(kname, None)
        if env_cfg.get(kname) is not None:
            env[kname] = env_cfg[kname]
    master = slave = None
    stdout = stderr = subprocess.PIPE
    if env_cfg.get('tty'):
        try:
            import pty
            master, slave = pty.openpty()
            stdout = stderr = slave
        except Exception as e:  # noqa: BLE001
            acc.note(f'pty unavailable ({type(e).__name__}); tty child run with pipes')
            acc.count('child_pty_unavailable')
    try:
        p = subprocess.run([sys.executable, '-m', 'vt.monitors.c20_style', infile, outfile],
                           stdin=subprocess.DEVNULL, stdout=stdout, stderr=stderr, env=env, timeout=300)
    except subprocess.TimeoutExpired:
        raise RuntimeError('C20 child process timed out') from None
    finally:
        for fd in (master, slave):
            if fd is not None:
                os.close(fd)
    if not os.path.exists(outfile):
        err = p.stderr.decode('utf-8', 'replace')[-1500:] if isinstance(p.stderr, bytes) else ''
        raise RuntimeError(f'C20 child process produced no result (rc={p.returncode}): {err}')
    with open(outfile) as f:
        return json.load(f)


# ------------------------------------------------------------------------------- replay

def replay(w, acc):
    kind = w.get('kind')
    if kind == 'style':
        run_style_case(acc, w['case'], {'mode': 'replay'})
    elif kind == 'failure':
        f = w['f']
        envs = w.get('envs') or []
        o = w.get('origin') or {}
        if not envs and isinstance(o.get('env'), dict):      # found in a child process: emulate its configuration
            envs = [{**o['env'], 'tty': bool((o.get('isatty') or [False, False])[1])}]
        res = M.observe_failure(f['gi'], f['src'], f['filename'], f['semmsg'], envs)
        check_failure(acc, f, res, envs, {'mode': 'replay'})
    elif kind == 'perr':
        envs = w.get('envs') or [dict(e) for e in M.ENVS]
        if len(envs) < 2:
            envs = [dict(e) for e in M.ENVS]
        res = M.observe_parse_error(w['cls'], w['msg'], envs)
        check_parse_error(acc, w['cls'], w['msg'], res, envs, {'mode': 'replay'})
    elif kind == 'markup':
        env = w.get('env') or dict(M.ENVS[0])
        res = M.observe_markup(w['src'], env)
        check_markup(acc, w['src'], w['plain'], res, env, {'mode': 'replay'})


MANIFEST = {
    'technique': 'runtime monitoring: reference-output oracle (python format() + independent SGR stripper) and metamorphic '
                 'comparison of coloured vs colourless renderings over seeded executions of the real ztyle/exception code, '
                 'including child processes with real NO_COLOR/FORCE_COLOR/pty configurations',
    'level_text': 'every seeded (text, attributes, spec, colour policy, construction route) case is executed through all '
                  'documented entry points of the real Style and each output is reduced with the library descape and an '
                  'independent stripper and compared with format(text, spec); len/visual_len, colour-off exactness and '
                  'the repr/from_raw round trip are checked per case; real parse failures and ParseError messages are '
                  'rendered under every policy and compared with their colourless rendering; exploration is the right '
                  'level because the property quantifies over an unbounded text x spec x attribute space',
    'level_note': 'trusted: python str.__format__, the 30-line independent stripper, unicodedata categories used to '
                  'classify texts, the in-process tty/env emulation (cross-checked by real child processes); '
                  'held = no disagreement on the executions listed in the evidence, not a proof',
}
