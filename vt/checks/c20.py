"""C20 — styling text never alters the text itself.

Oracle: Python's own `format(text, spec)` is the text every styled output must reduce to, both
through the library's `descape` and through an independent SGR stripper; with colour disabled the
output must be exactly that text.  `len(style)`/`visual_len` must be its length.  The repr round
trip (`Style.from_raw(repr(s))`) is compared attribute by attribute with the attributes the case
asked for.  A format specification given EXPLICITLY at the point of use (`format(s, spec)`, f-string, `str.format`,
`s.apply(text, fmt=spec)`, `s(text, fmt=spec)`) is the specification of that output also when the style STORES a
different one (`Style(..., fmt=)`, `.fmt()`, `template(text, fmt=)`): the output must reduce to
`format(text, explicit spec)`.  Lineages: styles are also derived from one another in seeded walks of public
builder calls with observations (len, truthiness, str, format, repr ...) taken on every style before the next is
derived and on all of them again at the end; each style is judged against the attributes folded from the calls.
Users: `FailedParse.render(color)`/`str(FailedParse)`/`str(ParseError)` must de-escape
to their `Color.never()` / NO_COLOR rendering.  DESIGN.md section 3/C20.

Histories: the users of styling are also driven as SEQUENCES inside one process that has rendered nothing
before (the shard process forks at the very start of its work, once per node of the tree of histories):
operations that change what a colour policy reads (NO_COLOR/FORCE_COLOR/TERM, tty-ness of the streams,
`Color.enable()`) interleaved with render operations that name a policy object living for the whole history
(`Color.never()`, `Color.always()`, `Color()`, `Color.stderr()`, two toggled objects, the library default)
through FailedParse.render / str / memento / str(ParseError) / a traced parse (colorize) / Style objects made
at the start, made at the step or derived at the step / markup made at the start or at the step.  The
oracle is applied to every step: the state of the named policy AT that step follows from the operations
before it by the documented priority (explicit > NO_COLOR > FORCE_COLOR > isatty of the policy's stream);
disabled => no escape sequence and exactly the colourless text, otherwise the output de-escapes to it.
"""
from __future__ import annotations

import json
import os
import random
import subprocess
import sys

from ..common import h64
from ..monitors import c20_style as M

ID = 'C20'
LEVEL = 'exploration'
RULE = ('style cases = (unicode text without ESC drawn from ascii/brace/quote/latin/combining/CJK/fullwidth/emoji/'
        'ZWJ/RTL/bidi/space/control/format-like/escape-notation pools, fg and bg in {none,0-15,16-255,RGB}, a subset of '
        'the 8 modifiers, a format spec [fill][align][0][width][.precision][s] or none, colour policy in '
        '{always, never, enable(True/False), environment (NO_COLOR x FORCE_COLOR x tty)}, construction route in '
        '{kwargs, chained methods, Color.style, named methods}); every case is executed through str, apply, call, %s, '
        "f-string, str.format, apply(fmt=), call(fmt=), format(), f'{s:{spec}}', '{:{}}'.format, len, repr/from_raw; "
        'every case whose style stores a non-empty spec also carries a second, different non-empty spec that is given '
        'explicitly to the storing style through format(), f-string, str.format, __format__, apply(fmt=) and '
        'call(fmt=) and is judged against format(text, explicit spec). '
        'lineage cases = a root Style(text[, fmt][, attributes]) followed by 2..6 builder calls drawn from {.fmt(spec), '
        'style(text), style(text, fmt=spec), a modifier, .fg(c)/.fg_rgb, .bg(c)/.bg_rgb}; on each style, before the next '
        'is derived, an ordered subset (0..4) of {len, bool, str, format, f-string, %s, repr, apply, value, '
        'format(s, explicit spec), apply(text, fmt=explicit spec)} is taken, and at the end every style of the walk is '
        'observed through len, bool, str, f-string, format(s, explicit spec), value; every observation is judged '
        'against the attributes folded from the builder calls (signature prefix "lineage:" when the same style built '
        'directly with the constructor passes the same observation). '
        'error cases = real parse failures of two compiled grammars on multi-line unicode sources (and ParseError '
        'family messages), rendered under every colour policy; markup cases = tag/text sequences. environment cases '
        'are repeated in child processes with real env vars and a real pty. non-trivial = an output that actually '
        'carried escape sequences (or a round trip of a style that has attributes) and was compared with the oracle; '
        'distinct by (text, attributes, spec, policy, route) resp. (grammar, source, policy). '
        'history cases = sequences of operations in one process that has not rendered anything: state operations '
        '(set/unset NO_COLOR, FORCE_COLOR, TERM; stdout/stderr tty-ness; enable(True/False) on a toggled Color) and '
        'render operations (policy object in {never, always, Color(), Color.stderr(), toggled Color(), toggled '
        'Color.stderr(), library default} x entry points {render, render of a failure raised at the step, str, '
        'memento, str(ParseError), traced parse with colorize on/off, Style made at the start / at the step / '
        'derived at the step through str, f-string and apply, markup made at the start / at the step}); the tree of '
        'all sequences of length <=3 over 8 state operations + 5 render-everything operations is enumerated from '
        'each initial environment (every node runs in its own forked copy of the process that executed the path to '
        'it), longer histories (4..8 operations, full alphabet, one to three entry points per render) are sampled; '
        'EVERY render step is judged with the policy state the documented rules give for that step; non-trivial = a '
        'step whose output carried escape sequences and was compared; distinct by (initial environment, operations '
        'so far, entry points, material)')
ASSUMPTIONS = [
    "python's format(text, spec) is 'the text formatted by that specification'; specs it rejects are not cases",
    'a style that stores a format spec and is given a different NON-EMPTY spec explicitly at the point of use '
    '(format(s.fmt(a), b), f"{s:b}", s.apply(text, fmt=b), s(text, fmt=b)): "the text formatted by that '
    'specification" is read as format(text, b), the specification of that output (what Style.__format__/apply/'
    '__call__ do on the unchanged tree through every entry point); an EMPTY explicit spec (format(s), f"{s}") falls '
    'back to the stored one',
    'lineages: every modifier/colour/.fmt()/call returns a new style that differs from its parent only in what the call '
    'names (Style docstring: "All modifier methods return a copy so styles are immutable and chainable"); the '
    'expected attributes of a derived style are folded from the calls; truthiness and repr are taken for what they '
    'may leave behind and are not judged in the walks',
    'the independent stripper removes exactly ESC [ (digit|;)* m; any other ESC in an output is reported as a '
    'malformed escape (texts and specs never contain ESC)',
    'repr round trip: text equality is required for texts without {}:\\\'" and without Cc characters; texts with '
    'Cf/Zl/Zp (format/separator "controls") are counted as an open reading and compared on attributes only; '
    'the fmt attribute is compared only when text and spec are both free of the excluded characters',
    'expected colour state for the environment policy is the documented priority: explicit > NO_COLOR > FORCE_COLOR '
    '> isatty (env values used: unset or "1")',
    'in-process environment emulation replaces os.environ entries and wraps sys.stdout/sys.stderr with an object '
    'whose isatty() is fixed; child processes use real env vars, pipes and a pty',
    'histories: the colour state of a step is that of the policy object the step passes, evaluated when the step '
    'runs (Color.enable docstring: styles using the Color follow it; Style docstring: "when color.enabled is False '
    'str() and apply() return the plain text"); Color()/Color.tty()/Color.default() read sys.stdout, Color.stderr() '
    'reads sys.stderr (their docstrings); left open and checked for transparency only: the library default policy '
    'when stdout and stderr differ in tty-ness, and a tty whose TERM is dumb/emacs',
    'histories: the root of all histories is the shard process before it has rendered anything (it has imported '
    'tatsu, compiled the grammars, raised the parse failures and loaded the lazy colour tables); os.fork() gives '
    'every tree node / sampled history its own copy of that state; the colourless reference renderings are taken '
    'in the root after all histories have run (they are that process\'s first renderings) and must be ESC-free',
    'histories: a traced parse with colorize=False is "colour disabled", with colorize=True it follows the library '
    'default policy; its reference text is the colorize=False trace',
]
FLOORS = {
    'quick': {'outputs_checked': 180000, 'outputs_with_escapes': 90000, 'outputs_colour_off': 80000,
              'spec_outputs_with_escapes': 75000, 'len_checked': 30000, 'repr_attrs_compared': 30000,
              'repr_text_compared': 22000, 'repr_fmt_compared': 18000, 'render_outputs_with_escapes': 7000,
              'failures_rendered': 1800, 'failures_past_line_9': 550, 'parse_error_strs': 1500,
              'perr_outputs_with_escapes': 3500, 'markup_outputs_with_escapes': 2700,
              'child_processes': 40, 'child_outputs_checked': 18000, 'env_outputs': 50000,
              'history_tree_nodes': 2745, 'history_trees_complete': 39, 'histories_sampled': 480,
              'history_render_steps': 4400, 'history_outputs_checked': 38000, 'history_outputs_colour_off': 22000,
              'history_outputs_with_escapes': 16000, 'history_steps_after_own_policy_flipped': 40,
              'history_tree_off_steps_after_other_policy_went_off_to_on': 15,
              'history_tree_on_steps_after_other_policy_went_on_to_off': 9,
              'history_sampled_off_steps_after_other_policy_went_off_to_on': 30,
              'history_entry:render-fresh': 900, 'history_entry:trace': 300,
              'override_outputs_checked': 150000, 'override_outputs_where_the_two_specs_give_different_texts': 150000,
              'override_outputs_with_escapes': 70000,
              'lineage_walks': 7000, 'lineage_observations_checked': 220000, 'lineage_len_checked': 32000,
              'lineage_outputs_with_escapes': 50000, 'lineage_explicit_over_stored_spec_outputs': 24000,
              'lineage_styles_derived_from_measured_parent_of_other_length': 3000,
              'lineage_derived_from_measured_parent_of_other_length_by:fmt': 1700,
              'distinct_nontrivial': 27000},
    'thorough': {'outputs_checked': 6000000, 'outputs_with_escapes': 3000000, 'outputs_colour_off': 2800000,
                 'spec_outputs_with_escapes': 2700000, 'len_checked': 1100000, 'repr_attrs_compared': 1100000,
                 'repr_text_compared': 750000, 'repr_fmt_compared': 600000, 'render_outputs_with_escapes': 200000,
                 'failures_rendered': 50000, 'failures_past_line_9': 17000, 'parse_error_strs': 30000,
                 'perr_outputs_with_escapes': 85000, 'markup_outputs_with_escapes': 65000,
                 'child_processes': 450, 'child_outputs_checked': 550000, 'env_outputs': 1700000,
                 'history_tree_nodes': 7320, 'history_trees_complete': 104, 'histories_sampled': 16000,
                 'history_render_steps': 60000, 'history_outputs_checked': 280000, 'history_outputs_colour_off': 150000,
                 'history_outputs_with_escapes': 110000, 'history_steps_after_own_policy_flipped': 1400,
                 'history_tree_off_steps_after_other_policy_went_off_to_on': 30,
                 'history_tree_on_steps_after_other_policy_went_on_to_off': 24,
                 'history_sampled_off_steps_after_other_policy_went_off_to_on': 1500,
                 'history_entry:render-fresh': 18000, 'history_entry:trace': 5000,
                 'override_outputs_checked': 4500000,
                 'override_outputs_where_the_two_specs_give_different_texts': 4500000,
                 'override_outputs_with_escapes': 2100000,
                 'lineage_walks': 240000, 'lineage_observations_checked': 6500000, 'lineage_len_checked': 1000000,
                 'lineage_outputs_with_escapes': 1600000, 'lineage_explicit_over_stored_spec_outputs': 750000,
                 'lineage_styles_derived_from_measured_parent_of_other_length': 95000,
                 'lineage_derived_from_measured_parent_of_other_length_by:fmt': 52000,
                 'distinct_nontrivial': 850000},
}
EXHAUSTIVE = {
    'quick': 'histories: every sequence of <=3 operations over {NO_COLOR=1, del NO_COLOR, FORCE_COLOR=1, del FORCE_COLOR, '
             'tty on, tty off, toggled.enable(True), toggled.enable(False), render-everything with never / always / '
             'Color() / toggled Color() / library default} from the initial environments {clean no tty, tty, '
             'NO_COLOR+tty}: 2745 render nodes, each in its own forked process state (entry points that parse inside '
             'the step - failure raised at the step, traced parse - run in every node of one third of the subtrees)',
    'thorough': 'the same tree from all 8 initial environments (NO_COLOR x FORCE_COLOR x tty): 7320 render nodes, every '
                'entry point in every node',
}
SHARD_TIMEOUT = {'quick': 600, 'thorough': 3000}
PEAK_COUNTERS = ('max_sgr_sequences',)

N_STYLE = {'quick': 30000, 'thorough': 1000000}
N_LINEAGE = {'quick': 8000, 'thorough': 250000}
N_FAIL = {'quick': 3200, 'thorough': 100000}
N_PERR = {'quick': 2400, 'thorough': 60000}
N_MARKUP = {'quick': 2400, 'thorough': 60000}
N_CHILD = {'quick': 3, 'thorough': 8}          # child processes per shard
CHILD_STYLES = {'quick': 60, 'thorough': 200}
N_HIST = {'quick': 480, 'thorough': 16000}    # sampled histories (length 4..8) on top of the enumerated ones
SHARDS = {'quick': 16, 'thorough': 64}

FORMAT_ENTRIES = ('fstring', 'strformat', 'format', 'fstring-spec', 'format-method')


def plan(tier, seed):
    k = SHARDS[tier]
    return [{'seed': seed, 'shard': i, 'of': k, 'tier': tier,
             'n_style': N_STYLE[tier] // k, 'n_lineage': N_LINEAGE[tier] // k, 'n_fail': N_FAIL[tier] // k, 'n_perr': N_PERR[tier] // k,
             'n_markup': N_MARKUP[tier] // k, 'n_child': N_CHILD[tier], 'child_styles': CHILD_STYLES[tier],
             'n_hist': N_HIST[tier] // k}
            for i in range(k)]


# ------------------------------------------------------------------------------- oracle: styles

def expected_text(case):
    spec = case['spec']
    return format(case['text'], spec if spec is not None else '')


def diagnose_format(case, entry, out, obs):
    """name the mechanism when the output is exactly 'the wrapper applied to format(<already rendered string>)'"""
    wrap = obs.get('wrap')
    if entry not in FORMAT_ENTRIES or not wrap:
        return None
    p, r = wrap
    spec = case['spec'] if case['spec'] is not None else ''
    if entry in ('fstring', 'strformat'):
        body = format(case['text'], spec)              # what str(s) is (s carries the spec)
        inner = p + body + r if body else ''
    else:
        inner = p + case['text'] + r
    try:
        model = format(inner, spec)
    except ValueError:
        return None
    if model and (p or r):
        model = p + model + r
    if out != model:
        return None
    return 'formats-escaped-string' if (p or r) else 'fmt-applied-twice'


def check_output(acc, case, entry, out, err, want, enabled, obs, origin):
    """one observed output against the oracle"""
    from tatsu.util.tty import descape, visual_len
    acc.evaluations += 1
    acc.count('outputs_checked')
    acc.count('entry:' + entry)
    onoff = 'on' if enabled else 'off'
    wit = {'kind': 'style', 'case': case, 'entry': entry, 'origin': origin}

    def bad(kind, detail):
        d = diagnose_format(case, entry, out, obs) if out is not None else None
        group = 'format' if entry in FORMAT_ENTRIES else entry
        sig = f'format:{d}' if d else f'{group}/{onoff}/{kind}'
        acc.violation(sig, f'{entry} of text {case["text"]!r} spec {case["spec"]!r} (colour {onoff}, {case["mode"]}): '
                           f'{detail}; output {out!r}, oracle text {want!r}', wit)

    if err is not None:
        bad('exception:' + err.split(':')[0].split(' ')[0], f'raised/returned {err}')
        return
    has_esc = M.ESC in out
    if has_esc:
        acc.count('outputs_with_escapes')
        if case['spec']:
            acc.count('spec_outputs_with_escapes')
    if not enabled:
        acc.count('outputs_colour_off')
        if has_esc:
            bad('leak', 'escape sequence although colour is disabled')
            return
        if out != want:
            bad('text', 'colour disabled but output is not the formatted text')
            return
    if case['mode'] == 'env':
        acc.count('env_outputs')
    try:
        got = descape(out)
    except Exception as e:  # noqa: BLE001
        bad('exception:descape', f'descape raised {type(e).__name__}: {e}')
        return
    mine, nseq = M.strip_sgr(out)
    if got != want:
        bad('text', f'descape(output) = {got!r}')
        return
    if mine is None:
        bad('malformed', 'an ESC in the output does not start an SGR sequence')
        return
    if mine != want:
        bad('text', f'independent strip gives {mine!r}')
        return
    try:
        vl = visual_len(out)
    except Exception as e:  # noqa: BLE001
        bad('exception:visual_len', f'visual_len raised {type(e).__name__}: {e}')
        return
    if vl != len(want):
        bad('len', f'visual_len(output) = {vl}, len(text) = {len(want)}')
        return
    if has_esc:
        obs['_escaped_ok'] = obs.get('_escaped_ok', 0) + 1
        acc.peak('max_sgr_sequences', nseq)


def norm_colour(v):
    return -1 if v is None or v == -1 else v


def check_roundtrip(acc, case, obs, origin):
    tcls = M.text_class(case['text'])
    spec = case['spec']
    spec_clean = spec is None or M.text_class(spec) == 'clean' or spec == ''
    want = {'fg': norm_colour(case['fg']), 'bg': norm_colour(case['bg']), 'mods': list(case['mods'])}
    for name, rt in obs['repr'].items():
        wit = {'kind': 'style', 'case': case, 'entry': 'repr:' + name, 'origin': origin}
        acc.evaluations += 1
        if rt['err'] is not None:
            acc.violation('repr/exception:' + rt['err'].split(':')[0],
                          f'repr/from_raw of text {case["text"]!r} raised {rt["err"]}', wit)
            continue
        back = rt['back']
        acc.count('repr_attrs_compared')
        acc.count('repr_textclass:' + tcls)
        if 'probe' in back or 'probe' in rt['orig']:
            # private slots not observable: attributes (and fmt) compared through repr of a probe text
            acc.count('repr_attrs_via_public_probe')
            acc.note('Style private slots unobserved: repr round trip compared through the public probe repr(s("P"))')
            if not (tcls == 'clean' and spec_clean):
                acc.count('repr_attrs_unobserved')      # the probe folds fmt in, which is not promised here
            elif back.get('probe') != rt['orig'].get('probe'):
                acc.violation('repr/attrs',
                              f'from_raw(repr(s)) writes {back.get("probe")!r} around a probe text, the style '
                              f'{rt["orig"].get("probe")!r}; text {case["text"]!r} repr {rt["repr"]!r}', wit)
            elif tcls == 'clean' and back['value'] != case['text']:
                acc.violation('repr/text', f'from_raw(repr(s)).value = {back["value"]!r}, text {case["text"]!r}', wit)
            continue
        got = {k: back[k] for k in ('fg', 'bg', 'mods')}
        if got != want:
            sig = 'repr/attrs'
            if '\\e' in case['text'] or '\\x1b' in case['text']:
                sig = 'repr/attrs:text-contains-escape-notation'
            acc.violation(sig, f'from_raw(repr(s)) has attributes {got}, the style was built with {want}; '
                               f'text {case["text"]!r} repr {rt["repr"]!r}', wit)
            continue
        if M.has_codes(case):
            obs['_escaped_ok'] = obs.get('_escaped_ok', 0) + 1
        if tcls in ('clean', 'nonprintable'):
            acc.count('repr_text_compared')
            if back['value'] != case['text']:
                sig = 'repr/text' if tcls == 'clean' else 'repr/text:nonprintable-escaped'
                acc.violation(sig, f'from_raw(repr(s)).value = {back["value"]!r}, text {case["text"]!r} '
                                   f'(repr {rt["repr"]!r})', wit)
                continue
            if tcls == 'clean' and spec_clean:
                acc.count('repr_fmt_compared')
                if back['fmt'] != spec:
                    acc.violation('repr/fmt', f'from_raw(repr(s))._fmt = {back["fmt"]!r}, style had {spec!r}; '
                                              f'text {case["text"]!r} repr {rt["repr"]!r}', wit)
        elif tcls == 'open':
            acc.count('repr_text_open_format_chars')
        else:
            acc.count('repr_text_excluded_by_statement')


def check_style(acc, case, obs, origin, enabled=None):
    try:
        want = expected_text(case)
    except ValueError:
        acc.count('invalid_spec_skipped')
        return
    if enabled is None:
        enabled = M.expected_enabled(case)
    acc.count('cases_style')
    acc.count('mode:' + case['mode'])
    acc.count('route:' + case['route'])
    if case['spec']:
        acc.count('cases_with_spec')
    if not M.has_codes(case):
        acc.count('cases_without_attributes')
    for entry, out, err in obs['outs']:
        check_output(acc, case, entry, out, err, want, enabled, obs, origin)
    for name, n, err in obs['lens']:
        acc.evaluations += 1
        acc.count('len_checked')
        wit = {'kind': 'style', 'case': case, 'entry': 'len:' + name, 'origin': origin}
        if err is not None:
            acc.violation('len/exception:' + err.split(':')[0], f'len(style) raised {err}; text {case["text"]!r}', wit)
        elif n != len(want):
            acc.violation('len/value', f'len(style) = {n} but the formatted text {want!r} has length {len(want)} '
                                       f'(text {case["text"]!r} spec {case["spec"]!r}, colour {case["mode"]})', wit)
    for name, value, raw in obs['values']:
        acc.evaluations += 1
        if value != case['text'] or raw != case['text']:
            acc.violation('value/altered', f'style.value = {value!r} / str value {raw!r} for text {case["text"]!r}',
                          {'kind': 'style', 'case': case, 'entry': 'value:' + name, 'origin': origin})
    check_roundtrip(acc, case, obs, origin)
    check_override(acc, case, obs, enabled, origin)
    if obs.get('_escaped_ok'):
        acc.count('cases_nontrivial')
        acc.nontriv('style', case['text'], case['fg'], case['bg'], case['mods'], case['spec'], case['mode'],
                    case.get('env'), case['route'])


def output_verdict(want, out, enabled):
    """None, or (kind, detail) when the output `out` is not the text `want` with (colour enabled) or without
    (colour disabled) SGR sequences around it"""
    from tatsu.util.tty import descape, visual_len
    if not enabled:
        if M.ESC in out:
            return 'leak', 'escape sequence although colour is disabled'
        if out != want:
            return 'text', 'colour disabled but output is not the formatted text'
    try:
        got = descape(out)
    except Exception as e:  # noqa: BLE001
        return 'exception:descape', f'descape raised {type(e).__name__}: {e}'
    mine, _n = M.strip_sgr(out)
    if got != want:
        return 'text', f'descape(output) = {got!r}'
    if mine is None:
        return 'malformed', 'an ESC in the output does not start an SGR sequence'
    if mine != want:
        return 'text', f'independent strip gives {mine!r}'
    try:
        vl = visual_len(out)
    except Exception as e:  # noqa: BLE001
        return 'exception:visual_len', f'visual_len raised {type(e).__name__}: {e}'
    if vl != len(want):
        return 'len', f'visual_len(output) = {vl}, len(text) = {len(want)}'
    return None


def explicit_verdict(text, stored, explicit, out, err, enabled):
    """a style that stores the spec `stored` (or none) was given the non-empty spec `explicit` at the point of use:
    the output must be format(text, explicit); (signature, detail) or None"""
    onoff = 'on' if enabled else 'off'
    if err is not None:
        return 'override/exception:' + err.split(':')[0].split(' ')[0], f'raised/returned {err}'
    want = format(text, explicit)
    v = output_verdict(want, out, enabled)
    if v is None:
        return None
    if stored:
        mine, _n = M.strip_sgr(out)
        if mine is not None and mine == format(text, stored) != want:
            return 'override:stored-spec-used', v[1]
    return f'override/{onoff}/{v[0]}', v[1]


def check_override(acc, case, obs, enabled, origin):
    """stored spec + a different explicit spec: the explicit one decides the text"""
    text, spec, spec2 = case['text'], case['spec'], case.get('spec2')
    over = obs.get('over') or []
    if not over:
        return
    want = format(text, spec2)
    acc.count('cases_with_stored_and_explicit_spec')
    differ = want != format(text, spec)
    for entry, out, err in over:
        acc.evaluations += 1
        acc.count('override_outputs_checked')
        acc.count('entry:' + entry)
        if differ:
            acc.count('override_outputs_where_the_two_specs_give_different_texts')
        v = explicit_verdict(text, spec, spec2, out, err, enabled)
        if v is not None:
            acc.violation(v[0], f'{entry} of text {text!r} on a style storing spec {spec!r} with the explicit spec '
                                f'{spec2!r} (colour {"on" if enabled else "off"}, {case["mode"]}): {v[1]}; output '
                                f'{out!r}, oracle text {want!r}',
                          {'kind': 'style', 'case': case, 'entry': entry, 'origin': origin})
        elif M.ESC in out:
            acc.count('override_outputs_with_escapes')
            obs['_escaped_ok'] = obs.get('_escaped_ok', 0) + 1


# ------------------------------------------------------------------------------- oracle: lineages

def lineage_verdict(a, ob, res, err, enabled):
    """one observation on a style whose folded attributes are `a`: None or (signature, detail)"""
    name = ob[0]
    if name in ('formatx', 'applyx'):
        return explicit_verdict(a['text'], a['spec'], ob[1], res, err, enabled)
    if err is not None:
        return f'{name}/exception:' + err.split(':')[0].split(' ')[0], f'raised/returned {err}'
    want = expected_text(a)
    if name == 'len':
        if res != len(want):
            return 'len/value', f'len(style) = {res} but the formatted text {want!r} has length {len(want)}'
        return None
    if name == 'value':
        return None if res == a['text'] else ('value/altered', f'style.value = {res!r}')
    if name in ('bool', 'repr'):
        return None             # taken for what they may leave behind; repr is judged in the style cases
    v = output_verdict(want, res, enabled)
    if v is None:
        return None
    group = 'format' if name in ('format', 'fstring') else name
    return f'{group}/{"on" if enabled else "off"}/{v[0]}', f'{v[1]}; output {res!r}, oracle text {want!r}'


def ops_text(walk, j):
    return '>'.join(op[0] for op in walk['steps'][:j]) or 'constructor'


def check_lineage(acc, walk, obs, origin):
    folded = M.fold_lineage(walk)
    enabled = M.expected_enabled(walk)
    wit = {'kind': 'lineage', 'walk': walk, 'origin': origin}
    acc.count('lineage_walks')
    acc.count(f'lineage_walks_len:{len(walk["steps"])}')
    acc.count('mode:' + walk['mode'])
    for op in walk['steps']:
        acc.count('lineage_op:' + op[0])
    wants = [len(expected_text(a)) for a in folded]
    measured = [any(ob[0] in ('len', 'bool') for ob in walk['obs'][j]) for j in range(len(folded))]
    escaped = False
    for j, a in enumerate(folded):
        acc.count('lineage_styles')
        nb = len(walk['obs'][j])
        after_measured = j > 0 and measured[j - 1] and wants[j] != wants[j - 1]
        if after_measured:
            acc.count('lineage_styles_derived_from_measured_parent_of_other_length')
            acc.count('lineage_derived_from_measured_parent_of_other_length_by:' + walk['steps'][j - 1][0])
        for phase, seq, off in (('before the next style is derived', obs['before'][j], 0),
                                ('at the end of the walk', obs['end'][j], nb)):
            for k, (ob, res, err) in enumerate(seq):
                acc.evaluations += 1
                acc.count('lineage_observations_checked')
                acc.count('lineage_obs:' + ob[0])
                if ob[0] == 'len':
                    acc.count('lineage_len_checked')
                elif ob[0] in ('formatx', 'applyx'):
                    acc.count('lineage_explicit_spec_outputs')
                    if a['spec'] and format(a['text'], a['spec']) != format(a['text'], ob[1]):
                        acc.count('lineage_explicit_over_stored_spec_outputs')
                v = lineage_verdict(a, ob, res, err, enabled)
                if v is None:
                    if isinstance(res, str) and M.ESC in res and ob[0] != 'repr':
                        acc.count('lineage_outputs_with_escapes')
                        escaped = True
                    continue
                dob, dres, derr = obs['direct'][j][off + k]
                same = lineage_verdict(a, dob, dres, derr, enabled) is not None
                sig = v[0] if same else 'lineage:' + v[0]
                tail = 'the same style built directly shows it too' if same else \
                    'the same style built directly does not show this'
                acc.violation(sig, f'after {ops_text(walk, j)} ({phase}; observations taken on this style before '
                                   f'that: {[o[0] for o in walk["obs"][j]]}, on its parent: '
                                   f'{[o[0] for o in walk["obs"][j - 1]] if j else None}): {ob} on text {a["text"]!r} '
                                   f'spec {a["spec"]!r}, colour {walk["mode"]}: {v[1]} [{tail}]', wit)
    if escaped:
        acc.nontriv('lineage', walk['text'], walk['spec'], walk['mode'], walk.get('env'), walk['steps'], walk['obs'])


def run_lineage(acc, walk, origin):
    obs = M.observe_lineage(walk)
    check_lineage(acc, walk, obs, origin)
    return obs


# ------------------------------------------------------------------------------- oracle: renderings

def check_render(acc, what, ref, name, out, err, enabled, wit, group):
    """`out` must de-escape to `ref` (the Color.never()/NO_COLOR rendering)"""
    from tatsu.util.tty import descape
    acc.evaluations += 1
    acc.count(group + '_outputs_checked')
    onoff = {True: 'on', False: 'off', None: 'any'}[enabled]
    if err is not None:
        acc.violation(f'{group}/exception:' + err.split(':')[0].split(' ')[0], f'{what}: {name} raised {err}', wit)
        return
    has_esc = M.ESC in out
    if enabled is False:
        if has_esc:
            acc.violation(f'{group}/off/leak', f'{what}: {name} has escape sequences although colour is disabled: '
                                               f'{out!r}', wit)
            return
        if out != ref:
            acc.violation(f'{group}/off/text', f'{what}: {name} = {out!r} differs from the colourless rendering '
                                               f'{ref!r}', wit)
            return
    got = descape(out)
    mine, _ = M.strip_sgr(out)
    if got != ref or mine != ref:
        kind = 'malformed' if mine is None and got == ref else 'text'
        acc.violation(f'{group}/{onoff}/{kind}', f'{what}: {name} de-escapes to {got!r} (independent: {mine!r}), '
                                                 f'colourless rendering is {ref!r}', wit)
        return
    if has_esc:
        acc.count(group + '_outputs_with_escapes')
        acc.nontriv(group, what, name)


def env_enabled(env):
    if env.get('NO_COLOR') is not None:
        return False
    if env.get('FORCE_COLOR') is not None:
        return True
    return bool(env.get('tty'))


def check_failure(acc, f, res, envs, origin, child_enabled=None):
    wit = {'kind': 'failure', 'f': f, 'envs': envs, 'origin': origin}
    if res is None:
        acc.count('sources_that_parsed')
        return
    if 'other' in res:
        acc.count('sources_other_exception')
        acc.note('non-FailedParse exception from a generated source: ' + res['other'][:120])
        return
    acc.count('failures_rendered')
    acc.count('failure:' + res['cls'])
    if res['line'] >= 9:
        acc.count('failures_past_line_9')
    ref, err = res['renders']['never']
    what = f'{res["cls"]} of grammar #{f["gi"]} on {f["src"]!r}'
    if err is not None or ref is None:
        acc.violation('render/exception:' + str(err).split(':')[0], f'{what}: render(Color.never()) raised {err}', wit)
        return
    if M.ESC in ref:
        acc.violation('render/off/leak', f'{what}: render(Color.never()) contains escapes: {ref!r}', wit)
        return
    if f['src'].strip() and not any(ln.strip() and ln.expandtabs() in ref for ln in f['src'].splitlines()):
        acc.count('render_without_source_line')
    for name, (out, err) in res['renders'].items():
        if name == 'never':
            continue
        if name in ('always', 'stderr-enabled'):
            enabled = True
        elif name.startswith('env'):
            env = envs[int(name[3:name.index(':')])]
            enabled = env_enabled(env)
        elif child_enabled is not None:
            enabled = child_enabled
        else:
            enabled = None          # the shard's own stderr/env: transparency only
        check_render(acc, what, ref, name, out, err, enabled, wit, 'render')


def check_parse_error(acc, kind, msg, res, envs, origin):
    wit = {'kind': 'perr', 'cls': kind, 'msg': msg, 'envs': envs, 'origin': origin}
    offs = [i for i, e in enumerate(envs) if not env_enabled(e)]
    ref = None
    for i in offs:
        out, err = res[f'env{i}']
        if err is None and out is not None and M.ESC not in out:
            ref = out
            break
    acc.count('parse_error_strs')
    what = f'str({kind}({msg!r}))'
    if ref is None:
        acc.evaluations += 1
        acc.violation('perr/off/leak', f'{what}: no colourless rendering without escapes: {res}', wit)
        return
    # the colourless rendering must carry the message verbatim (ParseError prefixes the first line)
    first, _, rest = msg.partition('\n')
    if msg and not (first in ref and ref.endswith(rest)):
        acc.violation('perr/off/text', f'{what}: colourless rendering {ref!r} does not carry the message', wit)
    for i, env in enumerate(envs):
        out, err = res[f'env{i}']
        check_render(acc, what, ref, f'env{i}', out, err, env_enabled(env), wit, 'perr')


def check_markup(acc, src, plain, res, env, origin):
    wit = {'kind': 'markup', 'src': src, 'plain': plain, 'env': env, 'origin': origin}
    acc.count('markup_cases')
    what = f'markup({src!r})'
    for name, (out, value, err) in res.items():
        if name.startswith('env'):
            enabled = env_enabled(env)
        else:
            enabled = name.startswith('always')
        if err is None and value != plain:
            acc.evaluations += 1
            acc.violation('markup/value', f'{what}: {name} value {value!r}, segments give {plain!r}', wit)
            continue
        check_render(acc, what, plain, name, out, err, enabled, wit, 'markup')


# ------------------------------------------------------------------------------- workload

def gen_filename(rng):
    return rng.choice([None, None, 'input.txt', 'ünï/日本.txt', 'a b/c:d.src', '[bold]x[/]'])


def gen_msg(rng):
    t = M.gen_text(rng)
    if rng.random() < 0.4:
        t = t + ' ' + M.gen_text(rng) + ' — ' + M.gen_text(rng)
    return t


def gen_perr_msg(rng):
    first = M.gen_text(rng).replace('\n', ' ')
    r = rng.random()
    if r < 0.5:
        return first
    return first + '\n' + '\n'.join(M.gen_text(rng) for _ in range(rng.randint(1, 3)))


def pick_envs(rng, k=3):
    return [dict(e) for e in rng.sample(M.ENVS, k)]


def run_style_case(acc, case, origin):
    obs = M.observe(case)
    check_style(acc, case, obs, origin)
    return obs


def side_notes(acc):
    """outside the statement, recorded only"""
    from tatsu.ztyle import Style
    s = Style('x', bold=True)
    try:
        hash(s)
    except Exception as e:  # noqa: BLE001
        acc.note(f'hash(Style) raises {type(e).__name__} (outside the statement, noted only)')
    try:
        if not (s == s):
            acc.note('Style.__eq__: a Style does not compare equal to itself (outside the statement, noted only)')
    except Exception as e:  # noqa: BLE001
        acc.note(f'Style == Style raises {type(e).__name__} (outside the statement, noted only)')


def run_shard(desc, acc):
    seed, shard = desc['seed'], desc['shard']
    run_histories(acc, desc)        # first: this process is the root of the histories and has rendered nothing yet
    if shard == 0:
        side_notes(acc)
    for i in range(desc['n_style']):
        rng = random.Random(h64(ID, seed, shard, 'style', i))
        case = M.gen_case(rng)
        obs = run_style_case(acc, case, {'shard': shard, 'i': i})
        if i == 0:
            acc.sample({'case': case, 'outputs': obs['outs'][:4], 'repr': obs['repr'].get('ctor', {}).get('repr')})
    for i in range(desc.get('n_lineage', 0)):
        rng = random.Random(h64(ID, seed, shard, 'lineage', i))
        walk = M.gen_lineage(rng)
        obs = run_lineage(acc, walk, {'shard': shard, 'i': i})
        if i == 0:
            acc.sample({'lineage': walk, 'end': obs['end'][-1][:3]})
    for i in range(desc['n_fail']):
        rng = random.Random(h64(ID, seed, shard, 'fail', i))
        gi = rng.randrange(len(M.GRAMMARS))
        f = {'gi': gi, 'src': M.gen_source(rng, gi), 'filename': gen_filename(rng), 'semmsg': gen_msg(rng)}
        envs = pick_envs(rng, 2)
        res = M.observe_failure(f['gi'], f['src'], f['filename'], f['semmsg'], envs)
        check_failure(acc, f, res, envs, {'shard': shard, 'i': i})
        if i == 0 and res and 'renders' in res:
            acc.sample({'failure': f, 'never': res['renders']['never'][0], 'always': res['renders']['always'][0]})
    for i in range(desc['n_perr']):
        rng = random.Random(h64(ID, seed, shard, 'perr', i))
        kind = rng.choice(['ParseError', 'GrammarError', 'CodegenError', 'HeartDied'])
        msg = gen_perr_msg(rng)
        envs = [dict(e) for e in M.ENVS]
        res = M.observe_parse_error(kind, msg, envs)
        check_parse_error(acc, kind, msg, res, envs, {'shard': shard, 'i': i})
    for i in range(desc['n_markup']):
        rng = random.Random(h64(ID, seed, shard, 'markup', i))
        src, plain = M.gen_markup(rng)
        env = dict(rng.choice(M.ENVS))
        res = M.observe_markup(src, env)
        check_markup(acc, src, plain, res, env, {'shard': shard, 'i': i})
        if i == 0:
            acc.sample({'markup': src, 'plain': plain, 'always': res['always'][0]})
    for k in range(desc['n_child']):
        run_child(acc, desc, k)


# ------------------------------------------------------------------------------- histories
#
# A history is a sequence of operations inside ONE process that has rendered nothing before: changes of
# what a colour policy reads (environment variables, tty-ness of the streams, Color.enable()) and render
# operations through the users of styling, each naming the policy object it passes.  The monitor executes
# it in a forked copy of a prepared process; the model below only follows the documented rules (Color
# docstring) to say which state the policy named by a step is in AT that step.

H_STATE_OPS = [['env', 'NO_COLOR', '1'], ['env', 'NO_COLOR', None], ['env', 'FORCE_COLOR', '1'],
               ['env', 'FORCE_COLOR', None], ['tty', True], ['tty', False],
               ['enable', 'tog', True], ['enable', 'tog', False]]
H_COARSE_POLICIES = ('never', 'always', 'dflt', 'tog', 'lib')
H_EXTRA_STATE_OPS = [['tty-out', True], ['tty-out', False], ['tty-err', True], ['tty-err', False],
                     ['env', 'TERM', 'dumb'], ['env', 'TERM', 'xterm-256color'], ['env', 'TERM', None],
                     ['enable', 'togerr', True], ['enable', 'togerr', False],
                     ['env', 'NO_COLOR', 'true'], ['env', 'FORCE_COLOR', '3']]
H_INITS = {'quick': [0, 4, 5], 'thorough': [0, 1, 2, 3, 4, 5, 6, 7]}       # indices into M.ENVS
H_MATERIALS = 6
H_ENUM_LEN = 3


def sampled_history(rng):
    """a longer history over the full alphabet; state operations that change what some dynamic policy says
    (by the documented rules) are preferred, so that renders on both sides of a change are common"""
    init = dict(rng.choice(M.ENVS))
    if rng.random() < 0.3:
        init['TERM'] = rng.choice(['dumb', 'xterm-256color'])
    st = hist_state(init)
    ops = []
    n = rng.randint(4, 8)
    state_ops = H_STATE_OPS + H_STATE_OPS + H_EXTRA_STATE_OPS
    while len(ops) < n:
        last = len(ops) == n - 1
        if last or not ops or rng.random() < 0.55:
            p = rng.choice(M.H_POLICIES)
            es = M.entries_for(p)
            ops.append(['render', p, rng.sample(es, rng.randint(1, min(3, len(es))))])
            continue
        op = [*rng.choice(state_ops)]
        if rng.random() < 0.6:
            before = [hist_enabled(st, q) for q in DYNAMIC]
            changing = []
            for cand in state_ops:
                st2 = dict(st)
                hist_apply(st2, cand)
                if [hist_enabled(st2, q) for q in DYNAMIC] != before:
                    changing.append(cand)
            if changing:
                op = [*rng.choice(changing)]
        hist_apply(st, op)
        ops.append(op)
    return init, ops


def history_materials(rng):
    mats = []
    for _ in range(H_MATERIALS):
        gi = rng.randrange(len(M.GRAMMARS))
        for _k in range(50):
            case = M.gen_case(rng, mode='always')
            try:
                expected_text(case)
            except ValueError:
                continue
            if M.has_codes(case):
                break
        for _k in range(50):
            src, plain = M.gen_markup(rng)
            if src != plain.replace('[', '[['):          # at least one tag
                break
        for _k in range(50):
            source = M.gen_source(rng, gi)
            if source.count('\n') <= 2:                   # later lines are the business of the failure cases
                break
        mats.append({'gi': gi, 'src': source, 'filename': gen_filename(rng), 'semmsg': gen_msg(rng),
                     'perr': {'kind': rng.choice(['ParseError', 'GrammarError', 'CodegenError', 'HeartDied']),
                              'msg': gen_perr_msg(rng)},
                     'markup': src, 'plain': plain, 'style': case, 'tiny': rng.choice(M.TINY_SOURCES)})
    return mats


def hist_state(init):
    tty = bool(init.get('tty'))
    return {'NO_COLOR': init.get('NO_COLOR') is not None, 'FORCE_COLOR': init.get('FORCE_COLOR') is not None,
            'TERM': init.get('TERM'), 'out': tty, 'err': tty, 'tog': None, 'togerr': None}


def hist_apply(st, op):
    kind = op[0]
    if kind == 'env':
        st[op[1]] = op[2] if op[1] == 'TERM' else op[2] is not None
    elif kind == 'tty':
        st['out'] = st['err'] = op[1]
    elif kind in ('tty-out', 'tty-err'):
        st[kind[4:]] = op[1]
    elif kind == 'enable':
        st[op[1]] = op[2]


def hist_enabled(st, policy):
    """the documented priority (Color docstring): explicit > NO_COLOR > FORCE_COLOR > isatty of the policy's
    stream.  None = the documents leave it open (the library's own default policy when the two streams differ;
    a terminal that TERM declares dumb), transparency is still required"""
    if policy == 'never':
        return False
    if policy == 'always':
        return True
    if policy in ('tog', 'togerr') and st[policy] is not None:
        return st[policy]
    if st['NO_COLOR']:
        return False
    if st['FORCE_COLOR']:
        return True
    if policy == 'lib':
        if st['out'] != st['err']:
            return None
        tty = st['out']
    else:
        tty = st['err' if policy in ('errp', 'togerr') else 'out']
    if tty and st['TERM'] in ('dumb', 'emacs'):
        return None
    return tty


def op_text(op):
    if op[0] == 'render':           # the entry points each render runs are in the witness
        n = f'{len(op[2])} entry points'
        return f'render {n} with color={op[1]}' if op[1] != 'lib' else f'render {n} with the default colour'
    if op[0] == 'env':
        return f'del {op[1]}' if op[2] is None else f'{op[1]}={op[2]}'
    if op[0] == 'enable':
        return f'{op[1]}.enable({op[2]})'
    return f'{op[0]}={op[1]}'


def history_text(h, upto=None):
    i = h['init']
    env = ','.join(f'{k}={v}' for k, v in i.items() if v not in (None, False)) or 'clean environment, no tty'
    ops = h['ops'] if upto is None else h['ops'][:upto + 1]
    return f'[{env}] ' + ' ; '.join(op_text(o) for o in ops)


def hist_reference(mat, ref, entry):
    """(reference text, group) of one output name"""
    base = entry.split(':')[0]
    if base in ('render', 'str', 'memento'):
        return ref['render'][0], 'render'
    if base in ('render-fresh', 'str-fresh'):
        return ref['fresh'][0], 'render'
    if base == 'perr':
        return ref['perr'][0], 'perr'
    if base == 'trace':
        return ref['trace'][0], 'trace'
    if base.startswith('style'):
        return expected_text(mat['style']), 'style'
    return mat['plain'], 'markup'


def check_refs(acc, mat, ref):
    """the colourless references themselves (first renderings of a process); False = unusable"""
    wit = {'kind': 'history', 'hist': {'init': dict(M.ENVS[0]), 'ops': [['render', 'never', ['render', 'trace']]]},
           'mat': mat, 'origin': 'references'}
    for key in ('render', 'fresh', 'perr', 'trace'):
        out, err = ref[key]
        acc.evaluations += 1
        if err is not None or out is None:
            acc.violation(f'history/{key}/exception:' + str(err).split(':')[0],
                          f'colourless {key} rendering of the history material raised {err}', wit)
            return False
        if M.ESC in out:
            acc.violation(f'history/{key}/off/leak', f'colourless {key} rendering (first rendering of a process) '
                                                     f'contains escapes: {out!r}', wit)
            return False
    first, _, rest = mat['perr']['msg'].partition('\n')
    if not (first in ref['perr'][0] and ref['perr'][0].endswith(rest)):
        acc.violation('history/perr/off/text', f'colourless str({mat["perr"]["kind"]}) {ref["perr"][0]!r} does not carry '
                                               f'the message {mat["perr"]["msg"]!r}', wit)
        return False
    return True


DYNAMIC = ('dflt', 'errp', 'tog', 'togerr', 'lib')


def check_step(acc, h, k, outs, mat, ref, origin):
    """the oracle applied to step k of a history (every step of every history goes through here): the state of
    the policy the step names is computed from the operations before it by the documented rules"""
    from tatsu.util.tty import descape
    ops = h['ops']
    st = hist_state(h['init'])
    seen = {}                           # policy -> documented state at its previous render in this history
    was_off, was_on = set(), set()      # dynamic policies that rendered disabled / enabled before this step
    for op in ops[:k]:
        if op[0] != 'render':
            hist_apply(st, op)
            continue
        e = hist_enabled(st, op[1])
        seen[op[1]] = e
        if op[1] in DYNAMIC and e is not None:
            (was_on if e else was_off).add(op[1])
    policy = ops[k][1]
    enabled = hist_enabled(st, policy)
    onoff = {True: 'on', False: 'off', None: 'open'}[enabled]
    acc.count('history_render_steps')
    acc.count(f'history_policy:{policy}:{onoff}')
    if seen.get(policy) is not None and enabled is not None and seen[policy] != enabled:
        acc.count('history_steps_after_own_policy_flipped')
    where = 'tree' if 'tree' in origin else 'sampled'
    if enabled is False and any(hist_enabled(st, q) is True for q in was_off if q != policy):
        acc.count('history_off_steps_after_other_policy_went_off_to_on')
        acc.count(f'history_{where}_off_steps_after_other_policy_went_off_to_on')
    if enabled is True and any(hist_enabled(st, q) is False for q in was_on if q != policy):
        acc.count('history_on_steps_after_other_policy_went_on_to_off')
        acc.count(f'history_{where}_on_steps_after_other_policy_went_on_to_off')
    escaped = False
    for name, out, err in outs:
        want, group = hist_reference(mat, ref, name)
        acc.evaluations += 1
        acc.count('history_outputs_checked')
        acc.count('history_entry:' + name.split(':')[0])

        def bad(kind, detail):
            entries = list(dict.fromkeys(n.split(':')[0] for n, _o, _e in outs))
            wops = [list(o) for o in ops[:k]] + [['render', policy, entries]]
            wit = {'kind': 'history', 'hist': {'init': h['init'], 'ops': wops}, 'mat': mat, 'origin': origin}
            acc.violation(f'history/{group}/{onoff}/{kind}',
                          f'step {k + 1} of the history {history_text({"init": h["init"], "ops": wops})}: {name} '
                          f'(policy {policy}: by the documented rules {onoff} at this step) {detail}', wit)

        if err is not None:
            bad('exception:' + err.split(':')[0].split(' ')[0], f'raised {err}')
            continue
        has_esc = M.ESC in out
        if enabled is False:
            acc.count('history_outputs_colour_off')
            if has_esc:
                bad('leak', f'has escape sequences although colour is disabled: {out!r}')
                continue
            if out != want:
                bad('text', f'= {out!r} differs from the colourless text {want!r}')
                continue
        elif enabled is None:
            acc.count('history_outputs_policy_open')
        got = descape(out)
        mine, _n = M.strip_sgr(out)
        if got != want or mine != want:
            kind = 'malformed' if mine is None and got == want else 'text'
            bad(kind, f'de-escapes to {got!r} (independent: {mine!r}), the colourless text is {want!r}')
            continue
        if has_esc:
            acc.count('history_outputs_with_escapes')
            escaped = True
    if escaped:
        acc.nontriv('history', h['init'], ops[:k], policy, sorted(n for n, _o, _e in outs), mat['src'],
                    mat['style']['text'])


def run_history_job(acc, mats, hists, trees, tag, own_process=False):
    """own_process: a new process is the root of the histories (replay); otherwise THIS process is, and the
    caller guarantees that it has not rendered anything yet"""
    job = {'materials': mats, 'histories': [{'mi': h['mi'], 'init': h['init'], 'ops': h['ops']} for h in hists],
           'trees': trees}
    if own_process:
        out = exec_child(acc, job, dict(M.ENVS[0]), tag)
    else:
        scratch = os.environ.get('VT_SCRATCH') or '/tmp'
        out = M.history_collect(job, os.path.join(scratch, f'{tag}.{os.getpid()}.nodes'))
    if not out['usable']:
        raise RuntimeError('C20 histories: none of the generated sources failed to parse')
    if len(out['hist']) != len(hists) or len(out['tree_mi']) != len(trees):
        raise RuntimeError('C20 histories: the history process answered for a different number of histories')
    acc.count('history_root_processes')
    refs_ok = {}
    for mi in out['usable']:
        refs_ok[mi] = check_refs(acc, mats[mi], out['refs'][str(mi)])
    out['refs_ok'] = refs_ok
    return out


def tree_units(tier):
    """(initial environment, first operation) pairs: the subtrees the shards share out"""
    n_alpha = len(H_STATE_OPS) + len(H_COARSE_POLICIES)
    return [(ei, a, tier != 'quick' or (ii + a) % 3 == 0) for ii, ei in enumerate(H_INITS[tier]) for a in range(n_alpha)]


def expected_tree_nodes(n_alpha, n_render, maxlen):
    """render nodes below ONE first operation"""
    return sum(n_alpha ** (length - 2) * n_render for length in range(2, maxlen + 1))


def run_histories(acc, desc):
    seed, shard, of, tier = desc['seed'], desc['shard'], desc['of'], desc['tier']
    mats = history_materials(random.Random(h64(ID, seed, shard, 'hist-materials')))
    alphabet = [list(o) for o in H_STATE_OPS] + [['render', p] for p in H_COARSE_POLICIES]
    trees = []
    for u, (ei, a, heavy) in enumerate(tree_units(tier)):
        if u % of == shard:
            trees.append({'mi': u // of, 'init': dict(M.ENVS[ei]), 'alphabet': alphabet, 'maxlen': H_ENUM_LEN,
                          'first': [a], 'heavy': heavy})
    hists = []
    for i in range(desc.get('n_hist', 0)):
        rng = random.Random(h64(ID, seed, shard, 'hist', i))
        init, ops = sampled_history(rng)
        hists.append({'mi': rng.randrange(H_MATERIALS), 'init': init, 'ops': ops, 'n': i})
    if not hists and not trees:
        return
    out = run_history_job(acc, mats, hists, trees, 'hist')
    # the enumerated tree: one line per render node, judged as the last step of the path that leads to it
    per_tree = [0] * len(trees)
    for node in out['nodes']:
        t, path = node['t'], node['path']
        tree = trees[t]
        h = {'init': tree['init'],
             'ops': [[*alphabet[a], M.tree_entries(alphabet[a][1], path[:j + 1], t, tree['heavy'])] if alphabet[a][0] == 'render'
                     else alphabet[a] for j, a in enumerate(path)]}
        if 'crash' in node:
            raise RuntimeError(f'C20 history process crashed (status {node["crash"]}) at {history_text(h)}')
        mi = out['tree_mi'][t]
        per_tree[t] += 1
        acc.count('history_tree_nodes')
        acc.count(f'history_tree_nodes_len:{len(path)}')
        if out['refs_ok'][mi]:
            check_step(acc, h, len(path) - 1, node['outs'], mats[mi], out['refs'][str(mi)],
                       {'shard': shard, 'tree': t, 'path': path})
    n_alpha, n_render = len(alphabet), len(H_COARSE_POLICIES)
    for t, tree in enumerate(trees):
        first_is_render = alphabet[tree['first'][0]][0] == 'render'
        want = expected_tree_nodes(n_alpha, n_render, H_ENUM_LEN) + (1 if first_is_render else 0)
        if per_tree[t] != want:
            raise RuntimeError(f'C20 history tree {t}: {per_tree[t]} render nodes answered, {want} enumerated')
        acc.count('history_trees_complete')
    # sampled longer histories: every render step
    for h, res in zip(hists, out['hist']):
        if 'crash' in res:
            raise RuntimeError(f'C20 history process crashed on {history_text(h)}: {res["crash"]} {res.get("tb", "")}')
        mi = res['mi']
        acc.count('histories_sampled')
        acc.count(f'histories_sampled_len:{len(h["ops"])}')
        if not out['refs_ok'][mi]:
            continue
        for k, (op, outs) in enumerate(zip(h['ops'], res['ok'])):
            if op[0] == 'render':
                check_step(acc, h, k, outs, mats[mi], out['refs'][str(mi)], {'shard': shard, 'n': h['n']})
    if shard == 0 and hists:
        acc.sample({'history': history_text(hists[-1])})


# ------------------------------------------------------------------------------- child processes

def run_child(acc, desc, k):
    seed, shard = desc['seed'], desc['shard']
    env_cfg = dict(M.ENVS[(shard * desc['n_child'] + k + seed) % len(M.ENVS)])
    rng = random.Random(h64(ID, seed, shard, 'child', k))
    job = {'styles': [M.gen_case(rng, mode=rng.choice(['env', 'env', 'env', 'always', 'never']))
                      for _ in range(desc['child_styles'])],
           'failures': [], 'perrs': [], 'markup': []}
    for c in job['styles']:
        if c['mode'] == 'env':
            c['env'] = env_cfg
    for _ in range(12):
        gi = rng.randrange(len(M.GRAMMARS))
        job['failures'].append({'gi': gi, 'src': M.gen_source(rng, gi), 'filename': gen_filename(rng),
                                'semmsg': gen_msg(rng)})
    for _ in range(12):
        job['perrs'].append({'kind': rng.choice(['ParseError', 'GrammarError']), 'msg': gen_perr_msg(rng)})
    pairs = [M.gen_markup(rng) for _ in range(12)]
    job['markup'] = [p[0] for p in pairs]
    out = exec_child(acc, job, env_cfg, f'c{k}')
    if out is None:
        return
    enabled = env_enabled({**env_cfg, 'tty': out['isatty'][0]})
    enabled_err = env_enabled({**env_cfg, 'tty': out['isatty'][1]})
    acc.count('child_processes')
    acc.count('child_env:' + ('N' if env_cfg['NO_COLOR'] else '-') + ('F' if env_cfg['FORCE_COLOR'] else '-')
              + ('T' if out['isatty'][0] else '-'))
    if env_cfg['tty'] and out['isatty'][0]:
        acc.count('child_tty_processes')
    before = acc.counters.get('outputs_checked', 0) + acc.counters.get('render_outputs_checked', 0) \
        + acc.counters.get('perr_outputs_checked', 0) + acc.counters.get('markup_outputs_checked', 0)
    origin = {'shard': shard, 'child': k, 'env': env_cfg, 'isatty': out['isatty']}
    for case, obs in zip(job['styles'], out['styles']):
        case = dict(case)
        if case['mode'] == 'env':
            case['env'] = {**env_cfg, 'tty': out['isatty'][0]}
        check_style(acc, case, obs, origin)
    for f, res in zip(job['failures'], out['failures']):
        check_failure(acc, f, res, [], origin, child_enabled=enabled_err)
    for p, (s, err) in zip(job['perrs'], out['perrs']):
        wit = {'kind': 'perr', 'cls': p['kind'], 'msg': p['msg'], 'envs': [{**env_cfg, 'tty': out['isatty'][1]}],
               'origin': origin}
        first, _, rest = p['msg'].partition('\n')
        acc.count('parse_error_strs')
        if err is None and s is not None:
            got, _n = M.strip_sgr(s)
            # reference: the message itself must survive; compare the coloured form with its own de-escaped form
            ref = got if got is not None else s
            if not (first in ref and ref.endswith(rest)):
                acc.violation('perr/child/text', f'str({p["kind"]}({p["msg"]!r})) = {s!r} does not carry the message',
                              wit)
                continue
            check_render(acc, f'str({p["kind"]}({p["msg"]!r})) in child', ref, 'str', s, None, enabled_err, wit, 'perr')
        else:
            check_render(acc, f'str({p["kind"]}(...)) in child', '', 'str', s, err or 'no output', enabled_err, wit,
                         'perr')
    for (src, plain), (on, off, err) in zip(pairs, out['markup']):
        wit = {'kind': 'markup', 'src': src, 'plain': plain, 'env': env_cfg, 'origin': origin}
        check_render(acc, f'markup({src!r}) in child', plain, 'default', on, err, enabled, wit, 'markup')
        check_render(acc, f'markup({src!r}) in child', plain, 'never', off, err, False, wit, 'markup')
    after = acc.counters.get('outputs_checked', 0) + acc.counters.get('render_outputs_checked', 0) \
        + acc.counters.get('perr_outputs_checked', 0) + acc.counters.get('markup_outputs_checked', 0)
    acc.count('child_outputs_checked', after - before)


def exec_child(acc, job, env_cfg, tag):
    scratch = os.environ.get('VT_SCRATCH') or '/tmp'
    infile = os.path.join(scratch, f'{tag}.in.json')
    outfile = os.path.join(scratch, f'{tag}.out.json')
    with open(infile, 'w') as f:
        json.dump(job, f)
    env = dict(os.environ)
    for kname in ('NO_COLOR', 'FORCE_COLOR'):
        env.pop(kname, None)
        if env_cfg.get(kname) is not None:
            env[kname] = env_cfg[kname]
    master = slave = None
    stdout = stderr = subprocess.PIPE
    if env_cfg.get('tty'):
        try:
            import pty
            master, slave = pty.openpty()
            stdout = stderr = slave
        except Exception as e:  # noqa: BLE001
            acc.note(f'pty unavailable ({type(e).__name__}); tty child run with pipes')
            acc.count('child_pty_unavailable')
    try:
        p = subprocess.run([sys.executable, '-m', 'vt.monitors.c20_style', infile, outfile],
                           stdin=subprocess.DEVNULL, stdout=stdout, stderr=stderr, env=env, timeout=300)
    except subprocess.TimeoutExpired:
        raise RuntimeError('C20 child process timed out') from None
    finally:
        for fd in (master, slave):
            if fd is not None:
                os.close(fd)
    if not os.path.exists(outfile):
        err = p.stderr.decode('utf-8', 'replace')[-1500:] if isinstance(p.stderr, bytes) else ''
        raise RuntimeError(f'C20 child process produced no result (rc={p.returncode}): {err}')
    with open(outfile) as f:
        return json.load(f)


# ------------------------------------------------------------------------------- replay

def replay(w, acc):
    kind = w.get('kind')
    if kind == 'style':
        run_style_case(acc, w['case'], {'mode': 'replay'})
    elif kind == 'lineage':
        run_lineage(acc, w['walk'], {'mode': 'replay'})
    elif kind == 'failure':
        f = w['f']
        envs = w.get('envs') or []
        o = w.get('origin') or {}
        if not envs and isinstance(o.get('env'), dict):      # found in a child process: emulate its configuration
            envs = [{**o['env'], 'tty': bool((o.get('isatty') or [False, False])[1])}]
        res = M.observe_failure(f['gi'], f['src'], f['filename'], f['semmsg'], envs)
        check_failure(acc, f, res, envs, {'mode': 'replay'})
    elif kind == 'perr':
        envs = w.get('envs') or [dict(e) for e in M.ENVS]
        if len(envs) < 2:
            envs = [dict(e) for e in M.ENVS]
        res = M.observe_parse_error(w['cls'], w['msg'], envs)
        check_parse_error(acc, w['cls'], w['msg'], res, envs, {'mode': 'replay'})
    elif kind == 'markup':
        env = w.get('env') or dict(M.ENVS[0])
        res = M.observe_markup(w['src'], env)
        check_markup(acc, w['src'], w['plain'], res, env, {'mode': 'replay'})
    elif kind == 'history':
        h = dict(w['hist'])
        h['mi'] = 0
        out = run_history_job(acc, [w['mat']], [h], [], 'replay-hist', own_process=True)
        res = out['hist'][0]
        if 'crash' in res:
            raise RuntimeError(f'C20 history process crashed: {res["crash"]}')
        for k, (op, outs) in enumerate(zip(h['ops'], res['ok'])):
            if op[0] == 'render' and out['refs_ok'][0]:
                check_step(acc, h, k, outs, w['mat'], out['refs']['0'], {'mode': 'replay'})


MANIFEST = {
    'technique': 'runtime monitoring: reference-output oracle (python format() + independent SGR stripper) and metamorphic '
                 'comparison of coloured vs colourless renderings over seeded executions of the real ztyle/exception code, '
                 'including child processes with real NO_COLOR/FORCE_COLOR/pty configurations, and over histories of '
                 'render operations and colour-policy changes inside one process (exhaustive tree of short histories, '
                 'one forked process state per node; sampled longer ones), every step judged',
    'level_text': 'every seeded (text, attributes, spec, colour policy, construction route) case is executed through all '
                  'documented entry points of the real Style and each output is reduced with the library descape and an '
                  'independent stripper and compared with format(text, spec); len/visual_len, colour-off exactness and '
                  'the repr/from_raw round trip are checked per case; a stored spec is overridden by a different explicit one '
                  'through every explicit-spec entry point; seeded lineages of builder calls with interleaved '
                  'observations are judged style by style against the folded attributes; real parse failures and ParseError messages are '
                  'rendered under every policy and compared with their colourless rendering; histories of render operations '
                  'and colour-policy changes inside one not-yet-rendering process are enumerated as a tree up to length 3 '
                  '(each node in its own forked copy) and sampled beyond, every step judged by the policy state the '
                  'documented rules give for that step; exploration is the right '
                  'level because the property quantifies over an unbounded text x spec x attribute space',
    'level_note': 'trusted: python str.__format__, the 30-line independent stripper, unicodedata categories used to '
                  'classify texts, the in-process tty/env emulation (cross-checked by real child processes); '
                  'held = no disagreement on the executions listed in the evidence, not a proof',
}
