"""C15 -- the shipped bootstrap parser agrees with the shipped TatSu grammar.

Oracle: 4-way differential over grammar TEXTS (DESIGN.md section 3/C15) between
  A  tatsu/boot/bootstrap.py, the checked-in generated parser, as tatsu.compile drives it,
  B  tatsu/boot/bootparser.py:GRAMMAR_MODEL, the checked-in grammar model, through its own front end,
  C  tatsu.compile(<tatsu/_tatsu.ebnf>), the grammar file interpreted,
  D  a parser regenerated now from the grammar file with the real code generator and exec'd,
every one with a fresh GrammarSemantics, so each yields a grammar model (or refuses the text).
Compared: accepted / not accepted, and for accepted texts `asjson()` of the models (plus `pretty()` and
`repr()` as further projections).  Production coverage is measured with a semantics probe on route C.
"""
from __future__ import annotations

import json
import os
import random

from ..common import REPO, h64
from ..monitors import c15_texts as T
from ..monitors.c15_routes import ROUTES, Routes

ID = 'C15'
LEVEL = 'translation_validation'

# rule names of tatsu/_tatsu.ebnf (the workload is written against these; a shard checks that the grammar file
# has no rule outside this list -- otherwise the run is inconclusive until the workload learns the new production)
RULES = ['start', 'grammar', 'directive', 'keywords', 'keyword', 'params', 'first_param', 'kwparams',
         'the_params_at_last', 'paramdef', 'rule', 'ENDRULE', 'DEDENT', 'BLANK', 'EOL', 'decorator', 'pair', 'expre',
         'choice', 'option', 'sequence', 'element', 'rule_include', 'named', 'named_list', 'named_single', 'override',
         'override_list', 'override_single', 'term', 'group', 'skip', 'gather', 'positive_gather', 'normal_gather',
         'join', 'positive_join', 'normal_join', 'left_join', 'right_join', 'positive_closure', 'closure',
         'empty_closure', 'optional', 'lookahead', 'negative_lookahead', 'skip_to', 'atom', 'meta', 'call', 'void',
         'fail', 'cut', 'cut_deprecated', 'known_name', 'name', 'constant', 'alert', 'token', 'literal', 'string',
         'singlequoted', 'doublequoted', 'raw_string', 'STRING', 'SINGLEQUOTED', 'DOUBLEQUOTED', 'multiline_string',
         'hex', 'float', 'int', 'path', 'word', 'dot', 'pattern', 'regex', 'REGEX', 'deprecated_regex', 'boolean',
         'none', 'eof', 'eol', 'value', 'number', 'true', 'false', 'null']

# Productions that no grammar text can make succeed from `start`:
#   fail, keywords, name, paramdef, the_params_at_last -- not called from any rule reachable from start
#       (paramdef / the_params_at_last are textually included with `>`, never called);
#   hex -- shadowed in `literal` by `value`/`word` (number takes the leading 0, \w takes digits);
#   DEDENT -- its lookahead /^\S/ has no (?m) and is never at offset 0, so the rule cannot succeed at all.
# They are driven directly (parse(text, start=<rule>)) on routes A, C and D (B's front end has no start rule);
# a divergence there is not observable on any grammar text and is reported as a note, not as a violation.
FRAGMENTS = {
    'fail': ['!()', '!( )', ' !()', '()', '!'],
    'keywords': ['@@keyword :: a b\n@@keyword :: c', "@@keyword :: ('x' y)", '@@keyword :: if', '@@keyword ::', '@@keywords :: a'],
    'name': ['foo', ' bar_1', 'año', '9x', '-'],
    'paramdef': ['[A]', '(A, b=1)', '::A, 2', '[a::b]', '[k=1, j=null]', '[A', '{A}', '[]'],
    'the_params_at_last': ['A', 'A, b=1', 'k=1', 'a::b, 2, c=3', "'s', 1", '=', 'A,'],
    'hex': ['0x1F', '0Xff', '0x', '1F', '0xG'],
    'DEDENT': ['\nx', '  \nx', '\r\nx', '\n x', 'x', '\n'],
}

RULE = ('programs = grammar texts, each given to the four routes A/B/C/D (fresh GrammarSemantics each); sources: '
        '(1) a fixed sweep of one-construct grammars over every surface form of tatsu/_tatsu.ebnf (rule definition '
        'operators = : ::= :=, terminators ; / blank line / end of text / next-line, every directive and value form, '
        '@@keyword forms, parameter lists in [] () ::, decorators, < base, >include, name=e name:e name+=e name+:e '
        '@:e =e @+:e +=e, closures/optionals in brace and postfix form, gathers and joins with every suffix, '
        '-> & ! ~ >> () {} $ $-> /./ @name.., alerts, constants, strings single/double/raw/triple/escaped, patterns '
        "/../ ?'..' ?\"..\" ?/../?, both comment styles); (2) seeded random grammars of 1-4 rules built from the same "
        'forms with random layout; (3) the grammar files shipped under grammar/, examples/, tatsu/ cut into blank-line '
        'separated chunks, and the ebnf code blocks of docs/*.rst; (4) token- and character-level mutants of (1)-(3) '
        '(mostly invalid); (5) a vocabulary sweep: every token literal (and every word inside a pattern) found in '
        'any of the four artefacts -- bootstrap.py source, GRAMMAR_MODEL, compiled grammar file, regenerated source -- '
        'placed in each of 25 slots of a small grammar (directive name/value, decorator, definition operator, parameter, '
        'prefix/infix/postfix, brace suffix, terminator, constant, ...); literals not shared by all four artefacts get '
        'the complete sweep, the shared ones a 1/8 sample (quick) or all (thorough); (6) texts of (1)-(3) refused only '
        'for calling undefined rules are re-run completed with stub rules; (7) direct-start fragments for the 7 '
        'productions no grammar text reaches. '
        'non-trivial = a text ACCEPTED by at least one route (so models were built and compared); distinct by text')
ASSUMPTIONS = [
    'model equality is equality of Grammar.asjson() (canonical JSON); pretty() and repr() are compared as further '
    'projections of the same models. asjson() leaves parseinfo out by construction, so models are compared modulo '
    'parseinfo: observed on this tree, routes A and B build models WITHOUT parseinfo (the old boilerplate of '
    'bootstrap.py and the front end of bootparser.py let the ParserConfig default parseinfo=False override the '
    "grammar's @@parseinfo :: True) while C and D carry it; the parseinfo facet is recorded in counters "
    '(parseinfo_present:<route>, parseinfo_equal_among_carriers) and is the only difference between the models',
    'accept/reject: a text is accepted when the route returns a model; ParseException and any other exception are '
    'both "not accepted" (a route that crashes where another rejects is counted in nonaccept_kind_differs and noted, '
    'not alarmed: before /repo commit 72a22ea the KeyError of an undefined rule under {..}+ escaped from the generated '
    'parsers A/D but was turned into FailedRef by Call._parse in the models B/C; since then all four raise it); '
    'error classes and positions are counted, not compared',
    'route A is TatSuParserGenerator (what tatsu.compile instantiates), called directly to stay clear of the compile '
    'cache; a sample of texts also goes through tatsu.compile itself (api_sample)',
    'route D uses the model of route C as the input of the code generator (tatsu.to_python_sourcecode(grammar file))',
    'per-production coverage counts parses on route C in which the production succeeded at least once (its '
    'semantic action was looked up and called: probe = a GrammarSemantics whose rule attributes are counted '
    'forwarders); the probe is checked for transparency against a plain GrammarSemantics on a sample',
    'productions fail/keywords/name/paramdef/the_params_at_last (not reachable from start), hex (shadowed in literal) '
    'and DEDENT (can never succeed: /^\\S/ without (?m)) are covered by direct-start fragments on routes A, C, D; for '
    'DEDENT coverage means "a direct-start parse failed inside the rule"',
    'texts with triple quotes keep at most 10 backslashes (the multi-line string regex of the grammar backtracks '
    'exponentially on an unterminated triple quote followed by backslashes; same regex text on every route)',
]

_COVER_FLOOR = 5
FLOORS = {
    'quick': dict({f'cover:{r}': _COVER_FLOOR for r in RULES},
                  **{'programs': 1000, 'accepted_all': 400, 'rejected_all': 500, 'origin:mutant': 300, 'origin:gen': 220,
                     'origin:focused': 100, 'origin:corpus': 200, 'origin:sweep': 120, 'fragments': 300,
                     'grammar_rules_known': 16, 'surface_forms_accepted': 60, 'vocabulary_common': 40,
                     'probe_transparency_checked': 30, 'api_sample': 80, 'whole_files': 1}),
    'thorough': dict({f'cover:{r}': 10 * _COVER_FLOOR for r in RULES},
                     **{'programs': 12000, 'accepted_all': 4000, 'rejected_all': 6000, 'origin:mutant': 4000,
                        'origin:gen': 4800, 'origin:sweep': 1100, 'fragments': 600, 'grammar_rules_known': 64,
                        'whole_files': 3, 'surface_forms_accepted': 60, 'vocabulary_common': 40,
                        'probe_transparency_checked': 400, 'api_sample': 1000}),
}
SHARD_TIMEOUT = {'quick': 5400, 'thorough': 14400}

NSHARDS = {'quick': 16, 'thorough': 64}
N_GEN = {'quick': 28, 'thorough': 150}          # random grammars per shard
MUT_PER = {'quick': 0.5, 'thorough': 0.6}      # mutants per base text (expected)
MAX_CORPUS_LEN = {'quick': 700, 'thorough': 1600}
SWEEP_THIN = {'quick': 8, 'thorough': 1}        # 1/n of the (common token x slot) sweep
WHOLE_FILES = {'quick': ['tatsu/_tatsu.ebnf'],
               'thorough': ['tatsu/_tatsu.ebnf', 'grammar/pretty.tatsu', 'grammar/tatsu.ebnf']}


def plan(tier, seed):
    k = NSHARDS[tier]
    shards = []
    for i in range(k):
        d = {'seed': seed, 'shard': i, 'of': k, 'tier': tier, 'n_gen': N_GEN[tier], 'whole': []}
        shards.append(d)
    # the whole-file fixpoint cases are expensive (3 s per route): spread them, and lighten those shards
    for j, fn in enumerate(WHOLE_FILES[tier]):
        d = shards[(k - 1 - j) % k]
        d['whole'].append(fn)
        d['n_gen'] = max(5, d['n_gen'] - (22 if tier == 'quick' else 40))
    return shards


# ------------------------------------------------------------------ comparison
def partition(values):
    """routes grouped by equal value -> canonical string like 'AB|CD'"""
    groups = {}
    for r in ROUTES:
        if r in values:
            groups.setdefault(values[r], []).append(r)
    return '|'.join(sorted(''.join(g) for g in groups.values()))


def json_diff_path(a, b, path='', owner=''):
    """first difference between two JSON values -> (path, tail): `path` has list indices dropped and node classes
    spelled out (for the description); `tail` names the mechanism: 'ClassA != ClassB' for a node of another class,
    '<Class>.<field>: <what differs>' for a differing attribute"""
    if type(a) is not type(b) or (isinstance(a, dict) and a.get('__class__') != b.get('__class__')):
        d = f'{_cls(a)} != {_cls(b)}'
        both_nodes = isinstance(a, dict) and isinstance(b, dict) and a.get('__class__') and b.get('__class__')
        return f'{path}: {d}', (d if both_nodes else f'{owner}: {d}')
    if isinstance(a, dict):
        ca = a.get('__class__')
        here = f'{path}/{ca}' if ca else path
        for k in sorted(set(a) | set(b)):
            own = f'{ca}.{k}' if ca else (f'{owner}.{k}' if owner else k)
            if k not in a or k not in b:
                return f'{here}.{k}: missing on one side', f'{own}: missing on one side'
            if a[k] != b[k]:
                return json_diff_path(a[k], b[k], f'{here}.{k}', own)
        return None
    if isinstance(a, list):
        if len(a) != len(b):
            return f'{path}[]: length differs', f'{owner}[]: length differs'
        for x, y in zip(a, b):
            if x != y:
                return json_diff_path(x, y, path + '[]', owner + '[]')
        return None
    if a != b:
        return f'{path}: {_cls(a)} value differs', f'{owner}: {_cls(a)} value differs'
    return None


def _strip_parseinfo(v):
    if isinstance(v, dict):
        return {k: _strip_parseinfo(x) for k, x in v.items() if k not in ('parseinfo', '__parseinfo__')}
    if isinstance(v, list):
        return [_strip_parseinfo(x) for x in v]
    return v


def _cls(v):
    if isinstance(v, dict):
        return v.get('__class__') or 'dict'
    return type(v).__name__


class Verdict:
    __slots__ = ('facet', 'part', 'sig', 'what')

    def __init__(self, facet, part, sig, what):
        self.facet, self.part, self.sig, self.what = facet, part, sig, what


def judge(res, routes=ROUTES):
    """-> Verdict or None.  `res`: route -> Outcome"""
    res = {r: res[r] for r in routes}
    acc_part = partition({r: o.kind == 'ok' for r, o in res.items()})
    oks = [r for r, o in res.items() if o.kind == 'ok']
    if 0 < len(oks) < len(res):
        rej = [r for r in res if r not in oks]
        o = res[rej[0]]
        where = (o.stack[-1] if o.stack else '-')
        # mechanism = which artefacts take the text and which refuse it (the place where the refusing parser gave up
        # moves with the witness and goes into the description only)
        sig = f"accept/accepted-by:{''.join(oks)}/rejected-by:{''.join(rej)}"
        what = (f"accepted by {''.join(oks)}, not by {''.join(rej)} ({rej[0]}: {o.exc} at {o.pos} in rule "
                f"{where}: {(o.msg or '')[:80]!r})")
        return Verdict('accept', acc_part, sig, what)
    if not oks:
        return None
    for facet, attr in (('model', 'json'), ('pretty', 'pretty'), ('repr', 'rep')):
        part = partition({r: getattr(o, attr) for r, o in res.items()})
        if '|' in part:
            g = part.split('|')
            a, b = res[g[0][0]], res[g[1][0]]
            tail = ''
            if facet == 'model':
                try:
                    d, tail = json_diff_path(json.loads(a.json), json.loads(b.json)) or ('?', '?')
                except ValueError:
                    d = tail = 'asjson failed on one side'
            else:
                d = _first_text_diff(getattr(a, attr), getattr(b, attr))
            # mechanism = the partition and the node class / attribute where the models part
            sig = f'{facet}/{part}/{tail}' if facet == 'model' else f'{facet}/{part}'
            return Verdict(facet, part, sig, f'models differ ({facet}) {part}: {d}')
    return None


def _first_text_diff(a, b):
    a, b = a or '', b or ''
    la, lb = a.split('\n'), b.split('\n')
    for x, y in zip(la, lb):
        if x != y:
            return f'{x.strip()[:60]!r} != {y.strip()[:60]!r}'
    return f'{len(la)} lines != {len(lb)} lines'


# -------------------------------------------------------------------- one case
class Runner:
    def __init__(self, acc, desc=None):
        self.acc = acc
        self.rt = Routes(acc)
        self.desc = desc or {}
        self.ncase = 0
        self.shrinks_left = 2
        unknown = sorted(set(self.rt.rule_names) - set(RULES))
        gone = sorted(set(RULES) - set(self.rt.rule_names))
        if unknown or gone:
            acc.note(f'tatsu/_tatsu.ebnf rules differ from the list this workload was written for: new={unknown} '
                     f'gone={gone}')
        else:
            acc.count('grammar_rules_known')
        reach = self.rt.reachable_rules()
        self.unreachable = sorted(set(self.rt.rule_names) - reach)
        for k, v in self.rt.facts.items():
            acc.note(f'static fact (evidence only): {k} = {v}')
        acc.note(f'rules not reachable from start in the compiled grammar file: {self.unreachable}')

    def observe(self, text):
        probe = self.rt.make_probe()
        res = self.rt.run_all(text, probe)
        return res, probe

    def check(self, text, origin, forms=None, sample=False, depth=0):
        acc = self.acc
        self.ncase += 1
        if self.ncase % 40 == 0:
            self.rt.housekeeping()
        res, probe = self.observe(text)
        acc.evaluations += 4
        acc.count('programs')
        okind = origin.get('kind', '?')
        acc.count('origin:' + okind)
        for name in probe.seen:
            acc.count('cover:' + name)
        kinds = {r: res[r].kind for r in ROUTES}
        nok = sum(1 for k in kinds.values() if k == 'ok')
        if nok:
            acc.nontriv(text)
        if nok == 4:
            acc.count('accepted_all')
            for f in forms or ():
                acc.count('form:' + f)
            self.parseinfo_facet(res)
            if self.ncase % 7 == 0:
                self.transparency(text, res)
        elif nok == 0:
            acc.count('rejected_all')
            if len(set(kinds.values())) > 1:
                acc.count('nonaccept_kind_differs')
                acc.count('disagreements_checked')
                part = partition({r: f'{o.kind}:{o.exc if o.kind == "crash" else ""}' for r, o in res.items()})
                acc.count('nonaccept_kind_differs:' + part)
                acc.note(f'not accepted by any route, but not in the same way ({part}): '
                         f'{ {r: o.brief() for r, o in res.items()} } on {text[:160]!r}')
            elif kinds['A'] == 'crash':
                acc.count('crash_all')
                acc.count('crash_all:' + str(res['A'].exc))
            if len({o.exc for o in res.values()}) == 1:
                acc.count('reject_same_class')
            if len({o.pos for o in res.values()}) == 1:
                acc.count('reject_same_pos')
            acc.count('reject_class:' + str(res['C'].exc))
        if self.ncase % 9 == 0:
            self.api_sample(text, res)
        if sample:
            acc.sample({'origin': origin, 'text': text[:600], 'outcome': {r: res[r].brief() for r in ROUTES},
                        'model': (res['C'].pretty or '')[:300]})
        v = judge(res)
        if v is not None:
            self.report(text, origin, res, v)
            return
        # a text whose only fault is calling rules it does not define (chunks of grammar files, documentation
        # fragments) is refused at the very end, after the whole model was built: give it stub rules and look again
        c = res['C']
        if (nok == 0 and c.exc == 'GrammarError' and okind in ('corpus', 'gen', 'focused') and depth < 2
                and (c.msg or '').startswith('unknown rules')):
            names = [n for n in (c.msg or '').split(':', 1)[-1].split() if n.isidentifier()]
            if names and len(c.msg) >= 200:
                names = names[:-1]      # the message was cut: the last name may be incomplete
            if names:
                stubs = ''.join(f'\n\n{n}: /{n}/' for n in names)
                acc.count('completed_with_stub_rules')
                self.check(text.rstrip('\n') + stubs + '\n', dict(origin, completed=len(names)), forms, depth=depth + 1)

    def parseinfo_facet(self, res):
        acc = self.acc
        carriers = [r for r in ROUTES if res[r].pinfo not in (None, 'unobserved')]
        for r in carriers:
            acc.count('parseinfo_present:' + r)
        for r in ROUTES:
            if res[r].pinfo is None:
                acc.count('parseinfo_absent:' + r)
        if len(carriers) >= 2:
            if len({res[r].pinfo for r in carriers}) == 1:
                acc.count('parseinfo_equal_among_carriers')
            else:
                acc.count('parseinfo_differs_among_carriers')
                acc.note('parseinfo (rule, line, pos, endpos) differs among the routes that carry it: '
                         + partition({r: res[r].pinfo for r in carriers}))

    def transparency(self, text, res):
        plain = self.rt.run_C(text)
        self.acc.count('probe_transparency_checked')
        if plain.kind != res['C'].kind or plain.json != res['C'].json:
            raise RuntimeError(f'coverage probe is not transparent on {text!r}')

    def api_sample(self, text, res):
        o = self.rt.run_api(text)
        self.acc.count('api_sample')
        a = res['A']
        if o.kind != a.kind or (o.kind == 'ok' and o.json != a.json):
            self.acc.count('api_vs_route_A_mismatch')
            self.acc.note(f'tatsu.compile(text) and route A differ on {text[:120]!r}: {o.brief()} vs {a.brief()}')

    # ---------------------------------------------------------------- reporting
    def same_verdict(self, text, v):
        res = self.rt.run_all(text)
        w = judge(res)
        return w is not None and w.facet == v.facet and w.part == v.part, res, w

    def report(self, text, origin, res, v):
        acc = self.acc
        acc.count('disagreements_checked')
        again, res2, w = self.same_verdict(text, v)
        if not again:
            acc.violation(f'flaky/{v.facet}', f'outcome of the four routes is not reproducible on {text[:200]!r}: '
                          f'first {v.what}; then {w.what if w else "agreement"}',
                          {'text': text, 'origin': origin})
            return
        small = text
        if self.shrinks_left > 0 and len(text) > 12:
            self.shrinks_left -= 1
            small = self.shrink(text, v)
        if small != text:
            _, res, w = self.same_verdict(small, v)
            v = w or v
        acc.violation(v.sig, f'routes disagree on grammar text {small[:300]!r}: {v.what}; outcomes '
                      f'{ {r: res[r].brief() for r in ROUTES} }',
                      {'text': small, 'origin': origin, 'original_text': text if small != text else None,
                       'outcomes': {r: res[r].brief() for r in ROUTES},
                       'pretty': {r: (res[r].pretty or '')[:400] for r in ROUTES if res[r].kind == 'ok'}})

    def shrink(self, text, v, budget=36):
        """greedy token deletion keeping the same facet and partition"""
        toks = T.lex(text)
        evals = 0

        def holds(ts):
            nonlocal evals
            evals += 1
            ok, _, _ = self.same_verdict(''.join(ts), v)
            return ok

        n = max(1, len(toks) // 2)
        while n >= 1 and evals < budget:
            i = 0
            changed = False
            while i < len(toks) and evals < budget:
                cand = toks[:i] + toks[i + n:]
                if cand and holds(cand):
                    toks = cand
                    changed = True
                else:
                    i += n
            if not changed or n == 1:
                n //= 2
        return ''.join(toks)

    # --------------------------------------------------------- vocabulary sweep
    def vocabulary_sweep(self, desc):
        """every token literal known to any of the four artefacts, placed in every slot of a grammar text;
        tokens not known to ALL artefacts (where drift shows) get the complete sweep in every tier"""
        acc = self.acc
        k, of, tier = desc['shard'], desc['of'], desc['tier']
        try:
            common, suspect, suspect_patterns = self.rt.vocabulary()
        except Exception as e:  # noqa: BLE001
            acc.note(f'vocabulary harvest unobserved: {type(e).__name__}: {e}')
            return
        acc.peak('vocabulary_common', len(common))
        acc.peak('vocabulary_suspect', len(suspect))
        if suspect or suspect_patterns:
            acc.note(f'token/pattern literals not shared by all four artefacts (workload guidance): tokens={suspect[:20]} '
                     f'patterns={suspect_patterns[:6]}')
        thin = SWEEP_THIN[tier]
        n = 0
        for v in suspect:
            for tag, text in T.sweep(v):
                n += 1
                if n % of == k:
                    acc.count('sweep_suspect')
                    self.check(text, {'kind': 'sweep', 'token': v, 'slot': tag, 'suspect': True})
        for v in common:
            for tag, text in T.sweep(v):
                if h64('sweep', v, tag) % (of * thin) == k:
                    self.check(text, {'kind': 'sweep', 'token': v, 'slot': tag})

    # ---------------------------------------------------------------- fragments
    def fragment(self, rule, text):
        acc = self.acc
        probe = self.rt.make_probe()
        routes = ('A', 'C', 'D')
        res = {r: self.rt.run_rule(r, text, rule, probe if r == 'C' else None) for r in routes}
        acc.evaluations += 3
        acc.count('fragments')
        for o in res.values():      # fragments yield ASTs, which carry parseinfo inline: compare modulo parseinfo
            o.rep = o.pretty = None   # (ASTs and plain values: asjson is the one projection compared)
            if o.kind == 'ok' and o.json and 'parseinfo' in o.json:
                try:
                    o.json = json.dumps(_strip_parseinfo(json.loads(o.json)), sort_keys=True)
                except ValueError:
                    pass
        c = res['C']
        # started directly, an accepted parse IS a success of the production (the `name` production has no
        # countable action: GrammarSemantics.name is a data attribute)
        if c.kind == 'ok' or probe.seen.get(rule) or (c.kind == 'reject' and c.stack and c.stack[-1] == rule):
            acc.count('cover:' + rule)
        if c.kind == 'ok':
            acc.count('fragments_accepted')
        v = judge(res, routes)
        if v is not None:
            acc.count('fragment_divergences')
            acc.count('disagreements_checked')
            acc.note(f'direct-start fragment {text!r} (start={rule}) diverges: {v.what} -- not observable on any '
                     f'grammar text (production not reachable/succeeding from start), reported as a note')


# ----------------------------------------------------------------------- shard
def base_texts(desc):
    """the deterministic part of a shard's workload: (text, origin, forms)"""
    k, of, tier = desc['shard'], desc['of'], desc['tier']
    out = []
    for i, (text, tag) in enumerate(T.FOCUSED):
        if i % of == k:
            out.append((text, {'kind': 'focused', 'form': tag}, ['focused:' + tag]))
    for i, (o, text) in enumerate(T.corpus(REPO)):
        if i % of == k and len(text) <= MAX_CORPUS_LEN[tier]:
            out.append((text, {'kind': 'corpus', 'source': o}, None))
    return out


def run_shard(desc, acc):
    run = Runner(acc, desc)
    seed, k, tier = desc['seed'], desc['shard'], desc['tier']
    # fragments for the productions grammar texts cannot reach (cheap; every shard does all of them)
    if k % 2 == 0 or tier == 'quick':
        for rule, texts in FRAGMENTS.items():
            for t in texts:
                run.fragment(rule, t)
    run.vocabulary_sweep(desc)
    bases = base_texts(desc)
    for j, (text, origin, forms) in enumerate(bases):
        run.check(text, origin, forms, sample=(j == 0 and k < 2))
    # random grammars
    gen = []
    for i in range(desc['n_gen']):
        rng = random.Random(h64(ID, seed, k, 'gen', i))
        text, forms = T.gen_text(rng)
        gen.append(text)
        run.check(text, {'kind': 'gen', 'shard': k, 'i': i}, forms, sample=(i == 0 and k in (2, 3)))
    # mutants of everything above
    pool = [b[0] for b in bases] + gen
    for i, base in enumerate(pool):
        rng = random.Random(h64(ID, seed, k, 'mut', i))
        n = 0
        p = MUT_PER[tier]
        while rng.random() < p and n < 3:
            n += 1
            p *= 0.5
            text, kind = T.mutate(rng, base)
            if text == base:
                continue
            acc.count('mutation:' + kind.split('+')[0])
            run.check(text, {'kind': 'mutant', 'mutation': kind, 'shard': k, 'i': i},
                      sample=(i == 1 and k in (4, 5)))
    for fn in desc.get('whole', []):
        path = os.path.join(REPO, fn)
        try:
            with open(path, encoding='utf-8') as f:
                text = f.read()
        except OSError as e:
            acc.note(f'whole file {fn} unreadable: {e}')
            continue
        acc.count('whole_files')
        run.check(T.safe(text), {'kind': 'whole-file', 'source': fn})
    forms_ok = sum(1 for c in acc.counters if c.startswith('form:'))
    acc.peak('surface_forms_accepted', forms_ok)


PEAK_COUNTERS = ('surface_forms_accepted', 'vocabulary_common', 'vocabulary_suspect')


def extra_coverage(counters, tier):
    """distinct surface forms seen in accepted texts, over all shards (the per-shard peak undercounts)"""
    return {'surface_forms_accepted_distinct': sum(1 for c in counters if c.startswith('form:')),
            'productions_covered': sum(1 for r in RULES if counters.get('cover:' + r, 0) > 0),
            'productions_total': len(RULES)}


def replay(w, acc):
    run = Runner(acc)
    run.shrinks_left = 0
    run.check(w['text'], w.get('origin') or {'kind': 'replay'})


MANIFEST = {
    'technique': 'runtime monitoring: 4-way differential execution of the shipped bootstrap parser, the shipped grammar '
                 'model, the compiled grammar file and a freshly regenerated parser on grammar texts, with a semantics '
                 'probe measuring production coverage',
    'level_text': 'each program (grammar text: systematic one-construct sweep over every surface form of _tatsu.ebnf, seeded '
                  'random grammars, shipped grammar files and documentation examples, token/character mutants) is run '
                  'through the four real routes and the accept/reject decisions and asjson()/pretty()/repr() of the '
                  'resulting grammar models are compared pairwise; translation validation is the right level because the '
                  'property relates a source (grammar file) with its checked-in and regenerated translations on a per-input '
                  'basis; every production of the grammar file must be seen succeeding on route C (floors cover:<rule>)',
    'level_note': 'trusted: GrammarSemantics is shared by all routes (a defect there is invisible here), json/repr equality, '
                  'the text generator only proposes inputs; models are compared modulo parseinfo (asjson omits it; routes '
                  'A/B do not carry it on this tree); crash-vs-reject differences are counted, not alarmed; held = no '
                  'disagreement on the texts listed in the evidence, not a proof over all texts',
}
