"""C09 — whitespace, comments, nameguard and case rules are applied uniformly; configuration layers consistently.

Oracles: (1) the layout relation itself (metamorphic, no expected AST): every whitespace/comment run
that was skipped is replaced by another non-empty run drawn from the CONFIGURED definitions and the
AST must not change; runs added at the start of the text / before the end-of-text check are gated by
REF (REF says where a run may be inserted); (2) REF under the whole configuration matrix for the
placement of skipping, nameguard/namechars and ignorecase; (3) layering: every option is set, with
conflicting values, at the directive layer, the parse-time layer and (text route) the compile-time
layer, and REF is given the documented winner.  DESIGN.md section 3/C09.
"""
from __future__ import annotations

import random
import re

from .. import gen as G
from .. import lang as L
from .. import refdiff as D
from ..common import h64
from ..ref import DEFAULT_WS, ref_run
from ..shrink import kind_sig
from ..tsu import WRAP_START, run_wrapped, wrapped

ID = 'C09'
LEVEL = 'exploration'
RULE = ('cases = (grammar whose patterns match no whitespace (no /./, ->, $->, look-behind), configuration, input): configuration matrix '
        '{whitespace default / [ \\t]+ / [ ]+ / empty} x {nameguard unset/on/off} x {namechars} x {ignorecase} x {block and eol comments}, each '
        'option delivered as directive, as parse-time setting, or both with conflicting values (and, on the text route, as compile-time setting); '
        'inputs derivation-guided with name characters glued to tokens and case variants; every accepted input is re-laid-out 3 times; '
        'non-trivial = accepted input containing at least one skipped run that was rewritten, or a nameguard/ignorecase decision point '
        '(token followed by a name character, token in another case); distinct by (grammar text, configuration, input)')
ASSUMPTIONS = [
    'REF (vt/ref.py) places skipping before tokens, lower-case rule entry, constants, void, fail, alert and end-of-text only',
    'layout rewriting replaces exactly the runs REF skipped (non-empty by non-empty, drawn from the configured definitions); eol comments are '
    'followed by a line break that the configured whitespace skips',
    'documented layering: defaults < compile-time settings < directives < parse-time settings',
]
FLOORS = {
    'quick': {'layouts_checked': 10000, 'runs_rewritten': 4000, 'ref_compared': 9000, 'layer:directive': 1300, 'layer:parse': 1300,
              'layer:conflict': 400, 'layer:compile': 150, 'nameguard_decisions': 1200, 'ignorecase_token_matches': 150,
              'ws:default': 800, 'ws:regex': 400, 'ws:empty': 200, 'comment_runs': 1300, 'added_leading': 6000, 'added_trailing': 6000, 'reused_parser_checked': 3000, 'skipto_family': 200, 'skipto_family_with_comments': 80},
    'thorough': {'layouts_checked': 250000, 'runs_rewritten': 90000, 'ref_compared': 200000},
}
N = {'quick': 3000, 'thorough': 72000}

WS_CHOICES = [None, r'[ \t]+', r'[ ]+', '']
BLOCK = r'\(\*(?:.|\n)*?\*\)'
EOLC = r'#[^\n]*'


def plan(tier, seed):
    k = 16 if tier == 'quick' else 64
    return [{'seed': seed, 'shard': i, 'n': N[tier] // k, 'tier': tier} for i in range(k)]


def gen_config(rng):
    """-> (directives, parse_settings, compile_settings, effective) with independent, possibly conflicting layers"""
    opts = {
        'whitespace': [r'[ \t]+', r'[ ]+', '', DEFAULT_WS],
        'nameguard': [True, False],
        'namechars': ['-', '_$'],
        'ignorecase': [True, False],
        'comments': [BLOCK],
        'eol_comments': [EOLC],
    }
    directives, parse, comp = {}, {}, {}
    for name, values in opts.items():
        p = rng.random()
        if p < 0.45:
            continue
        if p < 0.65:
            directives[name] = rng.choice(values)
        elif p < 0.85:
            parse[name] = rng.choice(values)
        else:
            directives[name] = rng.choice(values)
            parse[name] = rng.choice(values)
    if rng.random() < 0.12:
        name = rng.choice(['ignorecase', 'nameguard', 'whitespace', 'eol_comments'])
        comp[name] = rng.choice(opts[name])
    eff = dict(comp)
    eff.update(directives)
    eff.update(parse)
    return directives, parse, comp, eff


def directive_text_values(d):
    out = {}
    for k, v in d.items():
        if isinstance(v, bool):
            out[k] = 'True' if v else 'False'
        else:
            out[k] = v
    return out


def gen_grammar(rng):
    F = dict(G.FEATURES, dot=False, skipto=rng.random() < 0.3, cut=rng.random() < 0.2, fail=False, skipgroup=rng.random() < 0.3)
    g = G.gen_grammar(rng, F, max_rules=4, pats=['a', 'b+', '[ab]', 'c', r'\d+', '[a-c]+'])
    return g


def ws_pieces(eff):
    ws = eff.get('whitespace', DEFAULT_WS)
    if ws == '' or ws is None:
        base = []
    elif ws == DEFAULT_WS:
        base = [' ', '\t', '\n', '\r\n', '\r', '  ', ' \n ']
    elif ws == r'[ \t]+':
        base = [' ', '\t', ' \t ']
    else:
        base = [' ', '  ']
    pieces = list(base)
    nl_ok = ws == DEFAULT_WS
    if eff.get('comments'):
        pieces.append('(* c *)')
        pieces.append('(**)')
        # the text of a comment is never input: tokens, separators and digits of the grammars inside it
        pieces.append('(* a b *)')
        pieces.append('(*a,b c 1*)')
    eol_mid = []
    if eff.get('eol_comments') and nl_ok:
        eol_mid = ['#c\n', '# a b\n', '#b,a 1 c\n']
    return pieces, eol_mid, bool(eff.get('eol_comments'))


def merged_runs(skips, upto):
    ivs = sorted((s, e) for s, e in skips if e <= upto and e > s)
    out = []
    for s, e in ivs:
        if out and s <= out[-1][1]:
            out[-1] = (out[-1][0], max(out[-1][1], e))
        else:
            out.append((s, e))
    return out


def relayout(rng, text, runs, eff):
    """replace every skipped run by another non-empty run of configured whitespace/comments"""
    pieces, eol_mid, has_eol = ws_pieces(eff)
    if not pieces and not eol_mid:
        return None, 0, 0
    out = []
    pos = 0
    comment_runs = 0
    for s, e in runs:
        out.append(text[pos:s])
        k = rng.choice([1, 1, 2, 3])
        run = ''
        for _ in range(k):
            c = rng.choice(pieces + eol_mid) if (pieces or eol_mid) else ' '
            run += c
        if '(*' in run or '#' in run:
            comment_runs += 1
        out.append(run)
        pos = e
    out.append(text[pos:])
    return ''.join(out), len(runs), comment_runs


def build_model(g, start, directives, comp, route):
    gw = wrapped(L.Grammar(list(g.rules), directive_text_values(directives), tuple(g.keywords)), start)
    if route == 'text':
        import tatsu
        return tatsu.compile(L.grammar_text(gw), name='T', **comp)
    return L.to_model(gw, name='T')


def describe(g, directives, parse, comp):
    return f'{L.grammar_text(L.Grammar(list(g.rules), directive_text_values(directives))).strip()!r} parse-time {parse} compile-time {comp}'


def check_case(acc, rng, g, directives, parse, comp, eff, texts, origin):
    start = g.rules[0].name
    route = 'text' if comp else 'object'
    gd = L.Grammar(list(g.rules), {}, tuple(g.keywords))   # REF gets the effective settings explicitly
    w0 = {'grammar': L.to_json(g), 'directives': directives, 'parse': parse, 'compile': comp, 'origin': origin}
    try:
        model = build_model(g, start, directives, comp, route)
    except Exception as e:  # noqa: BLE001
        acc.evaluations += 1
        if comp:
            acc.violation('layering/compile-setting-breaks-compilation:' + '+'.join(sorted(comp)),
                          f'tatsu.compile(grammar, **{comp}) failed with {type(e).__name__}: the compile-time setting was applied to '
                          f'parsing the grammar text: {describe(g, directives, parse, comp)}', dict(w0, text=''))
        else:
            acc.violation('exc:build:' + type(e).__name__, f'building failed: {type(e).__name__}: {e} {describe(g, directives, parse, comp)}',
                          dict(w0, text=''))
        return
    for lay in ('directive', 'parse', 'compile'):
        if {'directive': directives, 'parse': parse, 'compile': comp}[lay]:
            acc.count('layer:' + lay)
    if any(k in parse and directives[k] != parse[k] for k in directives):
        acc.count('layer:conflict')
    ws = eff.get('whitespace', DEFAULT_WS)
    acc.count('ws:default' if ws == DEFAULT_WS else 'ws:empty' if ws == '' else 'ws:regex')
    gen_cls = None
    reused = None
    if not comp:
        try:
            from ..tsu import gen_parser
            gen_cls = gen_parser(L.to_model(L.Grammar(list(g.rules), directive_text_values(directives), tuple(g.keywords)), name='T'))[0]
        except Exception:  # noqa: BLE001 - code generation problems are C02's business
            gen_cls = None
    for text in texts:
        if gen_cls is not None and parse:
            # parse-time settings must not outlive the call on a long-lived parser object
            from ..tsu import outcome
            if reused is None:
                reused = gen_cls()
            outcome(reused.parse, text, **parse)
            r_plain = outcome(reused.parse, text)
            f_plain = outcome(lambda t: gen_cls().parse(t), text)
            acc.evaluations += 1
            acc.count('reused_parser_checked')
            if (r_plain[0], r_plain[1] if r_plain[0] != 'fail' else None) != (f_plain[0], f_plain[1] if f_plain[0] != 'fail' else None):
                acc.violation('settings-leak/reused-parser-object',
                              f'parse-time settings {parse} of an earlier call are still in force on the same generated parser object: '
                              f'{describe(g, directives, {}, {})} input {text!r} FRESH={f_plain} AFTER-EARLIER-CALL={r_plain}',
                              dict(w0, text=text, fresh=f_plain, reused=r_plain))
        a, r = ref_run(gd, text, start, settings=eff, max_steps=20000)
        if a[0] == 'budget':
            acc.count('ref_budget')
            continue
        b = run_wrapped(model, text, budget=D.step_budget(g, text), **parse)
        acc.evaluations += 1
        acc.count('ref_compared')
        tag = D.relation(a, b, bool(r.nonw))
        w = dict(w0, text=text, ref=a, tatsu=b)
        if tag is not None:
            if comp:
                # does the disagreement vanish when the compile-time layer is ignored?  (recorded finding)
                eff2 = dict(directives)
                eff2.update(parse)
                a2, r2 = ref_run(gd, text, start, settings=eff2, max_steps=20000)
                if D.relation(a2, b, bool(r2.nonw)) is None:
                    acc.violation('layering/compile-setting-ignored:' + '+'.join(sorted(comp)),
                                  f'a setting given to tatsu.compile() does not reach the compiled model: {describe(g, directives, parse, comp)} '
                                  f'input {text!r} expected {a} got {b}', w)
                    continue
            if tag == 'ast' and 'open-list-rule-value' in r.triggers:
                acc.count('c01_known_open_list_skipped')
                continue
            acc.violation(f'ref/{tag}/{sorted(eff)}', f'whitespace/nameguard/case handling differs from the documented rules ({tag}): '
                                                      f'{describe(g, directives, parse, comp)} input {text!r} REF={a} TATSU={b}', w)
            continue
        if a[0] != 'ok' or comp:
            continue   # compile-layer cases serve the layering clause only
        # decision-point evidence
        if re.search(r'[abc][A-Za-z0-9_$-]', text):
            acc.count('nameguard_decisions')
        if eff.get('ignorecase') and re.search(r'[ABC]', text[:a[1]]):
            acc.count('ignorecase_token_matches')
        # ---- layout relation on the consumed part
        runs = merged_runs(r.skips, a[1])
        for _ in range(3):
            new, nruns, ncomm = relayout(rng, text, runs, eff)
            if new is None:
                break
            lead = trail = False
            pieces, eol_mid, has_eol = ws_pieces(eff)
            if rng.random() < 0.5 and pieces:
                # adding a run at the start / at the end is gated by REF (it says whether skipping happens there)
                cand = rng.choice(pieces) + new
                a3, r3 = ref_run(gd, cand, start, settings=eff, max_steps=20000)
                if a3[0] == 'ok' and a3[2] == a[2]:
                    new, lead = cand, True
            if rng.random() < 0.5 and (pieces or has_eol):
                tail = rng.choice(pieces + (['#c'] if has_eol else []))
                cand = new + tail
                a3, r3 = ref_run(gd, cand, start, settings=eff, max_steps=20000)
                if a3[0] == 'ok' and a3[2] == a[2]:
                    new, trail = cand, True
            if new == text:
                continue
            b2 = run_wrapped(model, new, budget=D.step_budget(g, new), **parse)
            acc.evaluations += 1
            acc.count('layouts_checked')
            acc.count('runs_rewritten', nruns)
            acc.count('comment_runs', ncomm)
            if lead:
                acc.count('added_leading')
            if trail:
                acc.count('added_trailing')
            if nruns or lead or trail:
                acc.nontriv(L.grammar_text(g), repr(sorted(eff.items())), text)
            if b2[0] != 'ok' or (not r.nonw and b2[2] != b[2]) or (r.nonw and b2[0] != b[0]):
                acc.violation(f'layout/{"+".join(sorted(eff)) or "defaults"}',
                              f'replacing whitespace runs by other runs of configured whitespace/comments changed the result: '
                              f'{describe(g, directives, parse, comp)} ORIGINAL {text!r} -> {b} RELAID {new!r} -> {b2}',
                              dict(w, relaid=new, tatsu2=b2))
                break


def gen_texts(rng, g, eff, n):
    texts = G.gen_inputs(rng, g, g.rules[0].name, n, alphabet='abc ,\t\nABC-_$1')
    out = []
    for t in texts:
        k = rng.random()
        if eff.get('ignorecase') and rng.random() < 0.6:
            t = ''.join(c.upper() if rng.random() < 0.5 else c for c in t)
        elif k < 0.2 and eff.get('ignorecase') is not None:
            t = ''.join(c.upper() if rng.random() < 0.5 else c for c in t)
        elif k < 0.35:
            # glue a name character / namechar / other after a token
            i = rng.randrange(len(t) + 1)
            # (documented nameguard: a token that is a name is not matched when an ALPHANUMERIC character follows - any script)
            t = t[:i] + rng.choice(['x', '1', '-', '_', '$', '.', 'é', 'λ', 'ж', '٣', 'ß', 'ｘ', '²']) + t[i:]
        elif k < 0.45 and eff.get('comments'):
            i = rng.randrange(len(t) + 1)
            t = t[:i] + ' (* k *) ' + t[i:]
        elif k < 0.55 and eff.get('eol_comments'):
            i = rng.randrange(len(t) + 1)
            t = t[:i] + ' # z\n' + t[i:]
        out.append(t)
    return out


def skipto_family(rng):
    """pre ->target post: the region skipped holds words, blanks and (after re-layout) comments whose text contains the
    target: a comment is never input, whatever the expression that is looking for its match"""
    T = L.Tok
    target = rng.choice([T('a'), T(','), L.Pat(r'\d+'), T('b'), L.Group(L.Choice((T('a'), T('b'))))])
    pre = rng.choice([T('c'), L.Opt(T('c')), L.Void()])
    post = rng.choice([L.Clo(T('c')), L.Seq((T('c'), L.EOF())), L.EOF(), L.Opt(L.Pat('[a-c]+'))])
    return L.Grammar([L.Rule('start', G.normalise(L.Seq((pre, L.SkipTo(target), post))))]), target


def skipto_texts(rng, eff):
    out = []
    words = ['c', 'cc', 'x', '-', 'c c', 'cx']
    for _ in range(6):
        junk = ' '.join(rng.choice(words) for _k in range(rng.randrange(0, 4)))
        hit = rng.choice(['a', ',', '7', 'b', '12'])
        tail = rng.choice(['', ' c', ' c c', ' cc'])
        t = rng.choice(['', 'c ']) + junk + ' ' + hit + tail
        if eff.get('comments') and rng.random() < 0.6:
            i = t.find(' ') if ' ' in t else 0
            t = t[:i] + rng.choice([' (* a *) ', ' (* , 7 b *) ', '(*a*)']) + t[i:]
        if eff.get('eol_comments') and rng.random() < 0.4:
            i = t.find(' ') if ' ' in t else 0
            t = t[:i] + ' # a , 7 b\n' + t[i:]
        out.append(t)
    return out


def run_shard(desc, acc):
    for i in range(desc['n']):
        rng = random.Random(h64('C09', desc['seed'], desc['shard'], i))
        g = gen_grammar(rng)
        directives, parse, comp, eff = gen_config(rng)
        texts = gen_texts(rng, g, eff, 6)
        if rng.random() < 0.12:
            g, _target = skipto_family(rng)
            texts = skipto_texts(rng, eff)
            acc.count('skipto_family')
            if eff.get('comments') or eff.get('eol_comments'):
                acc.count('skipto_family_with_comments')
        check_case(acc, rng, g, directives, parse, comp, eff, texts, {'shard': desc['shard'], 'i': i})
        if i == 0:
            acc.sample({'grammar': L.grammar_text(g), 'directives': directives, 'parse_time': parse, 'compile_time': comp,
                        'inputs': texts})


def replay(w, acc):
    g = L.from_json(w['grammar'])
    directives, parse, comp = w.get('directives', {}), w.get('parse', {}), w.get('compile', {})
    eff = dict(comp)
    eff.update(directives)
    eff.update(parse)
    texts = [w['text']] + ([w['relaid']] if w.get('relaid') else [])
    check_case(acc, random.Random(0), g, directives, parse, comp, eff, texts, {'mode': 'replay'})


MANIFEST = {
    'technique': 'runtime monitoring: metamorphic layout relation on the real parser + reference-model oracle across the configuration/layering matrix',
    'level_text': 'for every accepted input the whitespace/comment runs that were skipped are replaced by other runs from the configured definitions and the '
                  'real parser must return the same AST; skipping placement, nameguard/namechars and ignorecase are decided by REF under a matrix of '
                  'configurations delivered through directives, parse-time settings and compile-time settings with conflicting values (layering)',
    'level_note': 'trusted: vt/ref.py lexical rules; the layout generator only rewrites runs REF skipped and gates added leading/trailing runs by REF; '
                  'grammars are restricted by construction to what the statement covers (patterns match no whitespace; no /./, ->, $->)',
}
