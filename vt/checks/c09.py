"""C09 — whitespace, comments, nameguard and case rules are applied uniformly; configuration layers consistently.

Oracles: (1) the layout relation itself (metamorphic, no expected AST): every whitespace/comment run
that was skipped is replaced by another non-empty run drawn from the CONFIGURED definitions and the
AST must not change; runs added at the start of the text / before the end-of-text check are gated by
REF (REF says where a run may be inserted); (2) REF under the whole configuration matrix for the
placement of skipping, nameguard/namechars and ignorecase; (3) layering: every option is set, with
conflicting values, at the directive layer, the parse-time layer and (text route) the compile-time
layer, and REF is given the documented winner; (4) the name family (interleaved with the general
workload in the same shard process): grammars over a small shared vocabulary of tokens that are names
under SOME namechars only ('end-if', 'a_b', 'x$', 'é-1' ...), the same rules as 2-3 models that differ
in @@namechars/@@nameguard, and a schedule of parses that keeps changing namechars (directive of the
model used, parse-time setting incl. the explicit empty string) back and forth across consecutive
parses of one process / one model / one long-lived generated parser object, with name characters,
would-be name characters and other characters directly after the tokens; REF judges every execution
under that execution's effective configuration alone, and a disagreement is re-run once in a fresh
interpreter to tell "depends on what was parsed before" from "wrong on its own".
DESIGN.md section 3/C09.
"""
from __future__ import annotations

import random
import re

from .. import gen as G
from .. import lang as L
from .. import refdiff as D
from ..common import h64
from ..ref import DEFAULT_WS, ref_run
from ..shrink import kind_sig
from ..tsu import WRAP_START, run_wrapped, wrapped

ID = 'C09'
LEVEL = 'exploration'
RULE = ('cases = (grammar whose patterns match no whitespace (no /./, ->, $->, look-behind), configuration, input): configuration matrix '
        '{whitespace default / [ \\t]+ / [ ]+ / empty} x {nameguard unset/on/off} x {namechars} x {ignorecase} x {block and eol comments}, each '
        'option delivered as directive, as parse-time setting, or both with conflicting values (and, on the text route, as compile-time setting); '
        'inputs derivation-guided with name characters glued to tokens and case variants; every accepted input is re-laid-out 3 times; '
        'non-trivial = accepted input containing at least one skipped run that was rewritten, or a nameguard/ignorecase decision point '
        '(token followed by a name character, token in another case); distinct by (grammar text, configuration, input); '
        'name family (1 case after every 7 general cases, same process, fixed order): (grammar over a 16-token vocabulary shared by the whole '
        'process, with tokens containing - _ $ and their alphanumeric prefixes; 2-3 directive variants of the same rules, always one without and '
        'one with @@namechars; 6 inputs with a name character / one of - _ $ / another character directly after a token occurrence; a schedule '
        'of ~25 parses, each = (variant, parse-time namechars/nameguard/ignorecase/whitespace from a pool of 4-6 incl. namechars=\'\', input, '
        'model.parse | one long-lived generated parser object | fresh generated parser object), shuffled, its first 5 parses repeated at the end); '
        'every parse is judged by REF; non-trivial = every judged parse; distinct by (grammar, effective configuration, input, executor)')
ASSUMPTIONS = [
    'REF (vt/ref.py) places skipping before tokens, lower-case rule entry, constants, void, fail, alert and end-of-text only',
    'layout rewriting replaces exactly the runs REF skipped (non-empty by non-empty, drawn from the configured definitions); eol comments are '
    'followed by a line break that the configured whitespace skips',
    'documented layering: defaults < compile-time settings < directives < parse-time settings',
    'name family: the outcome of a parse is a function of (grammar, effective configuration, input) only - REF is given nothing else; an '
    'explicit empty parse-time namechars overrides a directive, and "nameguard is implied by namechars" refers to the EFFECTIVE namechars '
    '(mechanism signature layering/nameguard-implied-by-overridden-namechars when TatSu keeps the implied nameguard of overridden namechars)',
]
FLOORS = {
    'quick': {'layouts_checked': 10000, 'runs_rewritten': 4000, 'ref_compared': 9000, 'layer:directive': 1300, 'layer:parse': 1300,
              'layer:conflict': 400, 'layer:compile': 150, 'nameguard_decisions': 1200, 'ignorecase_token_matches': 150,
              'ws:default': 800, 'ws:regex': 400, 'ws:empty': 200, 'comment_runs': 1300, 'added_leading': 6000, 'added_trailing': 6000, 'reused_parser_checked': 3000, 'skipto_family': 200, 'skipto_family_with_comments': 80,
              'namefam_cases': 350, 'namefam_steps': 7000, 'namefam_token_status_flips': 800, 'namefam_decision:guarded': 2500,
              'namefam_decision:token_not_a_name': 1200, 'namefam_namechars_changed_between_parses': 3000, 'namefam_exec:model': 1500,
              'namefam_exec:reused': 2000, 'namefam_exec:fresh': 1000, 'namefam_layer:conflict': 1000},
    'thorough': {'layouts_checked': 250000, 'runs_rewritten': 90000, 'ref_compared': 200000,
                 'namefam_steps': 150000, 'namefam_token_status_flips': 20000, 'namefam_decision:guarded': 60000},
}
N = {'quick': 3000, 'thorough': 72000}

WS_CHOICES = [None, r'[ \t]+', r'[ ]+', '']
BLOCK = r'\(\*(?:.|\n)*?\*\)'
EOLC = r'#[^\n]*'


def plan(tier, seed):
    k = 16 if tier == 'quick' else 64
    return [{'seed': seed, 'shard': i, 'n': N[tier] // k, 'tier': tier} for i in range(k)]


def gen_config(rng):
    """-> (directives, parse_settings, compile_settings, effective) with independent, possibly conflicting layers"""
    opts = {
        'whitespace': [r'[ \t]+', r'[ ]+', '', DEFAULT_WS],
        'nameguard': [True, False],
        'namechars': ['-', '_$'],
        'ignorecase': [True, False],
        'comments': [BLOCK],
        'eol_comments': [EOLC],
    }
    directives, parse, comp = {}, {}, {}
    for name, values in opts.items():
        p = rng.random()
        if p < 0.45:
            continue
        if p < 0.65:
            directives[name] = rng.choice(values)
        elif p < 0.85:
            parse[name] = rng.choice(values)
        else:
            directives[name] = rng.choice(values)
            parse[name] = rng.choice(values)
    if rng.random() < 0.12:
        name = rng.choice(['ignorecase', 'nameguard', 'whitespace', 'eol_comments'])
        comp[name] = rng.choice(opts[name])
    eff = dict(comp)
    eff.update(directives)
    eff.update(parse)
    return directives, parse, comp, eff


def directive_text_values(d):
    out = {}
    for k, v in d.items():
        if isinstance(v, bool):
            out[k] = 'True' if v else 'False'
        else:
            out[k] = v
    return out


def gen_grammar(rng):
    F = dict(G.FEATURES, dot=False, skipto=rng.random() < 0.3, cut=rng.random() < 0.2, fail=False, skipgroup=rng.random() < 0.3)
    g = G.gen_grammar(rng, F, max_rules=4, pats=['a', 'b+', '[ab]', 'c', r'\d+', '[a-c]+'])
    return g


def ws_pieces(eff):
    ws = eff.get('whitespace', DEFAULT_WS)
    if ws == '' or ws is None:
        base = []
    elif ws == DEFAULT_WS:
        base = [' ', '\t', '\n', '\r\n', '\r', '  ', ' \n ']
    elif ws == r'[ \t]+':
        base = [' ', '\t', ' \t ']
    else:
        base = [' ', '  ']
    pieces = list(base)
    nl_ok = ws == DEFAULT_WS
    if eff.get('comments'):
        pieces.append('(* c *)')
        pieces.append('(**)')
        # the text of a comment is never input: tokens, separators and digits of the grammars inside it
        pieces.append('(* a b *)')
        pieces.append('(*a,b c 1*)')
    eol_mid = []
    if eff.get('eol_comments') and nl_ok:
        eol_mid = ['#c\n', '# a b\n', '#b,a 1 c\n']
    return pieces, eol_mid, bool(eff.get('eol_comments'))


def merged_runs(skips, upto):
    ivs = sorted((s, e) for s, e in skips if e <= upto and e > s)
    out = []
    for s, e in ivs:
        if out and s <= out[-1][1]:
            out[-1] = (out[-1][0], max(out[-1][1], e))
        else:
            out.append((s, e))
    return out


def relayout(rng, text, runs, eff):
    """replace every skipped run by another non-empty run of configured whitespace/comments"""
    pieces, eol_mid, has_eol = ws_pieces(eff)
    if not pieces and not eol_mid:
        return None, 0, 0
    out = []
    pos = 0
    comment_runs = 0
    for s, e in runs:
        out.append(text[pos:s])
        k = rng.choice([1, 1, 2, 3])
        run = ''
        for _ in range(k):
            c = rng.choice(pieces + eol_mid) if (pieces or eol_mid) else ' '
            run += c
        if '(*' in run or '#' in run:
            comment_runs += 1
        out.append(run)
        pos = e
    out.append(text[pos:])
    return ''.join(out), len(runs), comment_runs


def build_model(g, start, directives, comp, route):
    gw = wrapped(L.Grammar(list(g.rules), directive_text_values(directives), tuple(g.keywords)), start)
    if route == 'text':
        import tatsu
        return tatsu.compile(L.grammar_text(gw), name='T', **comp)
    return L.to_model(gw, name='T')


def describe(g, directives, parse, comp):
    return f'{L.grammar_text(L.Grammar(list(g.rules), directive_text_values(directives))).strip()!r} parse-time {parse} compile-time {comp}'


def check_case(acc, rng, g, directives, parse, comp, eff, texts, origin):
    start = g.rules[0].name
    route = 'text' if comp else 'object'
    gd = L.Grammar(list(g.rules), {}, tuple(g.keywords))   # REF gets the effective settings explicitly
    w0 = {'grammar': L.to_json(g), 'directives': directives, 'parse': parse, 'compile': comp, 'origin': origin}
    try:
        model = build_model(g, start, directives, comp, route)
    except Exception as e:  # noqa: BLE001
        acc.evaluations += 1
        if comp:
            acc.violation('layering/compile-setting-breaks-compilation:' + '+'.join(sorted(comp)),
                          f'tatsu.compile(grammar, **{comp}) failed with {type(e).__name__}: the compile-time setting was applied to '
                          f'parsing the grammar text: {describe(g, directives, parse, comp)}', dict(w0, text=''))
        else:
            acc.violation('exc:build:' + type(e).__name__, f'building failed: {type(e).__name__}: {e} {describe(g, directives, parse, comp)}',
                          dict(w0, text=''))
        return
    for lay in ('directive', 'parse', 'compile'):
        if {'directive': directives, 'parse': parse, 'compile': comp}[lay]:
            acc.count('layer:' + lay)
    if any(k in parse and directives[k] != parse[k] for k in directives):
        acc.count('layer:conflict')
    ws = eff.get('whitespace', DEFAULT_WS)
    acc.count('ws:default' if ws == DEFAULT_WS else 'ws:empty' if ws == '' else 'ws:regex')
    gen_cls = None
    reused = None
    if not comp:
        try:
            from ..tsu import gen_parser
            gen_cls = gen_parser(L.to_model(L.Grammar(list(g.rules), directive_text_values(directives), tuple(g.keywords)), name='T'))[0]
        except Exception:  # noqa: BLE001 - code generation problems are C02's business
            gen_cls = None
    for text in texts:
        if gen_cls is not None and parse:
            # parse-time settings must not outlive the call on a long-lived parser object
            from ..tsu import outcome
            if reused is None:
                reused = gen_cls()
            outcome(reused.parse, text, **parse)
            r_plain = outcome(reused.parse, text)
            f_plain = outcome(lambda t: gen_cls().parse(t), text)
            acc.evaluations += 1
            acc.count('reused_parser_checked')
            if (r_plain[0], r_plain[1] if r_plain[0] != 'fail' else None) != (f_plain[0], f_plain[1] if f_plain[0] != 'fail' else None):
                acc.violation('settings-leak/reused-parser-object',
                              f'parse-time settings {parse} of an earlier call are still in force on the same generated parser object: '
                              f'{describe(g, directives, {}, {})} input {text!r} FRESH={f_plain} AFTER-EARLIER-CALL={r_plain}',
                              dict(w0, text=text, fresh=f_plain, reused=r_plain))
        a, r = ref_run(gd, text, start, settings=eff, max_steps=20000)
        if a[0] == 'budget':
            acc.count('ref_budget')
            continue
        b = run_wrapped(model, text, budget=D.step_budget(g, text), **parse)
        acc.evaluations += 1
        acc.count('ref_compared')
        tag = D.relation(a, b, bool(r.nonw))
        w = dict(w0, text=text, ref=a, tatsu=b)
        if tag is not None:
            if comp:
                # does the disagreement vanish when the compile-time layer is ignored?  (recorded finding)
                eff2 = dict(directives)
                eff2.update(parse)
                a2, r2 = ref_run(gd, text, start, settings=eff2, max_steps=20000)
                if D.relation(a2, b, bool(r2.nonw)) is None:
                    acc.violation('layering/compile-setting-ignored:' + '+'.join(sorted(comp)),
                                  f'a setting given to tatsu.compile() does not reach the compiled model: {describe(g, directives, parse, comp)} '
                                  f'input {text!r} expected {a} got {b}', w)
                    continue
            if tag == 'ast' and 'open-list-rule-value' in r.triggers:
                acc.count('c01_known_open_list_skipped')
                continue
            acc.violation(f'ref/{tag}/{sorted(eff)}', f'whitespace/nameguard/case handling differs from the documented rules ({tag}): '
                                                      f'{describe(g, directives, parse, comp)} input {text!r} REF={a} TATSU={b}', w)
            continue
        if a[0] != 'ok' or comp:
            continue   # compile-layer cases serve the layering clause only
        # decision-point evidence
        if re.search(r'[abc][A-Za-z0-9_$-]', text):
            acc.count('nameguard_decisions')
        if eff.get('ignorecase') and re.search(r'[ABC]', text[:a[1]]):
            acc.count('ignorecase_token_matches')
        # ---- layout relation on the consumed part
        runs = merged_runs(r.skips, a[1])
        for _ in range(3):
            new, nruns, ncomm = relayout(rng, text, runs, eff)
            if new is None:
                break
            lead = trail = False
            pieces, eol_mid, has_eol = ws_pieces(eff)
            if rng.random() < 0.5 and pieces:
                # adding a run at the start / at the end is gated by REF (it says whether skipping happens there)
                cand = rng.choice(pieces) + new
                a3, r3 = ref_run(gd, cand, start, settings=eff, max_steps=20000)
                if a3[0] == 'ok' and a3[2] == a[2]:
                    new, lead = cand, True
            if rng.random() < 0.5 and (pieces or has_eol):
                tail = rng.choice(pieces + (['#c'] if has_eol else []))
                cand = new + tail
                a3, r3 = ref_run(gd, cand, start, settings=eff, max_steps=20000)
                if a3[0] == 'ok' and a3[2] == a[2]:
                    new, trail = cand, True
            if new == text:
                continue
            b2 = run_wrapped(model, new, budget=D.step_budget(g, new), **parse)
            acc.evaluations += 1
            acc.count('layouts_checked')
            acc.count('runs_rewritten', nruns)
            acc.count('comment_runs', ncomm)
            if lead:
                acc.count('added_leading')
            if trail:
                acc.count('added_trailing')
            if nruns or lead or trail:
                acc.nontriv(L.grammar_text(g), repr(sorted(eff.items())), text)
            if b2[0] != 'ok' or (not r.nonw and b2[2] != b[2]) or (r.nonw and b2[0] != b[0]):
                acc.violation(f'layout/{"+".join(sorted(eff)) or "defaults"}',
                              f'replacing whitespace runs by other runs of configured whitespace/comments changed the result: '
                              f'{describe(g, directives, parse, comp)} ORIGINAL {text!r} -> {b} RELAID {new!r} -> {b2}',
                              dict(w, relaid=new, tatsu2=b2))
                break


def gen_texts(rng, g, eff, n):
    texts = G.gen_inputs(rng, g, g.rules[0].name, n, alphabet='abc ,\t\nABC-_$1')
    out = []
    for t in texts:
        k = rng.random()
        if eff.get('ignorecase') and rng.random() < 0.6:
            t = ''.join(c.upper() if rng.random() < 0.5 else c for c in t)
        elif k < 0.2 and eff.get('ignorecase') is not None:
            t = ''.join(c.upper() if rng.random() < 0.5 else c for c in t)
        elif k < 0.35:
            # glue a name character / namechar / other after a token
            i = rng.randrange(len(t) + 1)
            # (documented nameguard: a token that is a name is not matched when an ALPHANUMERIC character follows - any script)
            t = t[:i] + rng.choice(['x', '1', '-', '_', '$', '.', 'é', 'λ', 'ж', '٣', 'ß', 'ｘ', '²']) + t[i:]
        elif k < 0.45 and eff.get('comments'):
            i = rng.randrange(len(t) + 1)
            t = t[:i] + ' (* k *) ' + t[i:]
        elif k < 0.55 and eff.get('eol_comments'):
            i = rng.randrange(len(t) + 1)
            t = t[:i] + ' # z\n' + t[i:]
        out.append(t)
    return out


def skipto_family(rng):
    """pre ->target post: the region skipped holds words, blanks and (after re-layout) comments whose text contains the
    target: a comment is never input, whatever the expression that is looking for its match"""
    T = L.Tok
    target = rng.choice([T('a'), T(','), L.Pat(r'\d+'), T('b'), L.Group(L.Choice((T('a'), T('b'))))])
    pre = rng.choice([T('c'), L.Opt(T('c')), L.Void()])
    post = rng.choice([L.Clo(T('c')), L.Seq((T('c'), L.EOF())), L.EOF(), L.Opt(L.Pat('[a-c]+'))])
    return L.Grammar([L.Rule('start', G.normalise(L.Seq((pre, L.SkipTo(target), post))))]), target


def skipto_texts(rng, eff):
    out = []
    words = ['c', 'cc', 'x', '-', 'c c', 'cx']
    for _ in range(6):
        junk = ' '.join(rng.choice(words) for _k in range(rng.randrange(0, 4)))
        hit = rng.choice(['a', ',', '7', 'b', '12'])
        tail = rng.choice(['', ' c', ' c c', ' cc'])
        t = rng.choice(['', 'c ']) + junk + ' ' + hit + tail
        if eff.get('comments') and rng.random() < 0.6:
            i = t.find(' ') if ' ' in t else 0
            t = t[:i] + rng.choice([' (* a *) ', ' (* , 7 b *) ', '(*a*)']) + t[i:]
        if eff.get('eol_comments') and rng.random() < 0.4:
            i = t.find(' ') if ' ' in t else 0
            t = t[:i] + ' # a , 7 b\n' + t[i:]
        out.append(t)
    return out


# ------------------------------------------------------------------------------------------------ name family
# Tokens that are names under SOME namechars only, in a process that keeps changing namechars.
#
# A grammar is built from a small vocabulary shared by all cases of a shard process (so the same token text recurs
# under many configurations of one process); 2-3 models of the same rules differ in their @@namechars / @@nameguard
# directives; a schedule of parses alternates between those models, between parse-time namechars / nameguard values
# (including the explicit empty string and "not given"), between model.parse, one long-lived generated parser object
# and fresh generated parser objects, over a few inputs in which a name character, a would-be name character
# (- _ $) or another character directly follows a token.  The same (model, settings, input) recurs later in the
# schedule after other configurations ran (flipping back and forth).  REF judges EVERY execution under the
# effective configuration of that execution alone: what ran earlier in the process is not an input of the rule.
NAME_VOCAB = ['end-if', 'end', 'if', 'a_b', 'a', 'x$', 'x', '$x', 'é-1', 'é', 'a-b', 'b_', '_b', 'c1', '-', 'if-']
NAME_SPECIAL = [t for t in NAME_VOCAB if re.search(r'[-_$]', t)]
FOLLOW = {
    'name': ['x', '1', 'é', 'λ', 'b', '٣'],
    'namechar': ['-', '_', '$'],
    'other': ['.', ',', ' ', '+', ''],
}
NAME_PATS = {r'\w+': ['a', 'x1', 'é'], r'[-\w$]+': ['a', '-x', 'x$', 'a_b'], r'\d+': ['1', '42']}
NC_VALUES = ['', '-', '_$', '-_$', '$', '_']
NAME_DIRECTIVES = [
    {}, {}, {'namechars': '-'}, {'namechars': '_$'}, {'namechars': '-_$'}, {'namechars': '$'}, {'nameguard': True},
    {'nameguard': False}, {'namechars': '-', 'nameguard': False}, {'whitespace': ''}, {'whitespace': '', 'namechars': '-_'},
    {'ignorecase': True}, {'ignorecase': True, 'namechars': '-_$'},
]
NAME_EVERY = 8            # one case of the family after every 7 cases of the general workload
NAME_ISO_PER_SHARD = 3   # disagreements re-run in a fresh interpreter (diagnosis: does the answer depend on process history?)


def name_grammar(rng):
    T = L.Tok
    k = rng.choice([2, 3, 3, 4])
    toks = [rng.choice(NAME_SPECIAL)]
    # a prefix of the special token if the vocabulary has one ('end' < 'end-if', 'a' < 'a_b', 'x' < 'x$' ...)
    pre = [t for t in NAME_VOCAB if t != toks[0] and toks[0].startswith(t)]
    if pre and rng.random() < 0.6:
        toks.append(rng.choice(pre))
    while len(toks) < k:
        t = rng.choice(NAME_VOCAB)
        if t not in toks:
            toks.append(t)

    def alt():
        opts = rng.sample(toks, rng.choice([2, 2, 3]) if len(toks) > 2 else 2)
        return L.Group(L.Choice(tuple(T(t) for t in opts)))

    def element():
        p = rng.random()
        if p < 0.35:
            return T(rng.choice(toks))
        if p < 0.60:
            return alt()
        if p < 0.68:
            return L.Opt(T(rng.choice(toks)))
        if p < 0.80:
            return (L.Clo if rng.random() < 0.5 else L.PClo)(alt() if rng.random() < 0.7 else T(rng.choice(toks)))
        if p < 0.88:
            return L.Named(rng.choice(['n', 'm']), T(rng.choice(toks)))
        return L.Pat(rng.choice(list(NAME_PATS)))

    items = [T(toks[0]) if rng.random() < 0.5 else alt()] if rng.random() < 0.6 else [element()]
    for _ in range(rng.choice([0, 1, 1, 2])):
        items.append(element())
    rules = []
    if len(items) > 1 and rng.random() < 0.3:
        # one element behind a rule: lower-case (skips at entry) or upper-case (does not)
        j = rng.randrange(len(items))
        name = rng.choice(['x', 'Y'])
        rules.append(L.Rule(name, items[j]))
        items[j] = L.Call(name)
    body = G.normalise(L.Seq(tuple(items))) if len(items) > 1 else items[0]
    return L.Grammar([L.Rule('start', body)] + rules), toks


def name_derive(rng, g, e):
    if isinstance(e, L.Pat):
        return rng.choice(NAME_PATS.get(e.rx, ['a']))
    if isinstance(e, L.Seq):
        out = ''
        for it in e.items:
            p = name_derive(rng, g, it)
            if out and p and rng.random() < 0.55:
                out += rng.choice([' ', ' ', '\t', '\n'])
            out += p
        return out
    if isinstance(e, (L.Clo, L.PClo)):
        n = rng.choice([0, 1, 2]) if isinstance(e, L.Clo) else rng.choice([1, 2, 3])
        out = ''
        for _ in range(n):
            p = name_derive(rng, g, e.e)
            if out and p and rng.random() < 0.55:
                out += ' '
            out += p
        return out
    if isinstance(e, L.Choice):
        return name_derive(rng, g, rng.choice(e.opts))
    if isinstance(e, L.Call):
        return name_derive(rng, g, g.rule(e.name).body)
    if isinstance(e, L.Opt):
        return '' if rng.random() < 0.35 else name_derive(rng, g, e.e)
    if isinstance(e, (L.Group, L.Named)):
        return name_derive(rng, g, e.e)
    return G.derive(rng, g, e)


def name_texts(rng, g, toks, n):
    out = []
    body = g.rules[0].body
    for _ in range(n):
        t = name_derive(rng, g, body)
        if rng.random() < 0.85:
            # a name character / would-be name character / other character DIRECTLY after an occurrence of a token
            ends = sorted({m.end() for tok in toks for m in re.finditer(re.escape(tok), t)})
            if ends:
                i = rng.choice(ends)
                cls = rng.choice(['name', 'name', 'namechar', 'namechar', 'other'])
                t = t[:i] + rng.choice(FOLLOW[cls]) + t[i:]
            else:
                t = rng.choice(toks) + rng.choice(FOLLOW['name'])
        if rng.random() < 0.15:
            t = ''.join(c.upper() if rng.random() < 0.5 else c for c in t)
        if rng.random() < 0.15:
            t = rng.choice([' ', '\n']) + t
        out.append(t)
    return out


def name_case(rng):
    """-> JSON-able description of one case of the family: grammar, directive variants, schedule of parses"""
    g, toks = name_grammar(rng)
    plain = rng.choice([{}, {}, {}, {'nameguard': True}, {'ignorecase': True}])
    withnc = dict(rng.choice([{}, {}, {'nameguard': False}, {'ignorecase': True}]), namechars=rng.choice(NC_VALUES[1:]))
    variants = [plain, withnc]   # always: the same rules without and with @@namechars
    if rng.random() < 0.6:
        variants.append(rng.choice(NAME_DIRECTIVES))
    rng.shuffle(variants)
    compile_layer = {}
    if rng.random() < 0.05:
        # (text route) the compile-time layer: below the directives, above the defaults
        compile_layer = {'namechars': rng.choice(NC_VALUES[1:])}
    pool = [{}]
    for _ in range(rng.choice([3, 4, 5])):
        p = {}
        q = rng.random()
        if q < 0.75:
            p['namechars'] = rng.choice(NC_VALUES)
        if rng.random() < 0.3:
            p['nameguard'] = rng.random() < 0.6
        if rng.random() < 0.12:
            p['ignorecase'] = rng.random() < 0.7
        if rng.random() < 0.10:
            p['whitespace'] = rng.choice(['', r'[ \t]+'])
        pool.append(p)
    texts = name_texts(rng, g, toks, 6)
    steps = []
    for ti in range(len(texts)):
        for _ in range(rng.choice([3, 4])):
            steps.append({'v': rng.randrange(len(variants)), 'parse': rng.choice(pool), 'text': ti,
                          'how': rng.choice(['model', 'model', 'reused', 'reused', 'fresh'])})
    rng.shuffle(steps)
    # ... and back: configurations that ran before run again after the others
    steps += [dict(s) for s in steps[:5]]
    return {'grammar': L.to_json(g), 'toks': toks, 'variants': variants, 'compile': compile_layer, 'texts': texts, 'steps': steps}


class NameState:
    """per process: what the name family has already driven through this interpreter (evidence only, never the oracle)"""

    def __init__(self):
        self.status = {}      # token text -> last name status (True/False) at a decision point in this process
        self.iso_left = NAME_ISO_PER_SHARD


NAME_STATE = NameState()


def _iso_main():
    """child interpreter: one parse of one model in a process that has parsed nothing else; JSON in, JSON out"""
    import json
    import sys
    from ..common import assert_repo_tatsu
    assert_repo_tatsu()   # the tree under test, as in the shard
    d = json.load(sys.stdin)
    g = L.from_json(d['grammar'])
    b = name_execute(name_build(g, d['directives'], d['compile']), None, d['how'], d['text'], d['parse'], g)
    json.dump(jsonish(b), sys.stdout)


def name_isolated(g, directives, comp, how, text, parse):
    """the same single parse in a fresh interpreter -> outcome, or None if that could not be done"""
    import json
    import subprocess
    import sys
    try:
        p = subprocess.run([sys.executable, '-c', 'from vt.checks.c09 import _iso_main; _iso_main()'],
                           input=json.dumps({'grammar': L.to_json(g), 'directives': directives, 'compile': comp, 'how': how,
                                             'text': text, 'parse': parse}),
                           capture_output=True, text=True, timeout=300, check=False)
        return tuple(json.loads(p.stdout)) if p.returncode == 0 else None
    except Exception:  # noqa: BLE001 - diagnosis only
        return None


def name_build(g, directives, comp):
    """-> {'model': grammar model, 'cls': generated parser class or None, 'reused': None}"""
    gw = wrapped(L.Grammar(list(g.rules), directive_text_values(directives), tuple(g.keywords)), g.rules[0].name)
    if comp:
        import tatsu
        model = tatsu.compile(L.grammar_text(gw), name='T', **comp)
    else:
        model = L.to_model(gw, name='T')
    cls = None
    try:
        from ..tsu import gen_parser
        cls = gen_parser(model)[0]
    except Exception:  # noqa: BLE001 - code generation problems are C02's business
        cls = None
    return {'model': model, 'cls': cls, 'reused': None}


def name_execute(built, acc, how, text, parse, g):
    budget = D.step_budget(g, text)
    if how != 'model' and built['cls'] is not None:
        if how == 'reused':
            if built['reused'] is None:
                built['reused'] = built['cls']()
            target = built['reused']
        else:
            target = built['cls']()
    else:
        how = 'model'
        target = built['model']
    if acc is not None:
        acc.count('namefam_exec:' + how)
    return run_wrapped(target, text, budget=budget, **parse)


def jsonish(x):
    if isinstance(x, tuple):
        return [jsonish(i) for i in x]
    if isinstance(x, list):
        return [jsonish(i) for i in x]
    if isinstance(x, dict):
        return {k: jsonish(v) for k, v in x.items()}
    return x


def name_decisions(r, toks, text):
    """textual decision points of one execution under its configuration (evidence): -> list of (token, class, is_name)"""
    out = []
    for tok in toks:
        for m in re.finditer(re.escape(tok), text, re.IGNORECASE if r.ignorecase else 0):
            nxt = text[m.end()] if m.end() < len(text) else None
            if nxt is None:
                continue
            out.append((tok, r.is_name_char(nxt), r.is_name(tok)))
    return out


def run_name_case(acc, case, origin, upto=None):
    g = L.from_json(case['grammar'])
    toks, variants, comp, texts = case['toks'], case['variants'], case.get('compile') or {}, case['texts']
    start = g.rules[0].name
    gd = L.Grammar(list(g.rules), {}, tuple(g.keywords))
    acc.count('namefam_cases')
    if comp:
        acc.count('namefam_layer:compile')
    built = []
    for dv in variants:
        try:
            built.append(name_build(g, dv, comp))
        except Exception as e:  # noqa: BLE001
            acc.evaluations += 1
            w = {'family': 'name', 'case': case, 'origin': origin, 'upto': 0}
            if comp:
                acc.violation('layering/compile-setting-breaks-compilation:' + '+'.join(sorted(comp)),
                              f'tatsu.compile(grammar, **{comp}) failed with {type(e).__name__}: the compile-time setting was applied to '
                              f'parsing the grammar text: {describe(g, dv, {}, comp)}', w)
            else:
                acc.violation('exc:build:' + type(e).__name__, f'building failed: {type(e).__name__}: {e} {describe(g, dv, {}, {})}', w)
            return
    prev = None
    steps = case['steps'] if upto is None else case['steps'][:upto]
    for si, st in enumerate(steps):
        dv, parse, text, how = variants[st['v']], st['parse'], texts[st['text']], st['how']
        eff = dict(comp)
        eff.update(dv)
        eff.update(parse)
        a, r = ref_run(gd, text, start, settings=eff, max_steps=20000)
        if a[0] == 'budget':
            acc.count('ref_budget')
            continue
        b = name_execute(built[st['v']], acc, how, text, parse, g)
        acc.evaluations += 1
        acc.count('namefam_steps')
        if dv:
            acc.count('namefam_layer:directive')
        if parse:
            acc.count('namefam_layer:parse')
        if any(k in parse and dv[k] != parse[k] for k in dv):
            acc.count('namefam_layer:conflict')
        if prev is not None and prev != (eff.get('namechars') or ''):
            acc.count('namefam_namechars_changed_between_parses')
        prev = eff.get('namechars') or ''
        for tok, nxt_is_name, tok_is_name in name_decisions(r, toks, text):
            if not r.nameguard:
                acc.count('namefam_decision:nameguard_off')
                continue
            if not nxt_is_name:
                acc.count('namefam_decision:next_not_name_char')
                continue
            acc.count('namefam_decision:guarded' if tok_is_name else 'namefam_decision:token_not_a_name')
            was = NAME_STATE.status.get(tok)
            if was is not None and was != tok_is_name:
                # the same token text, earlier in this process, had the other status at a decision point
                acc.count('namefam_token_status_flips')
            NAME_STATE.status[tok] = tok_is_name
        acc.nontriv('name', L.grammar_text(g), repr(sorted(eff.items())), text, how)
        tag = D.relation(a, b, bool(r.nonw))
        if tag is None:
            continue
        w = {'family': 'name', 'case': case, 'origin': origin, 'upto': si + 1, 'ref': a, 'tatsu': b}
        where = (f'{describe(g, dv, parse, comp)} input {text!r} through '
                 f'{ {"model": "model.parse", "reused": "a long-lived generated parser object", "fresh": "a new generated parser object"}[how] }')
        if comp:
            eff2 = dict(dv)
            eff2.update(parse)
            a2, r2 = ref_run(gd, text, start, settings=eff2, max_steps=20000)
            if D.relation(a2, b, bool(r2.nonw)) is None:
                acc.violation('layering/compile-setting-ignored:' + '+'.join(sorted(comp)),
                              f'a setting given to tatsu.compile() does not reach the compiled model: {where} expected {a} got {b}', w)
                continue
        if (dv.get('namechars') or comp.get('namechars')) and not eff.get('namechars') and 'nameguard' not in parse:
            # recorded finding (stable mechanism signature): non-empty namechars of a lower layer are overridden by an explicit
            # empty value and no nameguard is given above them - does TatSu still apply the nameguard those namechars implied?
            a2, r2 = ref_run(gd, text, start, settings=dict(eff, nameguard=True), max_steps=20000)
            if D.relation(a2, b, bool(r2.nonw)) is None:
                acc.violation('layering/nameguard-implied-by-overridden-namechars',
                              f'the nameguard implied by namechars stays in force after those namechars were overridden by an explicit empty '
                              f'value (the effective configuration has nameguard off): {where} expected {a} got {b}', w)
                continue
        iso = None
        if NAME_STATE.iso_left > 0:
            NAME_STATE.iso_left -= 1
            iso = name_isolated(g, dv, comp, how, text, parse)
            acc.count('namefam_isolated_reruns')
        if iso is not None and D.relation(tuple(jsonish(a)), iso, bool(r.nonw)) is None:
            hist = [(variants[s['v']], s['parse'], texts[s['text']]) for s in steps[max(0, si - 3):si]]
            acc.violation(f'name/history-dependent/{tag}',
                          f'the nameguard/namechars/case decision depends on what was parsed EARLIER in the same process: {where} '
                          f'REF={a} TATSU={b}, while the same single parse in a fresh interpreter gives {iso} (= REF); '
                          f'the parses just before it (directives, parse-time settings, input): {hist}', dict(w, isolated=iso))
        else:
            acc.violation(f'name/ref/{tag}/{sorted(eff)}',
                          f'nameguard/namechars/case handling differs from the documented rules ({tag}): {where} REF={a} TATSU={b}'
                          + ('' if iso is None else f' (the same in a fresh interpreter: {iso})'), w)


def run_shard(desc, acc):
    nj = 0
    for i in range(desc['n']):
        if i % NAME_EVERY == NAME_EVERY - 1:
            # the name family is interleaved with the general workload at fixed indices: one process, one deterministic order
            rngn = random.Random(h64('C09', 'name', desc['seed'], desc['shard'], nj))
            case = name_case(rngn)
            run_name_case(acc, case, {'shard': desc['shard'], 'name_case': nj})
            if nj == 0:
                acc.sample({'family': 'name', 'grammar': L.grammar_text(L.from_json(case['grammar'])), 'directive_variants': case['variants'],
                            'compile_time': case['compile'], 'inputs': case['texts'], 'schedule': case['steps'][:8]})
            nj += 1
        rng = random.Random(h64('C09', desc['seed'], desc['shard'], i))
        g = gen_grammar(rng)
        directives, parse, comp, eff = gen_config(rng)
        texts = gen_texts(rng, g, eff, 6)
        if rng.random() < 0.12:
            g, _target = skipto_family(rng)
            texts = skipto_texts(rng, eff)
            acc.count('skipto_family')
            if eff.get('comments') or eff.get('eol_comments'):
                acc.count('skipto_family_with_comments')
        check_case(acc, rng, g, directives, parse, comp, eff, texts, {'shard': desc['shard'], 'i': i})
        if i == 0:
            acc.sample({'grammar': L.grammar_text(g), 'directives': directives, 'parse_time': parse, 'compile_time': comp,
                        'inputs': texts})


def replay(w, acc):
    if w.get('family') == 'name':
        # the schedule up to and including the parse that disagreed, in a process that did nothing else before
        run_name_case(acc, w['case'], {'mode': 'replay'}, upto=w.get('upto'))
        return
    g = L.from_json(w['grammar'])
    directives, parse, comp = w.get('directives', {}), w.get('parse', {}), w.get('compile', {})
    eff = dict(comp)
    eff.update(directives)
    eff.update(parse)
    texts = [w['text']] + ([w['relaid']] if w.get('relaid') else [])
    check_case(acc, random.Random(0), g, directives, parse, comp, eff, texts, {'mode': 'replay'})


MANIFEST = {
    'technique': 'runtime monitoring: metamorphic layout relation on the real parser + reference-model oracle across the configuration/layering matrix',
    'level_text': 'for every accepted input the whitespace/comment runs that were skipped are replaced by other runs from the configured definitions and the '
                  'real parser must return the same AST; skipping placement, nameguard/namechars and ignorecase are decided by REF under a matrix of '
                  'configurations delivered through directives, parse-time settings and compile-time settings with conflicting values (layering)',
    'level_note': 'name family: tokens that are names under some namechars only, parsed under namechars that change back and forth between '
                  'consecutive parses of one process / model / generated parser object, every parse judged by REF under its own configuration; '
                  'trusted: vt/ref.py lexical rules; the layout generator only rewrites runs REF skipped and gates added leading/trailing runs by REF; '
                  'grammars are restricted by construction to what the statement covers (patterns match no whitespace; no /./, ->, $->)',
}
