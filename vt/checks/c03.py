"""C03 — left-recursive rules parse, terminate and associate to the left.

Oracles (both must agree with the real model): REF's seed-growing semantics, and an independent
precedence-climbing evaluator built from the operator table that generated the grammar.  Plus the
C02 differential (model vs generated parser).  Termination is decided on logical steps (heart
budget) and an explicit recursion limit.  DESIGN.md section 3/C03.

Families of cases:
* layered grammars (Spec): 1-4 precedence layers of the cycle shapes listed in KINDS, all short inputs;
* long chains (run_long): thousands of operators, growth must be iterative;
* wide layers (WideSpec, run_wide): ONE precedence level with 2..80 operators, written as alternatives of the layer
  rule, one rule per operator, operator rules through aliases, grouped, mixed, or a chain of rules (cycles of every
  length) - components with dozens of rules and cycles; a table of anchor sizes is swept every run, more sizes are
  drawn per seed; decided by REF, precedence climbing (operators tried in the grammar's order) and model-vs-generated;
* failing constants (run_wide): a constant that fails to evaluate inside an operator alternative of such a layer;
  decided by REF under both readings of the scope of that failure (refdiff.compare);
* semantic actions (run_sem): a semantics class with actions on the layer rules / operator rules / aliases that reject
  (tatsu.exceptions.FailedSemantics) depending on the value grown so far, optionally replacing the value; decided by
  REF with the same action at every rule exit: a rejected evaluation of the body is a failed evaluation - of the seed
  pass: the rule fails; of a later growth pass: the growth ends there and the last accepted seed is the rule's value,
  the rest of the grammar going on from its end - on the model and on the generated parser.
"""
from __future__ import annotations

import itertools
import random
import sys

from .. import lang as L
from .. import refdiff as D
from ..common import h64
from ..ref import PFail, Ref, RefBudget, canon, crepr, left_sccs
from ..tsu import StepHeart, build, gen_parser, run_wrapped, wrapped

ID = 'C03'
LEVEL = 'exploration'
RULE = ('cases = (layered expression grammar, input): 1-4 precedence layers, each direct / aliased / mutual / '
        'optional-prefixed / named left recursion or right recursion or e op e, optional unary prefix, parenthesised atoms, '
        'cuts after operators, rule names and order permuted; inputs = ALL strings up to length 5 over the grammar\'s '
        'alphabet plus derivation-guided longer strings, with and without blanks; non-trivial = REF accepted the input and at least one '
        'seed-growing iteration happened; distinct by (grammar text, input).  PLUS wide layers: one precedence level with n operators, '
        'n swept over a fixed table (2, 8, 17, 20, 24, 31, 32, 33, 36, 40, 48, 64, 80) and drawn per seed from 2..64, laid out as '
        'alternatives of the layer rule / one rule per operator / operator rules through one alias or an alias chain each / '
        'grouped / mixed / a chain of rules, 1-2 layers, cuts, named operands, parentheses; inputs = operator chains over the first, '
        'last, middle and random operators, with and without blanks, and malformed neighbours (count shrinking with n).  PLUS the same '
        'layouts with a constant that fails to evaluate inside one operator alternative.  PLUS the same layouts (n mostly 1-6, sometimes '
        '30-40; optional tail {op atom} and $ after the expression) parsed with a semantics class whose actions on layer rules, '
        'operator rules or aliases raise FailedSemantics on a pure predicate of the value (operand count >k / ==k, last operand, '
        'last operator, length parity, membership in a symbol table made of prefixes of the input, tree depth) and return the value or '
        'its joined text; non-trivial there = REF saw the head of a growth rejected on a pass after a seed had been accepted')
ASSUMPTIONS = [
    'REF implements the documented seed-growing semantics (bounded by a step budget)',
    'the precedence-climbing oracle applies to layers whose shape it models (direct/aliased/mutual-alias/named/right/e-op-e, '
    'unary prefix, parentheses); optional-prefixed and two-operator mutual layers are decided by REF alone',
    '"terminates" is restated as: within B(grammar, len) rule invocations (heart budget) and below an explicit recursion limit',
    'wide layers: the precedence-climbing oracle tries the operators in the order the grammar tries them (ordered choice; operator '
    'tokens may be prefixes of each other) and gives a cut after an operator the scope of the choice it is written in',
    'a semantic action that raises FailedSemantics, or a constant that fails to evaluate, fails THAT evaluation of the rule body '
    '(C06: like a syntax mismatch); for the head of a left recursion "growing the seed until it stops advancing" then reads: a failed '
    'evaluation on a later pass ends the growth and the last accepted seed stays (the unchanged tree behaves so); the scope of a '
    'failing constant inside the rule (whole rule / the expression) is left open by the documentation and both readings are accepted',
    'actions are pure functions of the value they receive, so how often a back-end invokes them does not matter',
]
FLOORS = {
    'quick': {'lr_grown': 4000, 'pc_compared': 4000, 'gen_compared': 1500, 'kind:direct': 15, 'kind:aliased': 15,
              'kind:mutual': 15, 'kind:optprefix': 15, 'kind:named': 15, 'kind:right': 10, 'kind:both': 10,
              'unary': 15, 'parens': 30, 'with_cut': 15, 'kind:direct_alias': 10, 'kind:aliased2': 10, 'long_chain_parsed': 16, 'kind:override_group': 10, 'kind:optwrap': 10, 'callatom': 15,
              # wide layers / failing constants / rejecting semantic actions (calibrated on seeds 0,1,2,3,7: about half the minimum seen)
              'wide_grammars': 32, 'wide_rules_in_cycle:32+': 6, 'wide_rules_in_cycle:8-31': 4, 'wide_rules_in_cycle:<8': 3,
              'wide_compared': 300, 'wide_pc_compared': 300, 'wide_lr_grown': 250, 'wide_gen_compared': 100,
              'const_failed_in_leader_body': 40, 'const_failed_in_oprule': 80, 'const_gen_compared': 100,
              'sem_compared': 1200, 'sem_gen_compared': 600, 'sem_leader_rejected_on_later_pass': 180,
              'sem_seed_pass_rejected': 50, 'sem_nonleader_rejected': 35, 'sem_transform_join': 100, 'sem_with_tail': 12},
    'thorough': {'lr_grown': 100000, 'pc_compared': 100000, 'gen_compared': 30000, 'wide_grammars': 400, 'wide_rules_in_cycle:32+': 60,
                 'wide_pc_compared': 4000, 'const_failed_in_leader_body': 400, 'sem_leader_rejected_on_later_pass': 2500},
}
PEAK_COUNTERS = ('max_long_chain_depth', 'max_growth', 'max_ref_depth', 'max_wide_ops', 'max_wide_cycle_rules')
N = {'quick': 192, 'thorough': 3200}

KINDS = ['direct', 'aliased', 'mutual', 'optprefix', 'named', 'right', 'both', 'mutual2', 'direct_alias', 'override_group', 'optwrap',
         'aliased2']
OPS = ['+', '*', '-', '/']


def plan(tier, seed):
    k = 16 if tier == 'quick' else 64
    return [{'seed': seed, 'shard': i, 'n': N[tier] // k, 'tier': tier} for i in range(k)]


class Spec:
    """operator table of one generated grammar"""

    def __init__(self, rng):
        self.nlayers = rng.choice([1, 1, 2, 2, 3, 4])
        self.layers = []
        ops = rng.sample(OPS, self.nlayers)
        for i in range(self.nlayers):
            kind = rng.choice(KINDS if rng.random() < 0.8 else ['direct', 'named', 'aliased'])
            if kind == 'override_group' and i > 0:
                # only as the top layer: elsewhere its FINAL value (an open list) would be the first element of a caller's
                # sequence and be spliced there - the recorded C01 finding, which would mask real differences here
                kind = 'direct'
            self.layers.append({'kind': kind, 'op': ops[i], 'cut': rng.random() < 0.25,
                                'unary': rng.random() < 0.2, 'op2': rng.choice([o for o in OPS if o != ops[i]])})
        self.parens = rng.random() < 0.6
        self.callatom = rng.random() < 0.2     # atom 'f' '(' ','.{e0} ')' : a gather of a left-recursive element
        self.eof = rng.random() < 0.5
        names = [f'e{i}' for i in range(self.nlayers)] + [f'x{i}' for i in range(self.nlayers)] + ['atom', 'num', 'start']
        pool = ['a', 'b', 'c', 'd', 'f', 'g', 'h', 'k', 'm', 'p', 'q', 'r', 's', 'w', 'y', 'z']
        rng.shuffle(pool)
        self.nm = {n: pool[i] + rng.choice(['', '1', '_r']) for i, n in enumerate(names)}
        self.order_seed = rng.random()

    def alphabet(self):
        a = ['1', '2'] + [l['op'] for l in self.layers]
        for l in self.layers:
            if l['unary'] and '-' not in a:
                a.append('-')
            if l['kind'] == 'optprefix' and '-' not in a:
                a.append('-')
            if l['kind'] in ('mutual2', 'direct_alias', 'aliased2') and l['op2'] not in a:
                a.append(l['op2'])
        if self.parens or self.callatom:
            a += ['(', ')']
        if self.callatom:
            a += ['f', ',']
        return a

    def grammar(self):
        nm = self.nm
        rules = []
        for i, l in enumerate(self.layers):
            e = nm[f'e{i}']
            x = nm[f'x{i}']
            nxt = nm[f'e{i + 1}'] if i + 1 < self.nlayers else nm['atom']
            op = [L.Tok(l['op'])] + ([L.Cut()] if l['cut'] else [])
            C = L.Call
            opts = []
            if l['unary']:
                opts.append(L.Seq((L.Tok('-'), C(e))))
            k = l['kind']
            if k == 'direct':
                opts += [L.Seq((C(e), *op, C(nxt))), C(nxt)]
            elif k == 'aliased':
                rules.append(L.Rule(x, C(e)))
                opts += [L.Seq((C(x), *op, C(nxt))), C(nxt)]
            elif k == 'mutual':
                rules.append(L.Rule(x, C(e)))
                opts += [L.Seq((C(x), *op, C(nxt))), C(nxt)]
                # same shape as aliased but the alias rule is placed AFTER (order permutation below)
            elif k == 'mutual2':
                rules.append(L.Rule(x, L.Choice((L.Seq((C(e), L.Tok(l['op2']), C(nxt))), C(e)))))
                opts += [L.Seq((C(x), *op, C(nxt))), C(nxt)]
            elif k == 'optprefix':
                opts += [L.Seq((L.Opt(L.Tok('-')), C(e), *op, C(nxt))), C(nxt)]
            elif k == 'named':
                opts += [L.Seq((L.Named('l', C(e)), L.Named('op', L.Tok(l['op'])), *op[1:], L.Named('r', C(nxt)))), C(nxt)]
            elif k == 'direct_alias':
                # the same rule is left recursive directly AND through an alias
                rules.append(L.Rule(x, C(e)))
                opts += [L.Seq((C(e), *op, C(nxt))), L.Seq((C(x), L.Tok(l['op2']), C(nxt))), C(nxt)]
            elif k == 'aliased2':
                # two operator alternatives through the alias: the non-leader rule runs twice at one position per iteration
                rules.append(L.Rule(x, C(e)))
                opts += [L.Seq((C(x), *op, C(nxt))), L.Seq((C(x), L.Tok(l['op2']), C(nxt))), C(nxt)]
            elif k == 'override_group':
                opts += [L.Over(L.Group(L.Seq((C(e), *op, C(nxt))))), C(nxt)]
            elif k == 'optwrap':
                opts = opts + [L.Seq((L.Opt(L.Seq((C(e), *op))), C(nxt)))]
            elif k == 'right':
                opts += [L.Seq((C(nxt), *op, C(e))), C(nxt)]
            elif k == 'both':
                opts += [L.Seq((C(e), *op, C(e))), C(nxt)]
            rules.append(L.Rule(e, L.Choice(tuple(opts))))
        atom_opts = []
        if self.parens:
            atom_opts.append(L.Seq((L.Tok('('), L.Call(nm['e0']), L.Tok(')'))))
        if self.callatom:
            atom_opts.append(L.Seq((L.Tok('f'), L.Tok('('), L.Join(L.Tok(','), L.Call(nm['e0']), False, True), L.Tok(')'))))
        atom_opts.append(L.Call(nm['num']))
        rules.append(L.Rule(nm['atom'], L.Choice(tuple(atom_opts)) if len(atom_opts) > 1 else atom_opts[0]))
        rules.append(L.Rule(nm['num'], L.Pat(r'\d')))
        r2 = random.Random(self.order_seed)
        r2.shuffle(rules)
        start = L.Rule(nm['start'], L.Seq((L.Call(nm['e0']), L.EOF())) if self.eof else L.Call(nm['e0']))
        return L.Grammar([start] + rules)

    def pc_applicable(self):
        return all(l['kind'] not in ('optprefix', 'mutual2') and not (l['kind'] == 'optwrap' and l['unary'])
                   for l in self.layers)


# ------------------------------------------------- precedence-climbing oracle
class PCFail(Exception):
    pass


class PC:
    """independent evaluator: loops instead of left recursion, built from the operator table"""

    def __init__(self, spec: Spec, text: str):
        self.s = spec
        self.t = text
        self.steps = 0

    def ws(self, p):
        while p < len(self.t) and self.t[p].isspace():
            p += 1
        return p

    def tok(self, p, s):
        p = self.ws(p)
        if self.t.startswith(s, p):
            return p + len(s)
        raise PCFail

    def layer(self, i, p):
        self.steps += 1
        if self.steps > 20000:
            raise RecursionError
        if i >= self.s.nlayers:
            return self.atom(p)
        l = self.s.layers[i]
        k = l['kind']
        if k == 'right':
            # e = ['-' e |] t op e | t
            if l['unary']:
                try:
                    q = self.tok(p, '-')
                    q, v = self.layer(i, q)
                    return q, ['-', v]
                except PCFail:
                    pass
            q, lft = self.layer(i + 1, p)
            try:
                q2 = self.tok(q, l['op'])
            except PCFail:
                return q, lft
            try:
                q2, r = self.layer(i, q2)
                return q2, [lft, l['op'], r]
            except PCFail:
                if l['cut']:
                    raise  # ordinary PEG behaviour on the right: the cut after the operator commits the option
                return q, lft
        if l.get('ops') is not None:
            return self.wide_layer(i, l, p)
        # left-recursive layer: seed = first non-left-recursive option that matches, then grow
        seed = None
        if l['unary']:
            try:
                q = self.tok(p, '-')
                q, v = self.layer(i, q)
                seed = (q, ['-', v])
            except PCFail:
                seed = None
        if seed is None:
            seed = self.layer(i + 1, p)
        q, v = seed
        while True:
            used = None
            for op in ([l['op'], l['op2']] if k in ('direct_alias', 'aliased2') else [l['op']]):
                try:
                    q2 = self.tok(q, op)
                    q2, r = self.layer(i if k == 'both' else i + 1, q2)
                    used = op
                    break
                except PCFail:
                    continue
            if used is None:
                break
            if k == 'named':
                v = {'l': v, 'op': used, 'r': r}
            else:
                v = [v, used, r]
            q = q2
        return q, v

    def wide_layer(self, i, l, p):
        """a layer with MANY operators, each written as an alternative of the layer rule or in a rule of its own:
        operand, then as long as some operator (tried in the order the grammar tries them) is followed by an operand,
        fold to the left.  A cut after the operator commits the CHOICE the alternative is written in: the layer rule's own
        choice (scope None: that growth pass fails, the value grown so far stays) or the choice of the operator's rule
        (the other operators of that rule are not tried; the layer rule goes on with its next alternative)"""
        q, v = self.layer(i + 1, p)
        while True:
            used = None
            dead = set()
            for op, scope in l['ops']:
                if scope in dead:
                    continue
                try:
                    q2 = self.tok(q, op)
                except PCFail:
                    continue
                try:
                    q2, r = self.layer(i + 1, q2)
                except PCFail:
                    if l['cut']:
                        if scope is None:
                            return q, v
                        dead.add(scope)
                    continue
                used = op
                break
            if used is None:
                return q, v
            v = {'l': v, 'op': used, 'r': r} if l.get('named') else [v, used, r]
            q = q2

    def atom(self, p):
        if self.s.parens:
            try:
                q = self.tok(p, '(')
                q, v = self.layer(0, q)
                q = self.tok(q, ')')
                return q, ['(', v, ')']
            except PCFail:
                pass
        if self.s.callatom:
            try:
                q = self.tok(p, 'f')
                q = self.tok(q, '(')
                items, q = self.gather(q)
                q = self.tok(q, ')')
                return q, ['f', '(', items, ')']
            except PCFail:
                pass
        p = self.ws(p)
        if p < len(self.t) and self.t[p].isdigit() and self.t[p].isascii():
            return p + 1, self.t[p]
        raise PCFail

    def gather(self, p):
        """','.{e0}  ==  ','.{e0}+ | {} : a failure after a separator fails the positive gather, then the empty closure applies"""
        try:
            q, v = self.layer(0, p)
        except PCFail:
            return [], p
        items = [v]
        while True:
            try:
                q2 = self.tok(q, ',')
            except PCFail:
                return items, q
            try:
                q2, v = self.layer(0, q2)
            except PCFail:
                return [], p
            items.append(v)
            q = q2

    def run(self):
        try:
            q, v = self.layer(0, 0)
            if self.s.eof:
                q = self.ws(q)
                if q < len(self.t):
                    return ('fail',)
                return ('ok', q, [v] if False else v)
            return ('ok', q, v)
        except PCFail:
            return ('fail',)


# ------------------------------------------------------------------ workload
def inputs_for(rng, spec, tier):
    al = spec.alphabet()
    out = []
    maxlen = 5 if len(al) <= 5 else 4
    for n in range(maxlen + 1):
        for t in itertools.product(al, repeat=n):
            out.append(''.join(t))
    cap = 200 if tier == 'quick' else 400
    if len(out) > cap:
        keep = out[:1 + len(al) + len(al) ** 2]
        rest = out[len(keep):]
        rng.shuffle(rest)
        out = keep + rest[:cap - len(keep)]
    # longer well-formed-ish expressions, with blanks
    ops = [l['op'] for l in spec.layers]
    for _ in range(40 if tier == 'quick' else 120):
        n = rng.randrange(2, 7)
        s = ''
        for i in range(n):
            if rng.random() < 0.15 and (spec.parens):
                s += '(' + rng.choice('12') + rng.choice(ops) + rng.choice('12') + ')'
            else:
                if rng.random() < 0.15:
                    s += '-'
                s += rng.choice('12')
            if i < n - 1:
                sp = rng.choice(['', '', ' ', '  '])
                s += sp + rng.choice(ops) + sp
        if rng.random() < 0.2:
            s += rng.choice(ops + [')', ' '])
        out.append(s)
    return out


def check_grammar(acc, spec, g, rng, tier, origin, texts=None, fam=None, gen_every=6, label=''):
    start = g.rules[0].name
    case = D.Case(g, start)
    for l in spec.layers:
        acc.count('kind:' + l['kind'])
        if l['unary']:
            acc.count('unary')
        if l['cut']:
            acc.count('with_cut')
    if spec.parens:
        acc.count('parens')
    if spec.callatom:
        acc.count('callatom')
    if case.model is None:
        acc.evaluations += 1
        acc.violation('exc:build:' + case.build_error[0], f'model construction failed: {case.build_error} for {L.grammar_text(g)!r}',
                      {'grammar': L.to_json(g), 'grammar_text': L.grammar_text(g), 'text': '', 'spec': None})
        return
    # analysis flags read from the public Rule attributes (evidence)
    lrec_marked = set()
    sccs = left_sccs(g)
    try:
        for r in case.model.rules:
            if getattr(r, 'is_lrec', False):
                acc.count('rules_marked_lrec')
                lrec_marked.add(r.name)
    except Exception:  # noqa: BLE001
        acc.note('Rule.is_lrec unobserved')
    if texts is None:
        texts = inputs_for(rng, spec, tier)
    kinds = '+'.join(sorted({l["kind"] for l in spec.layers}))
    gen = None
    reused = None
    runaway = 0
    for idx, text in enumerate(texts):
        if runaway >= 2:
            acc.count('inputs_skipped_after_runaway')
            continue
        tag, a, b, r = D.compare(case, text)
        acc.evaluations += 1
        if tag in ('exc:StepBudget', 'exc:RecursionError'):
            runaway += 1
        if tag == 'ref-budget':
            acc.count('ref_budget')
            continue
        acc.peak('max_growth', r.lr_growth)
        acc.peak('max_ref_depth', r.max_depth)
        if fam:
            acc.count(fam + '_compared')
        if a[0] == 'ok':
            acc.count('accepted')
            if r.lr_growth:
                acc.count('lr_grown')
                acc.nontriv(L.grammar_text(g), text)
                if fam:
                    acc.count(fam + '_lr_grown')
        if 'failing-constant' in r.nonw and getattr(spec, 'const', None):
            # a constant that fails to evaluate sits AFTER the left-recursive call of an operator alternative: it is never
            # reached by a seed pass of the layer rule, so in the layer rule's own body it has ended a LATER growth pass
            acc.count('const_failed_in_' + spec.const_where())
        if tag is not None:
            # the recorded finding: the growth head is a rule of a cycle that TatSu does not mark, the marked one being
            # the smallest name of the cycle; a head that IS the smallest name and still unmarked is something else
            nonleader = sorted(h for h in r.lr_heads if h not in lrec_marked and h != min(sccs.get(h, {h})))
            if nonleader and tag in ('accept', 'len', 'ast', 'reject'):
                acc.violation(f'{tag}/trigger:lr-entered-through-non-leader',
                              f'indirect left recursion entered through a rule that is not the marked leader ({nonleader}): '
                              f'{L.grammar_text(g)!r} input {text!r} REF={a} TATSU={b}',
                              D.witness(g, start, text, a, b, r, origin=origin))
                continue
            sig = f'{tag}/' + kinds
            acc.violation(sig, f'{label}left-recursive parse differs from seed growing ({tag}): {L.grammar_text(g)!r} input {text!r} REF={a} TATSU={b}',
                          D.witness(g, start, text, a, b, r, origin=origin))
            continue
        # second oracle
        if spec.pc_applicable():
            try:
                c = PC(spec, text).run()
            except RecursionError:
                c = None
            if c is not None:
                acc.count('pc_compared')
                if fam:
                    acc.count(fam + '_pc_compared')
                cc = (c[0], c[1], canon(c[2])) if c[0] == 'ok' else c
                if cc != b:
                    if cc == a or a != b:
                        pass
                    if cc != a:
                        # the two oracles disagree with each other: harness doubt, not a verdict
                        acc.count('oracle_disagreement')
                        acc.note(f'PC vs REF disagree on {L.grammar_text(g)!r} {text!r}: PC={cc} REF={a}')
                    elif sorted(h for h in r.lr_heads if h not in lrec_marked and h != min(sccs.get(h, {h}))):
                        # the recorded finding again, met on this path: REF and the operator-table oracle agree, the real
                        # parser differs, REF grew a head that TatSu does not mark (its marked leader is the smallest name
                        # of the cycle) - and the AST comparison above was left out because the execution carried a flag
                        nl = sorted(h for h in r.lr_heads if h not in lrec_marked and h != min(sccs.get(h, {h})))
                        acc.violation('ast/trigger:lr-entered-through-non-leader',
                                      f'indirect left recursion entered through a rule that is not the marked leader ({nl}): '
                                      f'{L.grammar_text(g)!r} input {text!r} REF=PC={cc} TATSU={b}',
                                      D.witness(g, start, text, cc, b, r, origin=origin))
                    else:
                        acc.violation('pc/' + kinds,
                                      f'{label}not the left-associative tree over the longest prefix: {L.grammar_text(g)!r} input {text!r} expected {cc} got {b}',
                                      D.witness(g, start, text, cc, b, r, origin=origin))
        # generated parser (sampled)
        if idx % gen_every == 0:
            if gen is None:
                try:
                    gen = gen_parser(L.to_model(g, name='T'))[0]
                except Exception as e:  # noqa: BLE001
                    gen = ('err', type(e).__name__, str(e)[:100])
            if isinstance(gen, tuple):
                acc.violation('gen-build:' + gen[1], f'code generation failed for left-recursive grammar: {gen} {L.grammar_text(g)!r}',
                              D.witness(g, start, text, a, b, r, origin=origin))
                gen = None
                continue
            m_out = model_plain(case, g, start, text)
            g_out = gen_plain(gen, g, start, text)
            acc.count('gen_compared')
            if fam:
                acc.count(fam + '_gen_compared')
            if 'named-not-single' in r.triggers and m_out[0] == g_out[0]:
                g_out = m_out   # C02's recorded naming defect of generated code (@:(group)): accept/reject still compared
            # one long-lived parser object across all inputs of this grammar (left-recursion tables must not leak)
            if reused is None:
                reused = gen()
            r_out = plain(lambda t, **kw: reused.parse(t, start=start, **kw), g, text)
            if 'named-not-single' in r.triggers and r_out[0] == g_out[0]:
                r_out = g_out   # same recorded naming defect: the bound "last node" is not a function of the input alone
            if r_out != g_out:
                acc.violation('gen-reused-object/' + kinds,
                              f'a reused generated parser object differs from a fresh one on a left-recursive grammar '
                              f'{L.grammar_text(g)!r} input {text!r}: FRESH={g_out} REUSED={r_out}',
                              D.witness(g, start, text, g_out, r_out, r, origin=origin))
            if m_out != g_out:
                acc.violation('gen/' + kinds,
                              f'{label}generated parser != model on left-recursive grammar {L.grammar_text(g)!r} input {text!r}: MODEL={m_out} GEN={g_out}',
                              D.witness(g, start, text, m_out, g_out, r, origin=origin))


_plain_models = {}


def model_plain(case, g, start, text):
    key = id(case)
    m = _plain_models.get(key)
    if m is None:
        _plain_models.clear()
        m = _plain_models[key] = L.to_model(g, name='T')
    return plain(lambda t, **kw: m.parse(t, start=start, **kw), g, text)


def gen_plain(cls, g, start, text):
    return plain(lambda t, **kw: cls().parse(t, start=start, **kw), g, text)


def plain(parse, g, text):
    from tatsu.exceptions import FailedParse
    try:
        return ('ok', canon(parse(text, heart=StepHeart(D.step_budget(g, text)))))
    except FailedParse:
        return ('fail',)
    except RecursionError:
        return ('EXC', 'RecursionError')
    except Exception as e:  # noqa: BLE001
        return ('EXC', type(e).__name__, str(e)[:80])


# ------------------------------------------------------------------ long chains
LONG_N = {'quick': 2500, 'thorough': 7000}
LONG_SHAPES = [
    ('direct', "start = e $ ;\ne = e '+' t | e '-' t | t ;\nt = /\\d/ ;\n", 'list', 1),
    ('named', "start = e $ ;\ne = l:e op:('+' | '-') r:t | t ;\nt = /\\d/ ;\n", 'dict', 1),
    ('aliased2', "start = e $ ;\nx = e ;\ne = x '+' t | x '-' t | t ;\nt = /\\d/ ;\n", 'list', 1),
    ('two-level', "start = e $ ;\ne = e '+' m | e '-' m | m ;\nm = m '*' t | t ;\nt = /\\d/ ;\n", 'list', 2),
]


def same_tree(a, b):
    """structural equality without recursion (the trees are thousands of levels deep); lists and tuples alike"""
    stack = [(a, b)]
    while stack:
        x, y = stack.pop()
        if isinstance(x, dict) or isinstance(y, dict):
            if not (isinstance(x, dict) and isinstance(y, dict)):
                return False
            kx = {k for k in x if 'parseinfo' not in k}
            if kx != {k for k in y if 'parseinfo' not in k}:
                return False
            stack.extend((x[k], y[k]) for k in kx)
        elif isinstance(x, (list, tuple)) or isinstance(y, (list, tuple)):
            if not (isinstance(x, (list, tuple)) and isinstance(y, (list, tuple))) or len(x) != len(y):
                return False
            stack.extend(zip(x, y))
        elif x != y or type(x) is not type(y):
            return False
    return True


def tree_depth(v):
    d = 0
    while isinstance(v, (list, tuple, dict)) and len(v):
        v = v['l'] if isinstance(v, dict) else v[0]
        d += 1
    return d


def run_long(desc, acc):
    """left recursion is grown iteratively: a chain of thousands of operators parses to the left-nested tree, whatever
    Python's recursion limit (documented: 'left recursion ... associate to the left'; termination without depth limit)"""
    import tatsu
    from tatsu.exceptions import FailedParse
    n = LONG_N[desc['tier']]
    rng = random.Random(h64('C03', 'long', desc['seed'], desc['shard']))
    kind, gtext, shape, levels = LONG_SHAPES[desc['shard'] % len(LONG_SHAPES)]
    model = tatsu.compile(gtext, name='T')
    gen = gen_parser(model)[0]
    digits = [rng.choice('123') for _ in range(n + 1)]
    ops = [rng.choice('+-') if levels == 1 or rng.random() < 0.5 else '*' for _ in range(n)]
    text = digits[0]
    for o, d in zip(ops, digits[1:]):
        sp = ' ' if rng.random() < 0.1 else ''
        text += sp + o + sp + d
    # expected: iterative left fold (two precedence levels: '*' binds tighter)
    def node(l, o, r):
        return {'l': l, 'op': o, 'r': r} if shape == 'dict' else [l, o, r]
    terms = [[digits[0]]]
    termops = []
    for o, d in zip(ops, digits[1:]):
        if o == '*':
            terms[-1].append(d)
        else:
            termops.append(o)
            terms.append([d])
    folded = []
    for t in terms:
        v = t[0]
        for d in t[1:]:
            v = node(v, '*', d)
        folded.append(v)
    expected = folded[0]
    for o, v in zip(termops, folded[1:]):
        expected = node(expected, o, v)
    for backend, parse in (('model', lambda: model.parse(text, heart=StepHeart(400 * n + 10000))),
                           ('generated', lambda: gen().parse(text, heart=StepHeart(400 * n + 10000)))):
        acc.evaluations += 1
        w = {'mode': 'long', 'grammar_text': gtext, 'n_ops': n, 'kind': kind, 'backend': backend,
             'text_head': text[:60], 'seed': desc['seed'], 'shard': desc['shard'], 'tier': desc['tier']}
        try:
            got = parse()
        except FailedParse as e:
            acc.violation(f'long-chain/fail/{kind}', f'{backend}: a chain of {n} left-associative operators failed to parse: '
                                                     f'{str(e)[:100]!r} grammar {gtext!r}', w)
            continue
        except BaseException as e:  # noqa: BLE001
            if isinstance(e, (KeyboardInterrupt, SystemExit)):
                raise
            acc.violation(f'long-chain/exc:{type(e).__name__}/{kind}',
                          f'{backend}: a chain of {n} left-associative operators raised {type(e).__name__} '
                          f'({str(e)[:80]}) at recursion limit {sys.getrecursionlimit()}: growth must be iterative; grammar {gtext!r}', w)
            continue
        acc.count('long_chain_parsed')
        acc.count('long_chain:' + kind)
        acc.peak('max_long_chain_depth', tree_depth(got))
        acc.nontriv('long', kind, backend, n)
        if not same_tree(got, expected):
            acc.violation(f'long-chain/ast/{kind}', f'{backend}: a chain of {n} operators did not give the left-nested tree '
                                                    f'(depth got {tree_depth(got)}, expected {tree_depth(expected)}); grammar {gtext!r}', w)


# ------------------------------------------------------------------ wide layers (many operators, many cycles)
SYMS = list('+-*/%&|^<>@~!=?:')
OP_POOL = SYMS + [a + b for a in SYMS for b in SYMS]      # 272 operator tokens, many of them prefixes of others
WIDE_LAYOUTS = ['rules', 'alias', 'alias_each', 'grouped', 'chain', 'direct', 'mixed']
# (layout, number of operators of the wide layer): swept every run whatever the seed; more sizes are drawn per seed
WIDE_ANCHORS = [('rules', 2), ('rules', 8), ('rules', 31), ('rules', 32), ('rules', 33), ('rules', 48), ('direct', 40),
                ('alias', 33), ('alias_each', 24), ('grouped', 80), ('mixed', 36), ('chain', 20), ('rules', 64),
                ('direct', 64), ('alias_each', 40), ('grouped', 17)]
WIDE_MAX = 64
FAILING_CONSTS = ('1/0', '[][0]')     # constants whose evaluation fails in every context (REF knows both)


class WideSpec:
    """operator table of a grammar whose precedence layers have MANY operators of one level, written the ways a language
    with dozens of binary operators is written:

      direct      e = e '+' t | e '-' t | ... | t ;
      rules       e = add | sub | ... | t ;   add = e '+' t ;   sub = e '-' t ; ...          (one rule per operator)
      alias       e = add | sub | ... | t ;   add = x '+' t ;   ... ;   x = e ;              (one alias on every cycle)
      alias_each  e = add | ... | t ;         add = x1 '+' t ;  x1 = e ; (or x1 = y1 ; y1 = e ;)
      grouped     e = g1 | g2 | ... | t ;     g1 = e '+' t | e '-' t ;  g2 = e '*' t | ...
      mixed       e = e '+' t | sub | e '*' t | ... | t ;   sub = e '-' t ;
      chain       e = c0 | t ;  c0 = c1 | e '+' t ;  c1 = c2 | e '-' t ; ...  (cycles of every length through c0)

    The layer rule's name is the smallest of its cycle, so the rule through which the recursion is entered is the one
    TatSu marks (the recorded finding about entry through another rule of the cycle stays out of this family).
    Same interface as Spec (PC reads `ops`: (token, scope) in the order the grammar tries them)."""

    callatom = False

    def __init__(self, rng, layout, n, small_other=True, nlayers=None):
        self.layout, self.n = layout, n
        nl = nlayers or rng.choice([1, 1, 2])
        sizes = [n] + [rng.randrange(1, 6) for _ in range(nl - 1)]
        layouts = [layout] + [rng.choice(WIDE_LAYOUTS) for _ in range(nl - 1)]
        pool = rng.sample(OP_POOL, sum(sizes))
        order = list(range(nl))
        rng.shuffle(order)          # which precedence level the wide layer is
        self.layers = []
        for k in order:
            ops, pool = pool[:sizes[k]], pool[sizes[k]:]
            self.layers.append(self._layer(rng, layouts[k], ops))
        self.nlayers = nl
        self.parens = rng.random() < 0.5
        self.eof = rng.random() < 0.5
        self.tail = False           # start = e {anyop atom} [$] : what follows an early end of the growth is still parsed
        self.const = None           # (layer, operator index, where, constant text)
        suf = lambda: rng.choice(['', '', '1', '_r'])  # noqa: E731
        lead = rng.sample('abcde', nl)
        self.lname = [lead[i] + str(i) + suf() for i in range(nl)]
        self.oletter = rng.sample('fghkmpqrw', nl)
        self.atom = 't' + suf()
        self.num = 'n' + suf()
        self.start = 's' + suf()
        self.order_seed = rng.random()

    @staticmethod
    def _layer(rng, layout, ops):
        n = len(ops)
        if layout == 'direct':
            place = [None] * n
        elif layout == 'grouped':
            place, k = [], 0
            while len(place) < n:
                place += [k] * rng.choice([2, 2, 3])
                k += 1
            place = place[:n]
        elif layout == 'mixed':
            place = [j if rng.random() < 0.5 else None for j in range(n)]
        else:
            place = list(range(n))
        cut = rng.random() < 0.25 and layout != 'chain'
        trial = list(zip(ops, place))
        if layout == 'chain':
            trial.reverse()         # c0 = c1 | e op0 t : the deepest rule's operator is tried first
        return {'kind': 'wide_' + layout, 'layout': layout, 'decl': list(zip(ops, place)), 'ops': trial, 'op': ops[0],
                'op2': None, 'cut': cut, 'unary': False, 'named': rng.random() < 0.2,
                'hops': rng.choice([1, 1, 2])}

    def describe(self):
        return ' / '.join(f'{l["layout"]} layer with {len(l["ops"])} operators in {len({s for _, s in l["ops"] if s is not None})} '
                          f'rules of their own' for l in self.layers)

    def all_ops(self):
        return [o for l in self.layers for o, _ in l['decl']]

    def max_cycle_rules(self):
        return max(len({s for _, s in l['ops'] if s is not None}) for l in self.layers)

    def const_where(self):
        i, j, _, _ = self.const
        return 'leader_body' if self.layers[i]['decl'][j][1] is None else 'oprule'

    def pc_applicable(self):
        return not self.tail and self.const is None

    def roles(self):
        """rule name -> 'leader' | 'oprule' | 'alias' for the rules of the left-recursive cycles"""
        if getattr(self, '_roles', None) is not None:
            return self._roles
        out = self._roles = {}
        for r in self.grammar().rules:
            if r.name in self.lname:
                out[r.name] = 'leader'
            elif r.name[0] in self.oletter:
                out[r.name] = 'oprule'
            elif r.name[0] in 'xy':
                out[r.name] = 'alias'
        return out

    def grammar(self):
        C = L.Call
        rules = []
        for i, l in enumerate(self.layers):
            e = self.lname[i]
            nxt = self.lname[i + 1] if i + 1 < self.nlayers else self.atom
            o = self.oletter[i]

            def opseq(lhs, j, op, l=l, i=i, nxt=nxt):
                w = (lambda n, x: L.Named(n, x)) if l['named'] else (lambda n, x: x)
                items = [w('l', lhs), w('op', L.Tok(op))] + ([L.Cut()] if l['cut'] else []) + [w('r', C(nxt))]
                if self.const and self.const[:2] == (i, j):
                    at = {'after_lhs': 1, 'after_op': len(items) - 1, 'end': len(items)}[self.const[2]]
                    items.insert(at, L.Const(self.const[3]))
                return L.Seq(tuple(items))

            def lhs_of(k, l=l, i=i, e=e):
                """what an operator rule calls first: the layer rule, or an alias (chain) of it"""
                if l['layout'] == 'alias':
                    return C(f'x{i}')
                if l['layout'] == 'alias_each':
                    return C(f'x{i}_{k}')
                return C(e)

            if l['layout'] == 'chain':
                n = len(l['decl'])
                rules.append(L.Rule(e, L.Choice((C(f'{o}0'), C(nxt)))))
                for j, (op, _) in enumerate(l['decl']):
                    own = opseq(C(e), j, op)
                    rules.append(L.Rule(f'{o}{j}', L.Choice((C(f'{o}{j + 1}'), own)) if j + 1 < n else own))
                continue
            opts, groups = [], {}
            for j, (op, k) in enumerate(l['decl']):
                if k is None:
                    opts.append(opseq(C(e), j, op))
                else:
                    if k not in groups:
                        groups[k] = []
                        opts.append(C(f'{o}{k}'))
                    groups[k].append(opseq(lhs_of(k), j, op))
            opts.append(C(nxt))
            rules.append(L.Rule(e, L.Choice(tuple(opts))))
            for k, alts in groups.items():
                rules.append(L.Rule(f'{o}{k}', L.Choice(tuple(alts)) if len(alts) > 1 else alts[0]))
                if l['layout'] == 'alias_each':
                    if l['hops'] == 2:
                        rules.append(L.Rule(f'x{i}_{k}', C(f'y{i}_{k}')))
                        rules.append(L.Rule(f'y{i}_{k}', C(e)))
                    else:
                        rules.append(L.Rule(f'x{i}_{k}', C(e)))
            if l['layout'] == 'alias':
                rules.append(L.Rule(f'x{i}', C(e)))
        if self.parens:
            rules.append(L.Rule(self.atom, L.Choice((L.Seq((L.Tok('('), C(self.lname[0]), L.Tok(')'))), C(self.num)))))
        else:
            rules.append(L.Rule(self.atom, C(self.num)))
        rules.append(L.Rule(self.num, L.Pat(r'\d')))
        random.Random(self.order_seed).shuffle(rules)
        body = [C(self.lname[0])]
        if self.tail:
            body.append(L.Clo(L.Seq((L.Choice(tuple(L.Tok(o) for o in self.all_ops())), C(self.atom)))))
        if self.eof:
            body.append(L.EOF())
        return L.Grammar([L.Rule(self.start, L.Seq(tuple(body)) if len(body) > 1 else body[0])] + rules)


def chain_text(rng, spec, n_operands, ops):
    s = ''
    for i in range(n_operands):
        if spec.parens and rng.random() < 0.12:
            s += '(' + rng.choice('123') + rng.choice(ops) + rng.choice('123') + ')'
        else:
            s += rng.choice('123')
        if i < n_operands - 1:
            sp = rng.choice(['', '', ' ', '  '])
            s += sp + rng.choice(ops) + sp
    return s


def wide_inputs(rng, spec, n_chains=None):
    """operator chains that use the first, the last, a middle and random operators of every layer, with and without
    blanks, plus the usual malformed neighbours (trailing operator, two operators in a row, unknown character).
    The number of inputs shrinks with the number of operators (every growth pass tries them all): a budget by count"""
    allops = spec.all_ops()
    big = len(allops) >= 24
    if n_chains is None:
        n_chains = max(3, min(14, 200 // len(allops)))
    picks = []
    for l in spec.layers:
        ops = [o for o, _ in l['decl']]
        picks += [ops[0], ops[-1], ops[len(ops) // 2]]
    picks += rng.sample(allops, min(1 if big else 4, len(allops)))
    picks = list(dict.fromkeys(picks))
    out = ['1']
    for o in picks:
        sp = rng.choice(['', ' '])
        out.append('1' + sp + o + sp + '2')
    for k in range(n_chains):
        out.append(chain_text(rng, spec, rng.randrange(3, 6 if big else 8), picks if k % 2 else allops))
    o1, o2 = rng.choice(allops), rng.choice(allops)
    bad = ['1' + o1, '1' + o1 + o2 + '2', o1 + '1', '1 $ 2', '1' + o1 + '2' + o2, '1 ' + o1 + ' ' + o2 + ' 2 ' + o1 + ' 3', '']
    if spec.parens:
        bad += ['(1' + o1 + '2)' + o2 + '3', '1' + o1 + '(2' + o2 + '3)', '(1' + o1 + '2', '((1)' + o2 + '2)' + o1 + '(3)']
    out += rng.sample(bad, 3) if big else bad
    return list(dict.fromkeys(out))


def wide_cases(desc):
    """(layout, operator count) pairs of this shard: two anchors (the whole anchor table is swept by the 8 shards of a quick
    run) and sizes drawn per (seed, shard)"""
    j = desc['shard'] - 2 * len(LONG_SHAPES)
    rng = random.Random(h64('C03', 'wide-plan', desc['seed'], desc['shard']))
    k = len(WIDE_ANCHORS)
    cases = [WIDE_ANCHORS[(2 * j) % k], WIDE_ANCHORS[(2 * j + 1) % k]]
    for _ in range(2 if desc['tier'] == 'quick' else 6):
        cases.append((rng.choice(WIDE_LAYOUTS), rng.randrange(2, WIDE_MAX + 1)))
    return cases


def run_wide(desc, acc):
    for i, (layout, n) in enumerate(wide_cases(desc)):
        rng = random.Random(h64('C03', 'wide', desc['seed'], desc['shard'], i))
        spec = WideSpec(rng, layout, n)
        g = spec.grammar()
        acc.count('wide_grammars')
        acc.count('wide_layout:' + layout)
        k = spec.max_cycle_rules()
        acc.count('wide_rules_in_cycle:' + ('<8' if k < 8 else '8-31' if k < 32 else '32+'))
        acc.peak('max_wide_ops', n)
        acc.peak('max_wide_cycle_rules', k)
        check_grammar(acc, spec, g, rng, desc['tier'], {'shard': desc['shard'], 'wide': i}, texts=wide_inputs(rng, spec),
                      fam='wide', gen_every=3, label=f'[{spec.describe()}] ')
        if i == 0:
            acc.sample({'wide': spec.describe(), 'grammar': L.grammar_text(g)[:600]})
    # constants that fail to evaluate inside an operator alternative of a (small or wide) layer
    for i in range(4 if desc['tier'] == 'quick' else 10):
        rng = random.Random(h64('C03', 'const', desc['seed'], desc['shard'], i))
        n = rng.choice([1, 2, 3, 4, 6, rng.randrange(2, 40)])
        spec = WideSpec(rng, rng.choice(['direct', 'direct', 'mixed', 'rules', 'grouped', 'alias']), n)
        li = rng.randrange(spec.nlayers)
        spec.const = (li, rng.randrange(len(spec.layers[li]['decl'])), rng.choice(['after_lhs', 'after_op', 'end']),
                      rng.choice(FAILING_CONSTS))
        for l in spec.layers:
            l['kind'] += '+const'
        g = spec.grammar()
        acc.count('const_grammars')
        texts = wide_inputs(rng, spec, n_chains=8)
        cop = spec.layers[li]['decl'][spec.const[1]][0]
        others = spec.all_ops()
        for _ in range(8):     # chains that reach the alternative with the constant after some growth
            t = chain_text(rng, spec, rng.randrange(2, 5), others)
            sp = rng.choice(['', ' '])
            texts.append(t + sp + cop + sp + chain_text(rng, spec, rng.randrange(1, 4), others))
        check_grammar(acc, spec, g, rng, desc['tier'], {'shard': desc['shard'], 'const': i}, texts=list(dict.fromkeys(texts)),
                      fam='const', gen_every=3,
                      label=f'[constant `{spec.const[3]}` in an operator alternative ({spec.const_where()}), {spec.describe()}] ')


# ------------------------------------------------------------------ semantic actions on left-recursive rules
def leaves(v):
    """the leaf texts of an AST value, left to right (dict values by key: l < op < r)"""
    out, stack = [], [v]
    while stack:
        x = stack.pop()
        if isinstance(x, dict):
            stack.extend(x[k] for k in sorted(x, reverse=True) if 'parseinfo' not in k)
        elif isinstance(x, (list, tuple)):
            stack.extend(reversed(x))
        elif x is not None:
            out.append(str(x))
    return out


def sem_pred(desc):
    """a pure predicate 'reject this value' on the canonical AST a rule produced; desc is JSON-able"""
    kind, arg = desc

    def f(v):
        s = ''.join(leaves(v))
        if kind == 'operands>':
            return sum(c.isdigit() for c in s) > arg
        if kind == 'operands==':
            return sum(c.isdigit() for c in s) == arg
        if kind == 'last==':
            return s[-1:] == arg
        if kind == 'lastopchar':
            return len(s) > 1 and s[-2] in arg
        if kind == 'len%2==':
            return len(s) % 2 == arg
        if kind == 'unknown':
            return s not in arg
        if kind == 'depth>':
            return tree_depth(v) > arg
        raise ValueError(kind)
    return f


def sem_plan(rng, spec, text):
    """which rules get an action, what it rejects, what it returns"""
    roles = spec.roles()
    by = {}
    for n, r in sorted(roles.items()):
        by.setdefault(r, []).append(n)
    x = rng.random()
    if x < 0.55:
        targets = [rng.choice(by['leader'])]
    elif x < 0.7:
        targets = list(by['leader'])
    elif x < 0.85 and (by.get('oprule') or by.get('alias')):
        pool = by.get('oprule', []) + by.get('alias', [])
        targets = rng.sample(pool, min(len(pool), rng.choice([1, 2, 3])))
    else:
        pool = by.get('oprule', []) + by.get('alias', [])
        targets = [rng.choice(by['leader'])] + (rng.sample(pool, 1) if pool else [])
    transform = rng.choice(['identity', 'identity', 'join'])
    kinds = ['operands>', 'operands>', 'operands==', 'last==', 'lastopchar', 'len%2==', 'unknown']
    if transform == 'identity':
        kinds.append('depth>')
    kind = rng.choice(kinds)
    if kind == 'operands>':
        arg = rng.choice([1, 2, 2, 3, 4])
    elif kind == 'operands==':
        arg = rng.choice([1, 2, 3, 3, 4])
    elif kind == 'last==':
        arg = rng.choice('123')
    elif kind == 'lastopchar':
        arg = ''.join(sorted({o[-1] for o in rng.sample(spec.all_ops(), max(1, len(spec.all_ops()) // 2))}))
    elif kind == 'len%2==':
        arg = rng.choice([0, 1])
    elif kind == 'depth>':
        arg = rng.choice([0, 1, 2])
    else:
        # a symbol table: the blank-free prefixes of the input that end with an operand, some of them unknown
        flat = ''.join(text.split())
        ends = [k + 1 for k, c in enumerate(flat) if c.isdigit()]
        known = [flat[:k] for n, k in enumerate(ends) if rng.random() < (0.9 if n < 2 else 0.5)]
        arg = sorted(set(known + ['1', '2', '3'] if rng.random() < 0.8 else known))
    return {'targets': sorted(targets), 'pred': [kind, arg], 'transform': transform}


def make_semantics(plan, seen):
    """a semantics CLASS with one method per target rule, the way a user writes a name resolver or a type checker"""
    from tatsu.exceptions import FailedSemantics
    pred = sem_pred(plan['pred'])
    join = plan['transform'] == 'join'

    def action(self, ast, *args, **kwargs):
        v = canon(ast)
        seen['calls'] = seen.get('calls', 0) + 1
        if pred(v):
            seen['rejected'] = seen.get('rejected', 0) + 1
            raise FailedSemantics(f'rejected by the semantics: {plan["pred"][0]}')
        return ''.join(leaves(v)) if join else ast
    return type('Checker', (), {t: action for t in plan['targets']})()


def ref_sem(g, text, start, plan, max_steps=30000):
    """REF with the same action applied at every successful rule-body evaluation: a rejection is a failure of THAT
    evaluation of the body - of a seed pass: the rule fails; of a later growth pass: the growth ends, the seed stays"""
    pred = sem_pred(plan['pred'])
    join = plan['transform'] == 'join'
    targets = set(plan['targets'])
    info = {'late': 0, 'seedpass': 0, 'nonhead': 0}

    def action(rule, val, pos, end):
        if rule.name not in targets:
            return val
        v = canon(val)
        if pred(v):
            seed = ref.growing.get((rule.name, pos))
            if seed is not None and seed['res'] is not None:
                info['late'] += 1           # the rule is the head of a growth and already holds an accepted seed
            elif seed is not None and seed['used']:
                info['seedpass'] += 1
            else:
                info['nonhead'] += 1
            raise PFail(end, 'semantics')
        return ''.join(leaves(v)) if join else val
    ref = Ref(g, text, max_steps=max_steps, action=action)
    try:
        end, val = ref.parse(start)
        a = ('ok', end, canon(val))
    except PFail:
        a = ('fail',)
    except (RefBudget, RecursionError):
        a = ('budget',)
    return a, ref, info


SEM_LAYOUTS = ['direct', 'direct', 'rules', 'rules', 'alias', 'alias_each', 'grouped', 'mixed', 'chain']


def sem_spec(rng):
    n = rng.choice([1, 2, 2, 3, 4, 6]) if rng.random() < 0.9 else rng.randrange(30, 41)
    spec = WideSpec(rng, rng.choice(SEM_LAYOUTS), n)
    x = rng.random()
    spec.tail = x < 0.5                  # the rest of the grammar goes on from where the growth ended
    spec.eof = rng.random() < (0.7 if spec.tail else 0.3)
    for l in spec.layers:
        l['cut'] = False
    return spec


def sem_backends(g, start):
    model = build(wrapped(g, start))
    return model, gen_parser(model)[0]


def sem_one(acc, spec, g, start, text, plan, backends, lrec_marked, sccs, origin):
    a, r, info = ref_sem(g, text, start, plan)
    if a[0] == 'budget':
        acc.count('ref_budget')
        return
    if info['late']:
        acc.count('sem_leader_rejected_on_later_pass')
    if info['seedpass']:
        acc.count('sem_seed_pass_rejected')
    if info['nonhead']:
        acc.count('sem_nonleader_rejected')
    if plan['transform'] == 'join':
        acc.count('sem_transform_join')
    kinds = '+'.join(sorted({l['kind'] for l in spec.layers}))
    outs = {}
    for bk, obj in backends.items():
        seen = {}
        sem = make_semantics(plan, seen)
        parser = obj() if isinstance(obj, type) else obj
        b = run_wrapped(parser, text, budget=D.step_budget(g, text), semantics=sem)
        outs[bk] = b
        acc.evaluations += 1
        acc.count('sem_compared')
        if seen.get('rejected'):
            acc.count('sem_rejections_observed')
        if a[0] == 'ok' and info['late']:
            acc.nontriv(L.grammar_text(g), text, crepr(plan), bk)
        tag = D.relation(a, b, bool(r.nonw))
        if tag is None:
            continue
        w = D.witness(g, start, text, a, b, r, origin=origin, mode='sem', plan=plan, backend=bk)
        nonleader = sorted(h for h in r.lr_heads if h not in lrec_marked and h != min(sccs.get(h, {h})))
        if nonleader and tag in ('accept', 'len', 'ast', 'reject'):
            acc.violation(f'{tag}/trigger:lr-entered-through-non-leader',
                          f'indirect left recursion entered through a rule that is not the marked leader ({nonleader}), with '
                          f'semantic actions: {L.grammar_text(g)!r} input {text!r} REF={a} TATSU={b}', w)
            continue
        when = ('on a growth pass after a seed had been accepted' if info['late'] else
                'on a seed pass' if info['seedpass'] else 'in a rule that is not growing' if info['nonhead'] else 'never')
        acc.violation(f'sem-{tag}/{kinds}',
                      f'{bk}: left-recursive rule under rejecting semantic actions differs from seed growing ({tag}): a rejected '
                      f'evaluation of the rule body ends the growth and keeps the last accepted seed, the parse goes on from there; '
                      f'actions on {plan["targets"]} reject {plan["pred"][0]} {plan["pred"][1]!r}, returning {plan["transform"]} '
                      f'(REF saw a rejection {when}); [{spec.describe()}] {L.grammar_text(g)!r} input {text!r} REF={a} TATSU={b}', w)
    if len(outs) == 2:
        acc.count('sem_gen_compared')
        m, c = outs['model'], outs['generated']
        if m != c:
            acc.violation(f'sem-gen/{kinds}',
                          f'generated parser != model on a left-recursive grammar with rejecting semantic actions on '
                          f'{plan["targets"]} ({plan["pred"]}): {L.grammar_text(g)!r} input {text!r} MODEL={m} GEN={c}',
                          D.witness(g, start, text, m, c, r, origin=origin, mode='sem', plan=plan, backend='generated'))


def run_sem(desc, acc):
    for i in range(8 if desc['tier'] == 'quick' else 20):
        rng = random.Random(h64('C03', 'sem', desc['seed'], desc['shard'], i))
        spec = sem_spec(rng)
        g = spec.grammar()
        start = g.rules[0].name
        acc.count('sem_grammars')
        acc.count('sem_layout:' + spec.layout)
        if spec.tail:
            acc.count('sem_with_tail')
        try:
            model, gen = sem_backends(g, start)
        except Exception as e:  # noqa: BLE001
            acc.evaluations += 1
            acc.violation('exc:build:' + type(e).__name__, f'model construction / code generation failed: {e!r:.200} for '
                          f'{L.grammar_text(g)!r}', {'grammar': L.to_json(g), 'grammar_text': L.grammar_text(g), 'text': ''})
            continue
        lrec_marked = {r.name for r in model.rules if getattr(r, 'is_lrec', False)}
        sccs = left_sccs(g)
        ops = spec.all_ops()
        for k in range(12):
            text = chain_text(rng, spec, rng.randrange(2, 8), ops)
            if rng.random() < 0.1:
                text += rng.choice(ops)
            plan = sem_plan(rng, spec, text)
            sem_one(acc, spec, g, start, text, plan, {'model': model, 'generated': gen}, lrec_marked, sccs,
                    {'shard': desc['shard'], 'sem': i, 'k': k})
        if i == 0:
            acc.sample({'sem': spec.describe(), 'grammar': L.grammar_text(g)[:400], 'plan': plan, 'text': text})


def run_shard(desc, acc):
    sys.setrecursionlimit(3000)
    if desc['shard'] < 2 * len(LONG_SHAPES):
        run_long(desc, acc)
    else:
        run_wide(desc, acc)
        run_sem(desc, acc)
    for i in range(desc['n']):
        rng = random.Random(h64('C03', desc['seed'], desc['shard'], i))
        spec = Spec(rng)
        g = spec.grammar()
        check_grammar(acc, spec, g, rng, desc['tier'], {'shard': desc['shard'], 'i': i})
        if i == 0:
            acc.sample({'grammar': L.grammar_text(g), 'alphabet': spec.alphabet(),
                        'layers': [(l['kind'], l['op']) for l in spec.layers]})


def replay(w, acc):
    if w.get('mode') == 'long':
        sys.setrecursionlimit(3000)
        return run_long({'tier': w['tier'], 'seed': w['seed'], 'shard': w['shard']}, acc)
    g = L.from_json(w['grammar'])
    if w.get('mode') == 'sem':
        sys.setrecursionlimit(3000)
        a, r, info = ref_sem(g, w['text'], w['start'], w['plan'])
        model, gen = sem_backends(g, w['start'])
        parser = model if w.get('backend') == 'model' else gen()
        b = run_wrapped(parser, w['text'], budget=D.step_budget(g, w['text']), semantics=make_semantics(w['plan'], {}))
        acc.evaluations += 1
        tag = D.relation(a, b, bool(r.nonw)) if a[0] != 'budget' else None
        if tag:
            acc.violation(f'sem-{tag}/replay', f'left-recursive parse with rejecting semantic actions differs ({tag}): REF={a} TATSU={b}', w)
        return
    case = D.Case(g, w['start'])
    tag, a, b, r = D.compare(case, w['text'])
    acc.evaluations += 1
    if tag and tag != 'ref-budget':
        acc.violation(f'{tag}/replay', f'left-recursive parse differs ({tag}): REF={a} TATSU={b}', w)


MANIFEST = {
    'technique': 'runtime monitoring: two independent online oracles (seed-growing reference model, precedence climbing) + model/generated differential, step-budget termination monitor; '
                 'reference model with the same rejecting semantic action for left-recursive rules under semantics',
    'level_text': 'structured generation of layered left-recursive expression grammars x all short operator/operand strings; each real parse is '
                  'compared with REF (seed growing) and with a precedence-climbing evaluator (left-associative tree over the longest prefix); '
                  'termination decided on logical steps and recursion depth, not wall clock; wide single-level layers (2..80 operators, one rule per '
                  'operator and other multi-rule layouts) under the same oracles; left-recursive rules whose semantic actions or constants reject a '
                  'grown value are compared with REF carrying the same action (growth ends at the last accepted seed)',
    'level_note': 'trusted: vt/ref.py seed-growing model, the PC evaluator, the heart-based step budget; exotic cycle shapes outside the layered '
                  'family are covered for termination by C16, not for value',
}
