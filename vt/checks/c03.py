"""C03 — left-recursive rules parse, terminate and associate to the left.

Oracles (both must agree with the real model): REF's seed-growing semantics, and an independent
precedence-climbing evaluator built from the operator table that generated the grammar.  Plus the
C02 differential (model vs generated parser).  Termination is decided on logical steps (heart
budget) and an explicit recursion limit.  DESIGN.md section 3/C03.
"""
from __future__ import annotations

import itertools
import random
import sys

from .. import lang as L
from .. import refdiff as D
from ..common import h64
from ..ref import canon, left_sccs
from ..tsu import StepHeart, gen_parser

ID = 'C03'
LEVEL = 'exploration'
RULE = ('cases = (layered expression grammar, input): 1-4 precedence layers, each direct / aliased / mutual / '
        'optional-prefixed / named left recursion or right recursion or e op e, optional unary prefix, parenthesised atoms, '
        'cuts after operators, rule names and order permuted; inputs = ALL strings up to length 5 over the grammar\'s '
        'alphabet plus derivation-guided longer strings, with and without blanks; non-trivial = REF accepted the input and at least one '
        'seed-growing iteration happened; distinct by (grammar text, input)')
ASSUMPTIONS = [
    'REF implements the documented seed-growing semantics (bounded by a step budget)',
    'the precedence-climbing oracle applies to layers whose shape it models (direct/aliased/mutual-alias/named/right/e-op-e, '
    'unary prefix, parentheses); optional-prefixed and two-operator mutual layers are decided by REF alone',
    '"terminates" is restated as: within B(grammar, len) rule invocations (heart budget) and below an explicit recursion limit',
]
FLOORS = {
    'quick': {'lr_grown': 4000, 'pc_compared': 4000, 'gen_compared': 1500, 'kind:direct': 15, 'kind:aliased': 15,
              'kind:mutual': 15, 'kind:optprefix': 15, 'kind:named': 15, 'kind:right': 10, 'kind:both': 10,
              'unary': 15, 'parens': 30, 'with_cut': 15, 'kind:direct_alias': 10, 'kind:aliased2': 10, 'long_chain_parsed': 16, 'kind:override_group': 10, 'kind:optwrap': 10, 'callatom': 15},
    'thorough': {'lr_grown': 100000, 'pc_compared': 100000, 'gen_compared': 30000},
}
PEAK_COUNTERS = ('max_long_chain_depth', 'max_growth', 'max_ref_depth')
N = {'quick': 192, 'thorough': 3200}

KINDS = ['direct', 'aliased', 'mutual', 'optprefix', 'named', 'right', 'both', 'mutual2', 'direct_alias', 'override_group', 'optwrap',
         'aliased2']
OPS = ['+', '*', '-', '/']


def plan(tier, seed):
    k = 16 if tier == 'quick' else 64
    return [{'seed': seed, 'shard': i, 'n': N[tier] // k, 'tier': tier} for i in range(k)]


class Spec:
    """operator table of one generated grammar"""

    def __init__(self, rng):
        self.nlayers = rng.choice([1, 1, 2, 2, 3, 4])
        self.layers = []
        ops = rng.sample(OPS, self.nlayers)
        for i in range(self.nlayers):
            kind = rng.choice(KINDS if rng.random() < 0.8 else ['direct', 'named', 'aliased'])
            if kind == 'override_group' and i > 0:
                # only as the top layer: elsewhere its FINAL value (an open list) would be the first element of a caller's
                # sequence and be spliced there - the recorded C01 finding, which would mask real differences here
                kind = 'direct'
            self.layers.append({'kind': kind, 'op': ops[i], 'cut': rng.random() < 0.25,
                                'unary': rng.random() < 0.2, 'op2': rng.choice([o for o in OPS if o != ops[i]])})
        self.parens = rng.random() < 0.6
        self.callatom = rng.random() < 0.2     # atom 'f' '(' ','.{e0} ')' : a gather of a left-recursive element
        self.eof = rng.random() < 0.5
        names = [f'e{i}' for i in range(self.nlayers)] + [f'x{i}' for i in range(self.nlayers)] + ['atom', 'num', 'start']
        pool = ['a', 'b', 'c', 'd', 'f', 'g', 'h', 'k', 'm', 'p', 'q', 'r', 's', 'w', 'y', 'z']
        rng.shuffle(pool)
        self.nm = {n: pool[i] + rng.choice(['', '1', '_r']) for i, n in enumerate(names)}
        self.order_seed = rng.random()

    def alphabet(self):
        a = ['1', '2'] + [l['op'] for l in self.layers]
        for l in self.layers:
            if l['unary'] and '-' not in a:
                a.append('-')
            if l['kind'] == 'optprefix' and '-' not in a:
                a.append('-')
            if l['kind'] in ('mutual2', 'direct_alias', 'aliased2') and l['op2'] not in a:
                a.append(l['op2'])
        if self.parens or self.callatom:
            a += ['(', ')']
        if self.callatom:
            a += ['f', ',']
        return a

    def grammar(self):
        nm = self.nm
        rules = []
        for i, l in enumerate(self.layers):
            e = nm[f'e{i}']
            x = nm[f'x{i}']
            nxt = nm[f'e{i + 1}'] if i + 1 < self.nlayers else nm['atom']
            op = [L.Tok(l['op'])] + ([L.Cut()] if l['cut'] else [])
            C = L.Call
            opts = []
            if l['unary']:
                opts.append(L.Seq((L.Tok('-'), C(e))))
            k = l['kind']
            if k == 'direct':
                opts += [L.Seq((C(e), *op, C(nxt))), C(nxt)]
            elif k == 'aliased':
                rules.append(L.Rule(x, C(e)))
                opts += [L.Seq((C(x), *op, C(nxt))), C(nxt)]
            elif k == 'mutual':
                rules.append(L.Rule(x, C(e)))
                opts += [L.Seq((C(x), *op, C(nxt))), C(nxt)]
                # same shape as aliased but the alias rule is placed AFTER (order permutation below)
            elif k == 'mutual2':
                rules.append(L.Rule(x, L.Choice((L.Seq((C(e), L.Tok(l['op2']), C(nxt))), C(e)))))
                opts += [L.Seq((C(x), *op, C(nxt))), C(nxt)]
            elif k == 'optprefix':
                opts += [L.Seq((L.Opt(L.Tok('-')), C(e), *op, C(nxt))), C(nxt)]
            elif k == 'named':
                opts += [L.Seq((L.Named('l', C(e)), L.Named('op', L.Tok(l['op'])), *op[1:], L.Named('r', C(nxt)))), C(nxt)]
            elif k == 'direct_alias':
                # the same rule is left recursive directly AND through an alias
                rules.append(L.Rule(x, C(e)))
                opts += [L.Seq((C(e), *op, C(nxt))), L.Seq((C(x), L.Tok(l['op2']), C(nxt))), C(nxt)]
            elif k == 'aliased2':
                # two operator alternatives through the alias: the non-leader rule runs twice at one position per iteration
                rules.append(L.Rule(x, C(e)))
                opts += [L.Seq((C(x), *op, C(nxt))), L.Seq((C(x), L.Tok(l['op2']), C(nxt))), C(nxt)]
            elif k == 'override_group':
                opts += [L.Over(L.Group(L.Seq((C(e), *op, C(nxt))))), C(nxt)]
            elif k == 'optwrap':
                opts = opts + [L.Seq((L.Opt(L.Seq((C(e), *op))), C(nxt)))]
            elif k == 'right':
                opts += [L.Seq((C(nxt), *op, C(e))), C(nxt)]
            elif k == 'both':
                opts += [L.Seq((C(e), *op, C(e))), C(nxt)]
            rules.append(L.Rule(e, L.Choice(tuple(opts))))
        atom_opts = []
        if self.parens:
            atom_opts.append(L.Seq((L.Tok('('), L.Call(nm['e0']), L.Tok(')'))))
        if self.callatom:
            atom_opts.append(L.Seq((L.Tok('f'), L.Tok('('), L.Join(L.Tok(','), L.Call(nm['e0']), False, True), L.Tok(')'))))
        atom_opts.append(L.Call(nm['num']))
        rules.append(L.Rule(nm['atom'], L.Choice(tuple(atom_opts)) if len(atom_opts) > 1 else atom_opts[0]))
        rules.append(L.Rule(nm['num'], L.Pat(r'\d')))
        r2 = random.Random(self.order_seed)
        r2.shuffle(rules)
        start = L.Rule(nm['start'], L.Seq((L.Call(nm['e0']), L.EOF())) if self.eof else L.Call(nm['e0']))
        return L.Grammar([start] + rules)

    def pc_applicable(self):
        return all(l['kind'] not in ('optprefix', 'mutual2') and not (l['kind'] == 'optwrap' and l['unary'])
                   for l in self.layers)


# ------------------------------------------------- precedence-climbing oracle
class PCFail(Exception):
    pass


class PC:
    """independent evaluator: loops instead of left recursion, built from the operator table"""

    def __init__(self, spec: Spec, text: str):
        self.s = spec
        self.t = text
        self.steps = 0

    def ws(self, p):
        while p < len(self.t) and self.t[p].isspace():
            p += 1
        return p

    def tok(self, p, s):
        p = self.ws(p)
        if self.t.startswith(s, p):
            return p + len(s)
        raise PCFail

    def layer(self, i, p):
        self.steps += 1
        if self.steps > 20000:
            raise RecursionError
        if i >= self.s.nlayers:
            return self.atom(p)
        l = self.s.layers[i]
        k = l['kind']
        if k == 'right':
            # e = ['-' e |] t op e | t
            if l['unary']:
                try:
                    q = self.tok(p, '-')
                    q, v = self.layer(i, q)
                    return q, ['-', v]
                except PCFail:
                    pass
            q, lft = self.layer(i + 1, p)
            try:
                q2 = self.tok(q, l['op'])
            except PCFail:
                return q, lft
            try:
                q2, r = self.layer(i, q2)
                return q2, [lft, l['op'], r]
            except PCFail:
                if l['cut']:
                    raise  # ordinary PEG behaviour on the right: the cut after the operator commits the option
                return q, lft
        # left-recursive layer: seed = first non-left-recursive option that matches, then grow
        seed = None
        if l['unary']:
            try:
                q = self.tok(p, '-')
                q, v = self.layer(i, q)
                seed = (q, ['-', v])
            except PCFail:
                seed = None
        if seed is None:
            seed = self.layer(i + 1, p)
        q, v = seed
        while True:
            used = None
            for op in ([l['op'], l['op2']] if k in ('direct_alias', 'aliased2') else [l['op']]):
                try:
                    q2 = self.tok(q, op)
                    q2, r = self.layer(i if k == 'both' else i + 1, q2)
                    used = op
                    break
                except PCFail:
                    continue
            if used is None:
                break
            if k == 'named':
                v = {'l': v, 'op': used, 'r': r}
            else:
                v = [v, used, r]
            q = q2
        return q, v

    def atom(self, p):
        if self.s.parens:
            try:
                q = self.tok(p, '(')
                q, v = self.layer(0, q)
                q = self.tok(q, ')')
                return q, ['(', v, ')']
            except PCFail:
                pass
        if self.s.callatom:
            try:
                q = self.tok(p, 'f')
                q = self.tok(q, '(')
                items, q = self.gather(q)
                q = self.tok(q, ')')
                return q, ['f', '(', items, ')']
            except PCFail:
                pass
        p = self.ws(p)
        if p < len(self.t) and self.t[p].isdigit() and self.t[p].isascii():
            return p + 1, self.t[p]
        raise PCFail

    def gather(self, p):
        """','.{e0}  ==  ','.{e0}+ | {} : a failure after a separator fails the positive gather, then the empty closure applies"""
        try:
            q, v = self.layer(0, p)
        except PCFail:
            return [], p
        items = [v]
        while True:
            try:
                q2 = self.tok(q, ',')
            except PCFail:
                return items, q
            try:
                q2, v = self.layer(0, q2)
            except PCFail:
                return [], p
            items.append(v)
            q = q2

    def run(self):
        try:
            q, v = self.layer(0, 0)
            if self.s.eof:
                q = self.ws(q)
                if q < len(self.t):
                    return ('fail',)
                return ('ok', q, [v] if False else v)
            return ('ok', q, v)
        except PCFail:
            return ('fail',)


# ------------------------------------------------------------------ workload
def inputs_for(rng, spec, tier):
    al = spec.alphabet()
    out = []
    maxlen = 5 if len(al) <= 5 else 4
    for n in range(maxlen + 1):
        for t in itertools.product(al, repeat=n):
            out.append(''.join(t))
    cap = 200 if tier == 'quick' else 400
    if len(out) > cap:
        keep = out[:1 + len(al) + len(al) ** 2]
        rest = out[len(keep):]
        rng.shuffle(rest)
        out = keep + rest[:cap - len(keep)]
    # longer well-formed-ish expressions, with blanks
    ops = [l['op'] for l in spec.layers]
    for _ in range(40 if tier == 'quick' else 120):
        n = rng.randrange(2, 7)
        s = ''
        for i in range(n):
            if rng.random() < 0.15 and (spec.parens):
                s += '(' + rng.choice('12') + rng.choice(ops) + rng.choice('12') + ')'
            else:
                if rng.random() < 0.15:
                    s += '-'
                s += rng.choice('12')
            if i < n - 1:
                sp = rng.choice(['', '', ' ', '  '])
                s += sp + rng.choice(ops) + sp
        if rng.random() < 0.2:
            s += rng.choice(ops + [')', ' '])
        out.append(s)
    return out


def check_grammar(acc, spec, g, rng, tier, origin):
    start = g.rules[0].name
    case = D.Case(g, start)
    for l in spec.layers:
        acc.count('kind:' + l['kind'])
        if l['unary']:
            acc.count('unary')
        if l['cut']:
            acc.count('with_cut')
    if spec.parens:
        acc.count('parens')
    if spec.callatom:
        acc.count('callatom')
    if case.model is None:
        acc.evaluations += 1
        acc.violation('exc:build:' + case.build_error[0], f'model construction failed: {case.build_error} for {L.grammar_text(g)!r}',
                      {'grammar': L.to_json(g), 'grammar_text': L.grammar_text(g), 'text': '', 'spec': None})
        return
    # analysis flags read from the public Rule attributes (evidence)
    lrec_marked = set()
    sccs = left_sccs(g)
    try:
        for r in case.model.rules:
            if getattr(r, 'is_lrec', False):
                acc.count('rules_marked_lrec')
                lrec_marked.add(r.name)
    except Exception:  # noqa: BLE001
        acc.note('Rule.is_lrec unobserved')
    texts = inputs_for(rng, spec, tier)
    gen = None
    reused = None
    runaway = 0
    for idx, text in enumerate(texts):
        if runaway >= 2:
            acc.count('inputs_skipped_after_runaway')
            continue
        tag, a, b, r = D.compare(case, text)
        acc.evaluations += 1
        if tag in ('exc:StepBudget', 'exc:RecursionError'):
            runaway += 1
        if tag == 'ref-budget':
            acc.count('ref_budget')
            continue
        acc.peak('max_growth', r.lr_growth)
        acc.peak('max_ref_depth', r.max_depth)
        if a[0] == 'ok':
            acc.count('accepted')
            if r.lr_growth:
                acc.count('lr_grown')
                acc.nontriv(L.grammar_text(g), text)
        if tag is not None:
            # the recorded finding: the growth head is a rule of a cycle that TatSu does not mark, the marked one being
            # the smallest name of the cycle; a head that IS the smallest name and still unmarked is something else
            nonleader = sorted(h for h in r.lr_heads if h not in lrec_marked and h != min(sccs.get(h, {h})))
            if nonleader and tag in ('accept', 'len', 'ast', 'reject'):
                acc.violation(f'{tag}/trigger:lr-entered-through-non-leader',
                              f'indirect left recursion entered through a rule that is not the marked leader ({nonleader}): '
                              f'{L.grammar_text(g)!r} input {text!r} REF={a} TATSU={b}',
                              D.witness(g, start, text, a, b, r, origin=origin))
                continue
            sig = f'{tag}/' + '+'.join(sorted({l["kind"] for l in spec.layers}))
            acc.violation(sig, f'left-recursive parse differs from seed growing ({tag}): {L.grammar_text(g)!r} input {text!r} REF={a} TATSU={b}',
                          D.witness(g, start, text, a, b, r, origin=origin))
            continue
        # second oracle
        if spec.pc_applicable():
            try:
                c = PC(spec, text).run()
            except RecursionError:
                c = None
            if c is not None:
                acc.count('pc_compared')
                cc = (c[0], c[1], canon(c[2])) if c[0] == 'ok' else c
                if cc != b:
                    if cc == a or a != b:
                        pass
                    if cc != a:
                        # the two oracles disagree with each other: harness doubt, not a verdict
                        acc.count('oracle_disagreement')
                        acc.note(f'PC vs REF disagree on {L.grammar_text(g)!r} {text!r}: PC={cc} REF={a}')
                    else:
                        acc.violation('pc/' + '+'.join(sorted({l["kind"] for l in spec.layers})),
                                      f'not the left-associative tree over the longest prefix: {L.grammar_text(g)!r} input {text!r} expected {cc} got {b}',
                                      D.witness(g, start, text, cc, b, r, origin=origin))
        # generated parser (sampled)
        if idx % 6 == 0:
            if gen is None:
                try:
                    gen = gen_parser(L.to_model(g, name='T'))[0]
                except Exception as e:  # noqa: BLE001
                    gen = ('err', type(e).__name__, str(e)[:100])
            if isinstance(gen, tuple):
                acc.violation('gen-build:' + gen[1], f'code generation failed for left-recursive grammar: {gen} {L.grammar_text(g)!r}',
                              D.witness(g, start, text, a, b, r, origin=origin))
                gen = None
                continue
            m_out = model_plain(case, g, start, text)
            g_out = gen_plain(gen, g, start, text)
            acc.count('gen_compared')
            if 'named-not-single' in r.triggers and m_out[0] == g_out[0]:
                g_out = m_out   # C02's recorded naming defect of generated code (@:(group)): accept/reject still compared
            # one long-lived parser object across all inputs of this grammar (left-recursion tables must not leak)
            if reused is None:
                reused = gen()
            r_out = plain(lambda t, **kw: reused.parse(t, start=start, **kw), g, text)
            if 'named-not-single' in r.triggers and r_out[0] == g_out[0]:
                r_out = g_out   # same recorded naming defect: the bound "last node" is not a function of the input alone
            if r_out != g_out:
                acc.violation('gen-reused-object/' + '+'.join(sorted({l["kind"] for l in spec.layers})),
                              f'a reused generated parser object differs from a fresh one on a left-recursive grammar '
                              f'{L.grammar_text(g)!r} input {text!r}: FRESH={g_out} REUSED={r_out}',
                              D.witness(g, start, text, g_out, r_out, r, origin=origin))
            if m_out != g_out:
                acc.violation('gen/' + '+'.join(sorted({l["kind"] for l in spec.layers})),
                              f'generated parser != model on left-recursive grammar {L.grammar_text(g)!r} input {text!r}: MODEL={m_out} GEN={g_out}',
                              D.witness(g, start, text, m_out, g_out, r, origin=origin))


_plain_models = {}


def model_plain(case, g, start, text):
    key = id(case)
    m = _plain_models.get(key)
    if m is None:
        _plain_models.clear()
        m = _plain_models[key] = L.to_model(g, name='T')
    return plain(lambda t, **kw: m.parse(t, start=start, **kw), g, text)


def gen_plain(cls, g, start, text):
    return plain(lambda t, **kw: cls().parse(t, start=start, **kw), g, text)


def plain(parse, g, text):
    from tatsu.exceptions import FailedParse
    try:
        return ('ok', canon(parse(text, heart=StepHeart(D.step_budget(g, text)))))
    except FailedParse:
        return ('fail',)
    except RecursionError:
        return ('EXC', 'RecursionError')
    except Exception as e:  # noqa: BLE001
        return ('EXC', type(e).__name__, str(e)[:80])


# ------------------------------------------------------------------ long chains
LONG_N = {'quick': 2500, 'thorough': 7000}
LONG_SHAPES = [
    ('direct', "start = e $ ;\ne = e '+' t | e '-' t | t ;\nt = /\\d/ ;\n", 'list', 1),
    ('named', "start = e $ ;\ne = l:e op:('+' | '-') r:t | t ;\nt = /\\d/ ;\n", 'dict', 1),
    ('aliased2', "start = e $ ;\nx = e ;\ne = x '+' t | x '-' t | t ;\nt = /\\d/ ;\n", 'list', 1),
    ('two-level', "start = e $ ;\ne = e '+' m | e '-' m | m ;\nm = m '*' t | t ;\nt = /\\d/ ;\n", 'list', 2),
]


def same_tree(a, b):
    """structural equality without recursion (the trees are thousands of levels deep); lists and tuples alike"""
    stack = [(a, b)]
    while stack:
        x, y = stack.pop()
        if isinstance(x, dict) or isinstance(y, dict):
            if not (isinstance(x, dict) and isinstance(y, dict)):
                return False
            kx = {k for k in x if 'parseinfo' not in k}
            if kx != {k for k in y if 'parseinfo' not in k}:
                return False
            stack.extend((x[k], y[k]) for k in kx)
        elif isinstance(x, (list, tuple)) or isinstance(y, (list, tuple)):
            if not (isinstance(x, (list, tuple)) and isinstance(y, (list, tuple))) or len(x) != len(y):
                return False
            stack.extend(zip(x, y))
        elif x != y or type(x) is not type(y):
            return False
    return True


def tree_depth(v):
    d = 0
    while isinstance(v, (list, tuple, dict)) and len(v):
        v = v['l'] if isinstance(v, dict) else v[0]
        d += 1
    return d


def run_long(desc, acc):
    """left recursion is grown iteratively: a chain of thousands of operators parses to the left-nested tree, whatever
    Python's recursion limit (documented: 'left recursion ... associate to the left'; termination without depth limit)"""
    import tatsu
    from tatsu.exceptions import FailedParse
    n = LONG_N[desc['tier']]
    rng = random.Random(h64('C03', 'long', desc['seed'], desc['shard']))
    kind, gtext, shape, levels = LONG_SHAPES[desc['shard'] % len(LONG_SHAPES)]
    model = tatsu.compile(gtext, name='T')
    gen = gen_parser(model)[0]
    digits = [rng.choice('123') for _ in range(n + 1)]
    ops = [rng.choice('+-') if levels == 1 or rng.random() < 0.5 else '*' for _ in range(n)]
    text = digits[0]
    for o, d in zip(ops, digits[1:]):
        sp = ' ' if rng.random() < 0.1 else ''
        text += sp + o + sp + d
    # expected: iterative left fold (two precedence levels: '*' binds tighter)
    def node(l, o, r):
        return {'l': l, 'op': o, 'r': r} if shape == 'dict' else [l, o, r]
    terms = [[digits[0]]]
    termops = []
    for o, d in zip(ops, digits[1:]):
        if o == '*':
            terms[-1].append(d)
        else:
            termops.append(o)
            terms.append([d])
    folded = []
    for t in terms:
        v = t[0]
        for d in t[1:]:
            v = node(v, '*', d)
        folded.append(v)
    expected = folded[0]
    for o, v in zip(termops, folded[1:]):
        expected = node(expected, o, v)
    for backend, parse in (('model', lambda: model.parse(text, heart=StepHeart(400 * n + 10000))),
                           ('generated', lambda: gen().parse(text, heart=StepHeart(400 * n + 10000)))):
        acc.evaluations += 1
        w = {'mode': 'long', 'grammar_text': gtext, 'n_ops': n, 'kind': kind, 'backend': backend,
             'text_head': text[:60], 'seed': desc['seed'], 'shard': desc['shard'], 'tier': desc['tier']}
        try:
            got = parse()
        except FailedParse as e:
            acc.violation(f'long-chain/fail/{kind}', f'{backend}: a chain of {n} left-associative operators failed to parse: '
                                                     f'{str(e)[:100]!r} grammar {gtext!r}', w)
            continue
        except BaseException as e:  # noqa: BLE001
            if isinstance(e, (KeyboardInterrupt, SystemExit)):
                raise
            acc.violation(f'long-chain/exc:{type(e).__name__}/{kind}',
                          f'{backend}: a chain of {n} left-associative operators raised {type(e).__name__} '
                          f'({str(e)[:80]}) at recursion limit {sys.getrecursionlimit()}: growth must be iterative; grammar {gtext!r}', w)
            continue
        acc.count('long_chain_parsed')
        acc.count('long_chain:' + kind)
        acc.peak('max_long_chain_depth', tree_depth(got))
        acc.nontriv('long', kind, backend, n)
        if not same_tree(got, expected):
            acc.violation(f'long-chain/ast/{kind}', f'{backend}: a chain of {n} operators did not give the left-nested tree '
                                                    f'(depth got {tree_depth(got)}, expected {tree_depth(expected)}); grammar {gtext!r}', w)


def run_shard(desc, acc):
    sys.setrecursionlimit(3000)
    if desc['shard'] < 2 * len(LONG_SHAPES):
        run_long(desc, acc)
    for i in range(desc['n']):
        rng = random.Random(h64('C03', desc['seed'], desc['shard'], i))
        spec = Spec(rng)
        g = spec.grammar()
        check_grammar(acc, spec, g, rng, desc['tier'], {'shard': desc['shard'], 'i': i})
        if i == 0:
            acc.sample({'grammar': L.grammar_text(g), 'alphabet': spec.alphabet(),
                        'layers': [(l['kind'], l['op']) for l in spec.layers]})


def replay(w, acc):
    if w.get('mode') == 'long':
        sys.setrecursionlimit(3000)
        return run_long({'tier': w['tier'], 'seed': w['seed'], 'shard': w['shard']}, acc)
    g = L.from_json(w['grammar'])
    case = D.Case(g, w['start'])
    tag, a, b, r = D.compare(case, w['text'])
    acc.evaluations += 1
    if tag and tag != 'ref-budget':
        acc.violation(f'{tag}/replay', f'left-recursive parse differs ({tag}): REF={a} TATSU={b}', w)


MANIFEST = {
    'technique': 'runtime monitoring: two independent online oracles (seed-growing reference model, precedence climbing) + model/generated differential, step-budget termination monitor',
    'level_text': 'structured generation of layered left-recursive expression grammars x all short operator/operand strings; each real parse is '
                  'compared with REF (seed growing) and with a precedence-climbing evaluator (left-associative tree over the longest prefix); '
                  'termination decided on logical steps and recursion depth, not wall clock',
    'level_note': 'trusted: vt/ref.py seed-growing model, the PC evaluator, the heart-based step budget; exotic cycle shapes outside the layered '
                  'family are covered for termination by C16, not for value',
}
