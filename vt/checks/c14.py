"""C14 — serialized grammar models reload to equivalent parsers; asjson() of any parse result or
model terminates and is json.dumps-able with cyclic/shared references rendered as references.

Oracles (all on the real code):
 * round-trip differential: `Grammar.load(json.loads(json.dumps(M.asjson())))`,
   `pickle.loads(pickle.dumps(M))` and exec of `tatsu.api.to_parsermodel_sourcecode(text)` must each
   succeed and give a model with the same rules, directives and keywords, the same accept/reject and
   equal ASTs on derivation-guided inputs;
 * `json.dumps(asjson(x), allow_nan=True)` is the acceptance test of "JSON-able", for grammar
   models, ASTs, object models and Python structures built by semantic actions (cycles, shared
   sub-lists, exotic values);
 * concurrent slice: K in {2,4,8} threads released by a barrier convert (a) the same grammar model, (b) the same
   parse result (AST / object model / action-built structure with a self-rendering user value in it), (c) per-thread
   structures sharing one sub-object, (d) structures with real cycles, through asjson(x), x.asjson(), x.asjsons(),
   asjsons(x), json.dumps(asjson(x)), Grammar.load/loads of the export and pickle; sys.setswitchinterval(1e-6),
   seeded yields at statement boundaries of tatsu/util/asjson.py (sys.monitoring LINE), values whose __json__
   yields, and a forced schedule (one thread suspended at its N-th statement inside asjson.py while the others
   convert).  Oracle: every thread's result equals the sequential result of the very same call computed before
   the threads start (which is also what makes "only cycles are rendered as references" and "loads back"
   decidable per thread); the model is written out and loaded back once more after the threads;
 * termination is decided on logical steps: a sys.monitoring PY_START counter on the code objects
   of tatsu/util/asjson.py must stay below C x (size of the object graph reachable from the input,
   computed by an independent id()-based walk); RecursionError on the small structures used is
   conclusive.  Never wall clock.
DESIGN.md section 3/C14.
"""
from __future__ import annotations

import collections
import enum
import json
import pickle
import random
import re
import types
import weakref

from .. import lang as L
from .. import shrink as S
from ..common import h64
from ..monitors import c14_threads as CT
from ..monitors import jsonsteps as JS
from ..monitors import modelgen as MG
from .c13 import Hang, guard, mech_sig

ID = 'C14'
LEVEL = 'translation_validation'
RULE = ('programs = grammar models (text route, object route; the full expression language of C13 with tokens/constants/'
        'patterns/params/keywords drawn from hostile strings incl. style-escape and format-spec look-alikes, "@", '
        '__class__) written out and reloaded through JSON (asjson -> json.dumps -> json.loads -> Grammar.load), pickle, '
        'and Python model source (tatsu.api.to_parsermodel_sourcecode -> exec); each reload is compared with the '
        'original on exported structure, rules/directives/keywords and behaviour on derivation-guided inputs. asjson '
        'cases = grammar models, ASTs and object models produced by those parses, and Python structures built by '
        'semantic actions in real parses (self-referential lists/dicts/objects, parent links, shared sub-lists, '
        'diamond chains, exotic leaf values). non-trivial = a reload succeeded and at least one input was ACCEPTED, or '
        'an asjson conversion finished under the step monitor; distinct by (route, grammar text) / (structure kind, '
        'shape). concurrent runs = (subject kind in same-grammar-model / same-parse-result / shared-subobjects / real-cycles) x '
        'K in {2,4,8} threads x per-thread entry point x schedule (seeded yields at statement boundaries of asjson.py | one '
        'thread suspended at its N-th statement there while the others convert) x 3 barrier-released rounds; non-trivial = '
        'at least one yield/pause was injected and every sequential conversion succeeded; distinct by (kind, K, schedule, '
        'subject, entry points) and by interleaving signature (first 96 observed thread switches)')
ASSUMPTIONS = [
    'the original in-memory model is the reference; equal export = m.asjson() equality, behaviour = accept/reject, '
    'exception class, canonical AST (lists/tuples unified, parseinfo dropped)',
    'the model source is generated from the OPTIMIZED model (as tatsu does), so its export is compared on rule names, '
    'directives and keywords and on behaviour, not node by node',
    f'termination bound: PY_START events in tatsu/util/asjson.py <= {12} x (distinct reachable objects + their slots) + 200; '
    'reference rendering makes the conversion linear in that size, full expansion of shared sub-structures does not',
    'shared but acyclic references that are duplicated in the output are accepted as long as the step bound holds '
    '(the documentation only promises back references); they are counted',
    'concurrent slice: the reference of a thread is the sequential result of the same call on the same object, computed '
    'twice before the threads start (a conversion that is not repeatable sequentially, e.g. of a generator, is excluded '
    'and counted); exceptions are compared by class; reference strings carry id()s, which are equal because the very '
    'same objects are converted; a run in which nothing was injected is not counted as a thread run (floor on '
    'thread_runs); watchdog expiry of a suspended thread is reported as a hang, never used as a clock for a verdict',
    'a failing model containing hostile forms already known to be mishandled is attributed by neutralising one form '
    'at a time (as in C13); a per-case CPU-time guard turns a hang into a counted skip',
]
C_STEPS = 12
FLOORS = {
    'quick': {'programs': 1500, 'json_reloaded': 1200, 'pickle_reloaded': 1500, 'source_reloaded': 700,
              'both_accepted': 6000, 'asjson_runs': 8000, 'asjson_cyclic': 1500, 'asjson_shared': 800,
              'asjson_objectmodels': 1400, 'asjson_asts': 1500, 'asjson_backrefs_rendered': 2000,
              'step_monitor_events': 600000, 'feat:style_tok': 150, 'feat:class_key': 40,
              'feat:odd_element_names': 60, 'hazard_free_programs': 900, 'route:text': 500, 'route:object': 800,
              'feat:long_keywords': 60, 'feat:assoc_join': 100, 'feat:assoc_join:left': 50,
              'feat:assoc_join:right': 50, 'feat:assoc_join_multiline': 25, 'feat:empty_constant': 50,
              'feat:nonfinite_float': 100, 'feat:nonfinite_float:constant': 60, 'feat:nonfinite_float:param': 45,
              'feat:numeric_first_param': 80, 'source_route_parser_class_with_directives': 200,
              'parser_class_calls': 6000,
              'thread_runs': 340, 'thread_runs:same-grammar-model': 80, 'thread_runs:same-parse-result': 80,
              'thread_runs:shared-subobjects': 80, 'thread_runs:real-cycles': 80, 'thread_runs:k=2': 60,
              'thread_runs:k=4': 60, 'thread_runs:k=8': 60, 'thread_runs:schedule=pause': 100,
              'thread_runs:schedule=yields': 100, 'thread_yields_injected': 40000, 'thread_forced_pauses': 200,
              'thread_structure_yields': 300, 'thread_results_compared': 3000,
              'thread_results_with_references_expected': 300, 'thread_roundtrips_loaded_after_threads': 60,
              'thread_distinct_interleavings': 200, 'thread_switches_observed': 5000},
    'thorough': {'programs': 15000, 'json_reloaded': 12000, 'pickle_reloaded': 15000, 'source_reloaded': 7000,
                 'both_accepted': 60000, 'asjson_runs': 80000, 'asjson_cyclic': 15000, 'asjson_shared': 8000,
                 'step_monitor_events': 6000000, 'hazard_free_programs': 9000, 'feat:long_keywords': 600,
                 'feat:assoc_join': 1000, 'feat:assoc_join_multiline': 250, 'feat:empty_constant': 500,
                 'feat:nonfinite_float': 1000, 'feat:numeric_first_param': 800,
                 'source_route_parser_class_with_directives': 2000,
                 'thread_runs': 2700, 'thread_runs:same-grammar-model': 640, 'thread_runs:same-parse-result': 640,
                 'thread_runs:shared-subobjects': 640, 'thread_runs:real-cycles': 640, 'thread_runs:k=2': 480,
                 'thread_runs:k=4': 480, 'thread_runs:k=8': 480, 'thread_runs:schedule=pause': 800,
                 'thread_runs:schedule=yields': 800, 'thread_yields_injected': 320000, 'thread_forced_pauses': 1600,
                 'thread_structure_yields': 2400, 'thread_results_compared': 24000,
                 'thread_results_with_references_expected': 2400, 'thread_roundtrips_loaded_after_threads': 480,
                 'thread_distinct_interleavings': 1600, 'thread_switches_observed': 40000},
}
N = {'quick': 1920, 'thorough': 19200}
INPUTS = {'quick': 5, 'thorough': 6}
SHARD_TIMEOUT = {'quick': 3600, 'thorough': 14400}
PEAK_COUNTERS = ('max_steps_per_size_x100_nondiamond', 'max_graph_size')

REF_RX = re.compile(r'^[A-Za-z_][A-Za-z_0-9]*@0x[0-9A-F]+$')
MON = JS.StepMonitor()


def plan(tier, seed):
    k = 16 if tier == 'quick' else 64
    return [{'seed': seed, 'shard': i, 'n': N[tier] // k, 'inputs': INPUTS[tier], 'of': k, 'threads': THREAD_RUNS[tier]}
            for i in range(k)]


# --------------------------------------------------------------------------- hazards of this property
HAZARDS = {
    'style-string': "fromjson() turns every JSON string starting with 'f{' or '\\\\e[' into a ztyle.Style object "
                    '(string sniffing): tokens/constants/patterns/params with such text do not reload as str',
    'class-key': "a mapping with the key '__class__' (rule kwparams) is taken for an object export by fromjson()",
    'singleton-tuple': 'the model source is repr(model): a 1-element tuple (one rule, one keyword, one parameter) is '
                       "folded as a parenthesised value without the trailing comma, so rules=(Rule(...)) / keywords=('ab') "
                       "/ params=('A') load as a Rule / a str",
}
STYLE_PREFIXES = ('\\e[', 'f{')


def _model_strings(g):
    for r in g.rules:
        yield r.name
        for x in L.walk(r.body):
            for attr in ('s', 'rx', 'text', 'n', 'name'):
                v = getattr(x, attr, None)
                if isinstance(v, str):
                    yield v
        for p in r.params:
            if isinstance(p, str):
                yield p
        for k, v in r.kwparams:
            yield k
            if isinstance(v, str):
                yield v
    yield from g.keywords
    for v in g.directives.values():
        if isinstance(v, str):
            yield v


def hazards(g):
    hz = set()
    if any(s.startswith(STYLE_PREFIXES) for s in _model_strings(g)):
        hz.add('style-string')
    if any(k == '__class__' for r in g.rules for k, _ in r.kwparams):
        hz.add('class-key')
    if len({r.name for r in g.rules}) == 1 or len(set(g.keywords)) == 1 or any(len(r.params) == 1 for r in g.rules):
        hz.add('singleton-tuple')
    return hz


def neutralise(g, hz):
    def fs(s):
        if 'style-string' in hz and isinstance(s, str) and s.startswith(STYLE_PREFIXES):
            return 'q' + s
        return s

    def f(e):
        if isinstance(e, L.Tok):
            return L.Tok(fs(e.s))
        if isinstance(e, L.Pat) and e.rx.startswith(STYLE_PREFIXES):
            return L.Pat('q' + e.rx) if 'style-string' in hz else e
        if isinstance(e, L.Const):
            return L.Const(fs(e.text))
        if isinstance(e, L.Alert):
            return L.Alert(fs(e.text), e.level)
        return e
    rules = []
    for r in g.rules:
        kw = tuple((('k_class' if (k == '__class__' and 'class-key' in hz) else k), fs(v)) for k, v in r.kwparams)
        rules.append(L.Rule(r.name, MG._map(r.body, f), r.decorators, tuple(fs(p) for p in r.params), kw, r.base))
    keywords = tuple(fs(k) for k in g.keywords)
    if 'singleton-tuple' in hz:
        if len({r.name for r in rules}) == 1:
            rules.append(L.Rule('zz9', L.Tok('z')))
        if len(set(keywords)) == 1:
            keywords = keywords + ('zz9kw',)
        for r in rules:
            if len(r.params) == 1:
                r.params = r.params + ('P2',)
    return L.Grammar(rules, {k: fs(v) for k, v in g.directives.items()}, keywords)


def gen_case(rng):
    """C13's generator with this property's hostile strings; the C13 printer hazards are irrelevant here
    (nothing is pretty-printed) but harmless"""
    g, start, feats, pats = MG.gen_case(rng, MG.Profile(hazard_rate=0.10, hostile_rate=0.6, style_rate=0.0, nonfinite_rate=0.06))
    r = rng.random()
    if r < 0.16:
        # hostile strings of THIS property, one kind of site at a time
        site = rng.choice(['tok', 'tok', 'tok', 'const', 'param', 'kwval', 'keyword', 'alert'])
        s = rng.choice(MG.STYLE_TOKS)
        if site == 'tok':
            if not MG._swap_some(rng, g, L.Tok, lambda: L.Tok(s)):
                site = 'param'
        if site == 'const':
            if not MG._swap_some(rng, g, L.Const, lambda: L.Const(s)):
                site = 'param'
        if site == 'alert':
            if not MG._swap_some(rng, g, L.Alert, lambda: L.Alert(s, 1)):
                site = 'param'
        cands = [x for x in g.rules if not x.base and not any(y.base == x.name for y in g.rules)] or g.rules
        if site == 'param':
            rr = rng.choice(cands)
            rr.params = (s,) if not (g.keywords and rr is g.rules[0]) else rr.params
        if site == 'kwval':
            rr = rng.choice(cands)
            rr.kwparams = (('k', s),) if not (g.keywords and rr is g.rules[0]) else rr.kwparams
        if site == 'keyword':
            g.keywords = tuple(g.keywords) + (s,)
        feats.add('style_tok')
    elif r < 0.20:
        cands = [x for x in g.rules if not x.base and not any(y.base == x.name for y in g.rules)
                 and not (g.keywords and x is g.rules[0])]
        if cands:
            rng.choice(cands).kwparams = (('__class__', rng.choice(['Token', 'x', 1])),)
            feats.add('class_key')
    elif r < 0.26:
        # names that collide with export keys
        names = {'n': rng.choice(['__class__', 'ast', 'ctx', 'parseinfo', 'exp', '_x', 'name'])}

        def rn(e):
            if isinstance(e, (L.Named, L.NamedList)) and e.n in names:
                return type(e)(names[e.n], e.e)
            return e
        for rr in g.rules:
            rr.body = MG._map(rr.body, rn)
        feats.add('odd_element_names')
    if 'singleton-tuple' in hazards(g) and rng.random() > 0.12:
        # keep the (very common) singleton forms at a limited rate
        g = neutralise(g, {'singleton-tuple'})
    feats |= {'hz14:' + h for h in hazards(g)}
    return g, start, feats, pats


# --------------------------------------------------------------------------- model round trips
def export(model):
    return model.asjson()


def facts(model):
    kw = model.keywords
    return {'rules': MG.rule_facts(model), 'directives': MG.directive_facts(model),
            'keywords': sorted(str(k) for k in kw) if isinstance(kw, (tuple, list)) else repr(kw)}


def behaviour(acc, fam, fails, m1, parse2, inputs, start):
    n_acc = 0
    for text in inputs:
        a = MG.outcome(m1, text, start)
        b = parse2(text)
        acc.evaluations += 1
        if a[0] == 'ok':
            n_acc += 1
        if a != b:
            rel = 'ast' if a[0] == b[0] == 'ok' else f'{a[0]}/{b[0]}'
            fails.append((fam, 'behaviour', f'{rel} on input {text!r}: original {str(a)[:120]} reloaded {str(b)[:120]}'))
            break
    return n_acc


def outcome_call(fn):
    from tatsu.exceptions import FailedParse

    from ..ref import canon
    try:
        return ('ok', canon(fn()))
    except FailedParse:
        return ('fail',)
    except RecursionError:
        return ('EXC', 'RecursionError')
    except Hang:
        raise
    except Exception as e:  # noqa: BLE001
        return ('EXC', type(e).__name__)


def short(e):
    return f'{type(e).__name__}: {str(e).strip().splitlines()[0][:140] if str(e).strip() else ""}'


def check_json(acc, model, start, inputs, fails, stats):
    from tatsu import peg
    fam = 'json'
    try:
        j = export(model)
        s = json.dumps(j, allow_nan=True)
    except Hang:
        raise
    except Exception as e:  # noqa: BLE001
        fails.append((fam, 'export-raises', short(e)))
        return
    try:
        m2 = peg.Grammar.load(json.loads(s))
    except Hang:
        raise
    except Exception as e:  # noqa: BLE001
        fails.append((fam, 'load-raises', short(e)))
        return
    stats['json_reloaded'] = 1
    try:
        j2 = export(m2)
        if j2 != j:
            fails.append((fam, 'export-differs', json_diff(j, j2)))
        f1, f2 = facts(model), facts(m2)
        if f1 != f2:
            fails.append((fam, 'facts-differ', f'{f1} -> {f2}'))
    except Hang:
        raise
    except Exception as e:  # noqa: BLE001
        fails.append((fam, 're-export-raises', short(e)))
    stats['accepted'] += behaviour(acc, fam, fails, model, lambda t: MG.outcome(m2, t, start), inputs, start)
    # the string form, as load_json_grammar / Grammar.loads do it
    try:
        m2b = peg.Grammar.loads(model.asjsons())
        if export(m2b) != j2:
            fails.append((fam, 'loads-differs-from-load', json_diff(j2, export(m2b))))
    except Hang:
        raise
    except Exception as e:  # noqa: BLE001
        if not any(f == fam for f, _, _ in fails):
            fails.append((fam, 'loads-raises', short(e)))


def check_pickle(acc, model, start, inputs, fails, stats):
    fam = 'pickle'
    try:
        j = export(model)
        blob = pickle.dumps(model)
    except Hang:
        raise
    except Exception as e:  # noqa: BLE001
        fails.append((fam, 'dumps-raises', short(e)))
        return
    try:
        m2 = pickle.loads(blob)
    except Hang:
        raise
    except Exception as e:  # noqa: BLE001
        fails.append((fam, 'loads-raises', short(e)))
        return
    stats['pickle_reloaded'] = 1
    try:
        j2 = export(m2)
        if j2 != j:
            fails.append((fam, 'export-differs', json_diff(j, j2)))
        f1, f2 = facts(model), facts(m2)
        if f1 != f2:
            fails.append((fam, 'facts-differ', f'{f1} -> {f2}'))
    except Hang:
        raise
    except Exception as e:  # noqa: BLE001
        fails.append((fam, 're-export-raises', short(e)))
    stats['accepted'] += behaviour(acc, fam, fails, model, lambda t: MG.outcome(m2, t, start), inputs, start)


def exec_source(src):
    mod = types.ModuleType('vt_c14_generated')
    code = compile(src, '<parsermodel>', 'exec')
    exec(code, mod.__dict__)  # noqa: S102
    cls = None
    for k, v in mod.__dict__.items():
        if k.endswith('Parser') and isinstance(v, type) and v.__module__ == 'vt_c14_generated':
            cls = v
    return mod, cls


def check_source(acc, model, text, start, inputs, fails, stats):
    """text is the grammar text the model was compiled from (None: object route -> parsermodel_gen on the model)"""
    fam = 'source'
    try:
        if text is not None:
            from tatsu import api
            src = api.to_parsermodel_sourcecode(text, name='T')
        else:
            from tatsu.ngcodegen.grammar_gen import parsermodel_gen
            src = parsermodel_gen(model, name='T')
    except Hang:
        raise
    except Exception as e:  # noqa: BLE001
        fails.append((fam, 'generation-raises', short(e)))
        return
    try:
        mod, cls = exec_source(src)
        gm = mod.__dict__['GRAMMAR_MODEL']
        assert cls is not None, 'no <Name>Parser class in the generated source'
    except Hang:
        raise
    except SyntaxError as e:
        fails.append((fam, 'source-syntax-error', short(e)))
        return
    except Exception as e:  # noqa: BLE001
        fails.append((fam, 'exec-raises', short(e)))
        return
    stats['source_reloaded'] = 1
    try:
        f1, f2 = facts(model), facts(gm)
        if f1 != f2:
            fails.append((fam, 'facts-differ', f'{f1} -> {f2}'))
    except Hang:
        raise
    except Exception as e:  # noqa: BLE001
        fails.append((fam, 'facts-raise', short(e)))

    # (a) the reloaded model itself
    stats['accepted'] += behaviour(acc, fam, fails, model, lambda t: MG.outcome(gm, t, start), inputs, start)
    # (b) the generated <Name>Parser class with its default start rule (the first rule)
    first = model.rules[0].name
    n0 = len(fails)
    behaviour(acc, fam, fails, FirstRule(model, first), lambda t: outcome_call(lambda: cls().parse(t, asmodel=False)),
              inputs, first)
    if len(fails) > n0:
        f, k, d = fails[-1]
        fails[-1] = (f, 'parser-class-' + k, d)
    # (b') grammars WITH directives: the class must honour them (bare call / one unrelated setting / asmodel=False)
    check_parser_class_directives(acc, model, cls, inputs, fails, stats)
    # (c) an explicit start rule through the parser class (a sample: the mechanism is API-level, not per grammar)
    if start != first and h64('c14start', text or '', start) % 5 == 0:
        for t in inputs:
            a = MG.outcome(model, t, start)
            b = outcome_call(lambda t=t: cls().parse(t, start=start, asmodel=False))
            acc.evaluations += 1
            if a != b:
                b0 = outcome_call(lambda t=t: cls().parse(t, asmodel=False))
                kind = 'parser-class-ignores-start' if b == b0 else 'parser-class-start-behaviour'
                fails.append(('source-api', kind,
                              f'<Name>Parser().parse(text, start={start!r}) on {t!r}: model {str(a)[:100]} parser class '
                              f'{str(b)[:100]} (default start {first!r} gives {str(b0)[:100]})'))
                break


def deep_canon(v, depth=0, seen=None):
    """canonical comparable form of an AST or an OBJECT MODEL: lists/tuples unified, nodes as (class name, public
    fields), parseinfo kept as [rule, pos, endpos] (so that @@parseinfo is visible), cycles cut"""
    if v is None or isinstance(v, (bool, int, float, str, bytes)):
        return v
    seen = seen if seen is not None else set()
    if depth > 60 or id(v) in seen:
        return '<cut>'
    seen = seen | {id(v)}
    if hasattr(v, 'rule') and hasattr(v, 'pos') and hasattr(v, 'endpos') and isinstance(v, tuple):
        return ['<parseinfo>', v.rule, v.pos, v.endpos]
    if isinstance(v, dict):
        return {str(k): deep_canon(x, depth + 1, seen) for k, x in v.items()}
    if isinstance(v, (list, tuple)):
        return [deep_canon(x, depth + 1, seen) for x in v]
    d = getattr(v, '__dict__', None)
    if isinstance(d, dict):
        return {'<class>': type(v).__name__,
                **{k: deep_canon(x, depth + 1, seen) for k, x in sorted(d.items())
                   if not k.startswith('_') and k != 'ctx'}}
    return repr(v)[:80]


def outcome_deep(fn):
    from tatsu.exceptions import FailedParse
    try:
        return ('ok', deep_canon(fn()))
    except FailedParse:
        return ('fail',)
    except RecursionError:
        return ('EXC', 'RecursionError')
    except Hang:
        raise
    except Exception as e:  # noqa: BLE001
        return ('EXC', type(e).__name__)


UNRELATED_SETTINGS = [('nameguard', True), ('ignorecase', False), ('parseinfo', False), ('memoization', True)]


def check_parser_class_directives(acc, model, cls, inputs, fails, stats):
    """the emitted <Name>Parser class must honour the grammar's directives exactly as the model does: bare call, a call
    with one setting the grammar does not mention, and a call with asmodel=False, each compared with the original model
    under the SAME arguments (first rule = the class's default start)"""
    directives = {k: v for k, v in (model.directives or {}).items() if k != 'grammar'}
    if not directives:
        return
    stats['parser_class_with_directives'] = 1
    for k in directives:
        acc.count('parser_class_directive:' + k)
    first = model.rules[0].name
    extra = next(((k, v) for k, v in UNRELATED_SETTINGS if k not in directives), None)
    forms = [('bare', {}), ('asmodel-false', {'asmodel': False})]
    if extra:
        forms.insert(1, ('one-setting', {extra[0]: extra[1]}))
    for form, kw in forms:
        okw = dict(kw)
        okw.setdefault('asmodel', True)         # the emitted parse() defaults to asmodel=True
        for t in inputs:
            a = outcome_deep(lambda t=t: model.parse(t, start=first, **okw))
            b = outcome_deep(lambda t=t: cls().parse(t, **kw))
            acc.evaluations += 1
            acc.count('parser_class_calls')
            if a != b:
                rel = 'result' if a[0] == b[0] == 'ok' else f'{a[0]}/{b[0]}'
                fails.append(('source', 'parser-class-directives',
                              f'{rel} for <Name>Parser().parse(text{"".join(f", {k}={v!r}" for k, v in kw.items())}) on '
                              f'{t!r} with directives {directives}: model {str(a)[:140]} parser class {str(b)[:140]}'))
                return


class FirstRule:
    """the original model parsed from a fixed rule (adapter for behaviour())"""

    def __init__(self, model, first):
        self.model = model
        self.first = first

    def parse(self, text, start=None, **kw):
        return self.model.parse(text, start=self.first, **kw)


def json_diff(a, b, path='$'):
    if type(a) is not type(b):
        return f'{path}: {str(a)[:60]!r} ({type(a).__name__}) -> {str(b)[:60]!r} ({type(b).__name__})'
    if isinstance(a, dict):
        for k in a:
            if k not in b:
                return f'{path}.{k}: missing after reload'
        for k in b:
            if k not in a:
                return f'{path}.{k}: appeared after reload'
        for k in a:
            if a[k] != b[k]:
                return json_diff(a[k], b[k], f'{path}.{k}')
    if isinstance(a, list):
        if len(a) != len(b):
            return f'{path}: length {len(a)} -> {len(b)}'
        for i, (x, y) in enumerate(zip(a, b)):
            if x != y:
                return json_diff(x, y, f'{path}[{i}]')
    return f'{path}: {str(a)[:60]!r} -> {str(b)[:60]!r}'


def run_model_case(acc, g, start, route, inputs, which=('json', 'pickle', 'source')):
    """-> (fails, stats, model) or (None, err, None) when the route itself fails"""
    import tatsu
    text = None
    try:
        if route == 'text':
            text = MG.gtext(g)
            model = tatsu.compile(text, name='T')
        else:
            model = MG.build_model(g, name='T')
    except Hang:
        raise
    except Exception as e:  # noqa: BLE001
        return None, (route, type(e).__name__, short(e)), None
    fails = []
    stats = collections.Counter()
    if 'json' in which:
        check_json(acc, model, start, inputs, fails, stats)
    if 'pickle' in which:
        check_pickle(acc, model, start, inputs, fails, stats)
    if 'source' in which:
        check_source(acc, model, text, start, inputs, fails, stats)
    return fails, stats, model


def do_corpus_case(acc, idx, origin):
    """fixed grammar TEXTS with forms our grammar AST has no node for (left/right joins, deprecated syntax): every
    serialisation route must still reload them to an equivalent parser"""
    import tatsu
    from .c13 import CORPUS
    name, text, inputs = CORPUS[idx % len(CORPUS)]
    try:
        model = tatsu.compile(text, name='T')
    except Hang:
        raise
    except Exception as e:  # noqa: BLE001
        acc.count('route_failed:corpus:' + type(e).__name__)
        return
    start = model.rules[0].name
    fails = []
    stats = collections.Counter()
    check_json(acc, model, start, inputs, fails, stats)
    check_pickle(acc, model, start, inputs, fails, stats)
    check_source(acc, model, text, start, inputs, fails, stats)
    acc.count('programs')
    acc.count('route:corpus')
    for k in ('json_reloaded', 'pickle_reloaded', 'source_reloaded'):
        acc.count(k, stats.get(k, 0))
    acc.count('source_route_parser_class_with_directives', stats.get('parser_class_with_directives', 0))
    acc.nontriv('corpus', name)
    if fails:
        acc.count('disagreements_checked', len(fails))
        for fam in sorted({f for f, _, _ in fails}):
            k, d = next((k, d) for f, k, d in fails if f == fam)
            acc.violation(f'{fam}/corpus:{name}', f'{k}: {d} | grammar text {text!r}',
                          {'kind': 'corpus', 'idx': idx, 'origin': origin})


def witness(g, start, route, inputs, origin, **extra):
    w = {'kind': 'model', 'grammar': L.to_json(g), 'grammar_text': MG.gtext(g), 'start': start, 'route': route,
         'inputs': list(inputs), 'origin': origin}
    w.update(extra)
    return w


def attribute(acc, g, start, route, inputs, fails, origin):
    acc.count('disagreements_checked', len(fails))
    for f, k, d in [x for x in fails if x[0] == 'source-api']:
        acc.violation(f'source/{k}', f'{d} | grammar {MG.gtext(g).strip()!r} (route {route})',
                      witness(g, start, route, inputs, origin))
    fails = [x for x in fails if x[0] != 'source-api']
    if not fails:
        return
    hz = hazards(g)
    fams = sorted({f for f, _, _ in fails})
    if hz:
        g0 = neutralise(g, hz)
        fails0, _, _ = run_model_case(acc, g0, start, route, inputs)
        fails0 = [x for x in (fails0 or []) if x[0] != 'source-api']
        acc.count('attribution_runs')
        fams0 = set() if not fails0 else {f for f, _, _ in fails0}
        if fails0:
            report_unknown(acc, g0, start, route, inputs, fails0, origin)
        for fam in [f for f in fams if f not in fams0]:
            culprits = []
            for h in sorted(hz):
                gh = neutralise(g, hz - {h})
                fh, _, _ = run_model_case(acc, gh, start, route, inputs, which=(fam,))
                acc.count('attribution_runs')
                if fh and any(f == fam for f, _, _ in fh):
                    k, d = next((k, d) for f, k, d in fh if f == fam)
                    culprits.append(h)
                    acc.violation(f'{fam}/{h}', f'{HAZARDS[h]} -> {k}: {d} | grammar {MG.gtext(gh).strip()!r} (route {route})',
                                  witness(gh, start, route, inputs, origin))
            if not culprits:
                k, d = next((k, d) for f, k, d in fails if f == fam)
                acc.violation(f'{fam}/interaction:' + '+'.join(sorted(hz)),
                              f'{k}: {d} only with {sorted(hz)} together | grammar {MG.gtext(g).strip()!r}',
                              witness(g, start, route, inputs, origin))
        return
    report_unknown(acc, g, start, route, inputs, fails, origin)


def report_unknown(acc, g, start, route, inputs, fails, origin):
    for fam in sorted({f for f, _, _ in fails}):
        kind = next(k for f, k, _ in fails if f == fam)

        def pred(g2, s2, t2, fam=fam, kind=kind):
            if not g2.rules or hazards(g2) or not any(r.name == start for r in g2.rules):
                return False
            f2, _, _ = run_model_case(acc, g2, start, route, inputs, which=(fam,))
            return bool(f2) and any(f == fam and k == kind for f, k, _ in f2)
        g2 = g
        try:
            cand, _ = S.shrink(L.Grammar(list(g.rules), dict(g.directives), tuple(g.keywords)), start, '', pred, budget=50)
            if pred(cand, start, ''):
                g2 = cand
        except Hang:
            raise
        except Exception:  # noqa: BLE001
            pass
        f2, _, _ = run_model_case(acc, g2, start, route, inputs, which=(fam,))
        if not f2 or not any(f == fam and k == kind for f, k, _ in f2):
            g2, f2 = g, fails
        detail = next(d for f, k, d in f2 if f == fam and k == kind)
        acc.violation(f'{fam}/{kind}/{mech_sig(g2)}',
                      f'{kind}: {detail} | grammar {MG.gtext(g2).strip()!r} (route {route})',
                      witness(g2, start, route, inputs, origin, original=MG.gtext(g)))


def do_model_case(acc, rng, route, n_inputs, origin, sample=False):
    g, start, feats, pats = gen_case(rng)
    inputs = MG.gen_inputs(rng, g, start, n_inputs, pats)
    which = ('json', 'pickle', 'source') if (route == 'text' or rng.random() < 0.3) else ('json', 'pickle')
    fails, stats, model = run_model_case(acc, g, start, route, inputs, which)
    if fails is None:
        acc.count(f'route_failed:{stats[0]}:{stats[1]}')
        return
    acc.count('programs')
    acc.count('route:' + route)
    for f in feats:
        acc.count('feat:' + f)
    if not hazards(g):
        acc.count('hazard_free_programs')
    for k in ('json_reloaded', 'pickle_reloaded', 'source_reloaded'):
        acc.count(k, stats.get(k, 0))
    acc.count('source_route_parser_class_with_directives', stats.get('parser_class_with_directives', 0))
    acc.count('both_accepted', stats['accepted'])
    if stats['accepted'] and (stats.get('json_reloaded') or stats.get('pickle_reloaded')):
        acc.nontriv('model', route, MG.gtext(g))
    if sample:
        acc.sample({'route': route, 'grammar': MG.gtext(g), 'inputs': inputs, 'reloads': dict(stats)})
    if fails:
        attribute(acc, g, start, route, inputs, fails, origin)
    # ---- asjson of what those parses produce (model, ASTs, object models)
    asjson_case(acc, 'grammar-model', model, {'kind': 'asjson-model', 'grammar': L.to_json(g), 'route': route})
    for i, text in enumerate(inputs[:3]):
        for asmodel in (False, True):
            try:
                v = model.parse(text, start=start, asmodel=asmodel)
            except Hang:
                raise
            except Exception as e:  # noqa: BLE001
                # no parse result to convert; a non-parse exception under model-building semantics only is
                # recorded (C07's property, e.g. a numeric first rule parameter), never decided here
                if asmodel and not _is_failed_parse(e):
                    acc.count('objectmodel_parse_raised:' + type(e).__name__)
                continue
            kind = 'object-model' if asmodel else 'ast'
            asjson_case(acc, kind, v, {'kind': 'asjson-parse', 'grammar': L.to_json(g), 'route': route, 'start': start,
                                       'text': text, 'asmodel': asmodel})


def _is_failed_parse(e):
    try:
        from tatsu.exceptions import ParseException
        return isinstance(e, ParseException)
    except Exception:  # noqa: BLE001
        return False


# --------------------------------------------------------------------------- asjson: termination + JSON-ability
def graph_size(obj):
    """distinct reachable objects + the slots they hold (scalars are visited once per slot)"""
    from collections.abc import Mapping
    seen = set()
    todo = [obj]
    n = 0
    while todo:
        o = todo.pop()
        n += 1
        if o is None or isinstance(o, (bool, int, float, str, bytes, complex)):
            continue
        if id(o) in seen:
            continue
        seen.add(id(o))
        if isinstance(o, Mapping):
            try:
                for k, v in list(o.items()):
                    todo.append(v)
                    n += 1
            except Exception:  # noqa: BLE001
                pass
        elif isinstance(o, (list, tuple, set, frozenset)):
            todo.extend(o)
        if isinstance(o, type):
            continue
        d = getattr(o, '__dict__', None)
        if isinstance(d, dict):
            todo.extend(d.values())
            n += len(d)
        for cls in type(o).__mro__:
            for s in getattr(cls, '__slots__', ()) or ():
                if isinstance(s, str):
                    try:
                        todo.append(getattr(o, s))
                    except Exception:  # noqa: BLE001
                        pass
        if len(seen) > 500000:
            break
    return n


def undumpable_leaves(j):
    out, todo, seen = [], [j], set()
    while todo:
        o = todo.pop()
        if o is None or isinstance(o, (bool, int, float, str)):
            continue
        if id(o) in seen:
            continue
        seen.add(id(o))
        if isinstance(o, dict):
            out.extend(k for k in o if not isinstance(k, (str, int, float, bool, type(None))))
            todo.extend(o.values())
        elif isinstance(o, (list, tuple)):
            todo.extend(o)
        else:
            out.append(o)
    return out


def graph_class(obj, limit=200000):
    """'cyclic' | 'shared' | 'tree': shape of the object graph over the edges a JSON export follows (container
    items, mapping values, public instance attributes); iterative DFS with an on-stack set"""
    from collections.abc import Mapping

    def kids(o):
        if isinstance(o, Mapping):
            try:
                return list(o.values())
            except Exception:  # noqa: BLE001
                return []
        if isinstance(o, (list, tuple, set, frozenset)):
            return list(o)
        if isinstance(o, type):
            return []
        d = getattr(o, '__dict__', None)
        if isinstance(d, dict):
            return [v for k, v in d.items() if not str(k).startswith('_')]
        return []

    def scalar(o):
        return o is None or isinstance(o, (bool, int, float, str, bytes, complex))

    if scalar(obj):
        return 'tree'
    done, onstack = set(), {id(obj)}
    stack = [(obj, iter(kids(obj)))]
    shared = False
    n = 0
    while stack:
        o, it = stack[-1]
        for c in it:
            if scalar(c):
                continue
            i = id(c)
            if i in onstack:
                return 'cyclic'
            if i in done:
                shared = True
                continue
            n += 1
            if n > limit:
                return 'shared' if shared else 'tree'
            onstack.add(i)
            stack.append((c, iter(kids(c))))
            break
        else:
            stack.pop()
            onstack.discard(id(o))
            done.add(id(o))
    return 'shared' if shared else 'tree'


def has_ref_strings(j):
    todo = [j]
    while todo:
        o = todo.pop()
        if isinstance(o, str) and REF_RX.match(o):
            return True
        if isinstance(o, dict):
            todo.extend(o.values())
        elif isinstance(o, list):
            todo.extend(o)
    return False


def asjson_case(acc, kind, obj, wit, expect_refs=False, shape=None):
    """one monitored conversion; -> list of (sig, what)"""
    from tatsu.util.asjson import asjson
    if not MON.available and not MON.install():
        acc.note('step monitor unavailable: ' + str(MON.note))
    size = graph_size(obj)
    budget = C_STEPS * size + 200
    if MON.available:
        st, res, steps = MON.run(lambda: asjson(obj), budget)
        acc.count('step_monitor_events', steps)
    else:
        try:
            st, res, steps = 'ok', asjson(obj), 0
        except Exception as e:  # noqa: BLE001
            st, res, steps = 'exc', e, 0
    acc.count('asjson_runs')
    acc.count('asjson_kind:' + kind)
    acc.count({'ast': 'asjson_asts', 'object-model': 'asjson_objectmodels'}.get(kind, 'asjson_other'))
    if st == 'ok' and 'diamond' not in kind:
        acc.peak('max_steps_per_size_x100_nondiamond', int(100 * steps / max(size, 1)))
    acc.peak('max_graph_size', size)
    out = []
    if st == 'budget':
        gc = graph_class(obj)
        acc.count('budget_exceeded:' + gc)
        why = {'shared': 'shared sub-structures of an ACYCLIC graph are expanded in full instead of being rendered as '
                         'references: exponential in the nesting depth',
               'cyclic': 'the input is cyclic: back references are not cut in linear time',
               'tree': 'the input is a plain tree'}[gc]
        out.append((f'asjson/steps-exceed-linear-bound:{gc}-input',
                    f'asjson({kind}) used more than {budget} steps for an object graph of size {size} ({why})'))
    elif st == 'exc':
        cls = type(res).__name__
        out.append((f'asjson/raises:{cls}', f'asjson({kind}) raised {short(res)} on a graph of size {size}'))
    else:
        try:
            json.dumps(res, allow_nan=True)
            acc.count('asjson_dumpable')
        except Hang:
            raise
        except Exception as e:  # noqa: BLE001
            leaves = undumpable_leaves(res)
            if leaves and all(isinstance(x, type) and hasattr(x, '__json__') for x in leaves):
                out.append(('asjson/class-object-returned-as-is',
                            f'asjson({kind}) returned the class object {leaves[0]!r} unchanged (a class that defines '
                            f'__json__ matches the JSONSerializable protocol and is passed through): {short(e)}'))
            else:
                out.append((f'asjson/not-dumpable:{type(e).__name__}',
                            f'json.dumps(asjson({kind})) failed: {short(e)}; non-JSON leaves {[type(x).__name__ for x in leaves][:4]}'))
        if expect_refs:
            if has_ref_strings(res):
                acc.count('asjson_backrefs_rendered')
            else:
                out.append(('asjson/cycle-without-reference',
                            f'asjson({kind}) of a cyclic structure returned no reference string: {str(res)[:160]}'))
        acc.nontriv('asjson', kind, shape if shape is not None else str(res)[:200])
    for sig, what in out:
        acc.count('disagreements_checked')
        acc.violation(sig, what + (f' | shape {shape}' if shape else ''), wit)
    return out


class Color(enum.Enum):
    RED = 1
    LIST = ('a', 'b')


Point = collections.namedtuple('Point', 'x y')


class WithJson:
    def __init__(self, v):
        self.v = v

    def __json__(self, seen=None):
        from tatsu.util.asjson import asjson
        return {'v': asjson(self.v, seen=seen)}


class Plain:
    def __init__(self, v):
        self.v = v
        self.me = self


class Holder:
    pass


EXOTIC = ['nan', 'inf', 'bytes', 'set', 'frozenset', 'tuplekey', 'generator', 'namedtuple', 'enum', 'complex',
          'plainobj', 'withjson', 'weakref', 'bigint', 'nonekey', 'range', 'dictview', 'bytearray', 'style']
EXOTIC_KNOWN_BAD = ['classobj']


def exotic_value(name, ast):
    if name == 'nan':
        return float('nan')
    if name == 'inf':
        return [float('inf'), float('-inf')]
    if name == 'bytes':
        return b'ab\xff'
    if name == 'bytearray':
        return bytearray(b'xy')
    if name == 'set':
        return {1, 2, 'a'}
    if name == 'frozenset':
        return frozenset({1})
    if name == 'tuplekey':
        return {(1, 2): ast, 1: 'i', '1': 's'}
    if name == 'nonekey':
        return {None: ast, True: 1}
    if name == 'generator':
        return (x for x in [1, ast])
    if name == 'range':
        return range(3)
    if name == 'dictview':
        return {'a': 1}.keys()
    if name == 'namedtuple':
        return Point(1, [ast])
    if name == 'enum':
        return [Color.RED, Color.LIST]
    if name == 'complex':
        return 1 + 2j
    if name == 'plainobj':
        return Plain(ast)
    if name == 'withjson':
        return WithJson([ast, WithJson(1)])
    if name == 'weakref':
        h = Holder()
        KEEP.append(h)
        return [weakref.ref(h), weakref.proxy(h)]
    if name == 'bigint':
        return 10 ** 40
    if name == 'style':
        from tatsu.ztyle import Style
        return Style.from_raw('f{a:>3}')
    if name == 'classobj':
        return WithJson           # a class that defines __json__
    raise KeyError(name)


KEEP = []


class ShapeSemantics:
    """semantic actions that build the structure under test out of a real parse"""

    def __init__(self, shape, arg=None):
        self.shape = shape
        self.arg = arg

    def item(self, ast):
        s = self.shape
        if s == 'selflist':
            v = [ast]
            v.append(v)
            return v
        if s == 'selfdict':
            d = {'v': ast}
            d['self'] = d
            return d
        if s == 'shared':
            x = [ast, 'x']
            return [x, x]
        if s == 'sharedict':
            x = {'v': ast}
            return {'a': x, 'b': x, 'c': [x]}
        if s == 'plain':
            return ast
        if s == 'exotic':
            return {'v': exotic_value(self.arg, ast)}
        if s == 'selfast':
            from tatsu.contexts import AST
            a = AST(v=ast)
            a['me'] = a
            return a
        if s == 'selfobj':
            w = WithJson(None)
            w.v = [ast, w]
            return w
        return ast

    def items(self, ast):
        s = self.shape
        if s == 'parentlinks':
            parent = {'kids': []}
            for x in ast:
                parent['kids'].append({'v': x, 'parent': parent})
            return parent
        if s == 'twocycle':
            a, b = {'n': 'a'}, {'n': 'b', 'v': ast}
            a['other'] = b
            b['other'] = a
            return [a, b]
        return ast

    def nest(self, ast):
        # ast is ['(', inner, ')'] or 'a'
        if self.shape == 'diamond':
            inner = ast[1] if isinstance(ast, (list, tuple)) and len(ast) == 3 else ast
            return [inner, inner]
        if self.shape == 'diamonddict':
            inner = ast[1] if isinstance(ast, (list, tuple)) and len(ast) == 3 else ast
            return {'l': inner, 'r': inner}
        return ast


SHAPE_GRAMMAR = '''
start = items $ ;
items = {item}+ ;
item = /[a-c]+/ | nest ;
nest = '(' nest ')' | 'x' ;
'''
CYCLIC_SHAPES = ['selflist', 'selfdict', 'parentlinks', 'twocycle', 'selfast', 'selfobj']
SHARED_SHAPES = ['shared', 'sharedict']
_SHAPE_MODEL = []


def shape_model():
    import tatsu
    if not _SHAPE_MODEL:
        _SHAPE_MODEL.append(tatsu.compile(SHAPE_GRAMMAR, name='Shapes'))
    return _SHAPE_MODEL[0]


def shape_input(rng, shape, depth=None):
    if shape in ('diamond', 'diamonddict'):
        d = depth if depth is not None else rng.choice([1, 2, 2, 3, 3, 4, 5, 6, 9, 12, 15])
        return '(' * d + 'x' + ')' * d, d
    n = rng.choice([1, 2, 3, 5])
    return ' '.join(rng.choice(['a', 'ab', 'cab', 'b']) for _ in range(n)), n


def do_shape_case(acc, rng, origin, shape=None, arg=None, text=None):
    shape = shape or rng.choice(CYCLIC_SHAPES * 2 + SHARED_SHAPES * 2 + ['diamond', 'diamonddict', 'exotic', 'exotic',
                                                                         'exotic', 'plain'])
    if shape == 'exotic' and arg is None:
        arg = rng.choice(EXOTIC) if rng.random() < 0.97 else rng.choice(EXOTIC_KNOWN_BAD)
    depth = None
    if text is None:
        text, depth = shape_input(rng, shape)
    try:
        v = shape_model().parse(text, semantics=ShapeSemantics(shape, arg))
    except Hang:
        raise
    except Exception as e:  # noqa: BLE001
        acc.count('shape_parse_failed:' + type(e).__name__)
        return
    if shape in CYCLIC_SHAPES:
        acc.count('asjson_cyclic')
    if shape in SHARED_SHAPES or shape.startswith('diamond'):
        acc.count('asjson_shared')
    label = shape + (':' + arg if arg else '') + (f':depth{depth}' if shape.startswith('diamond') else '')
    out = asjson_case(acc, 'action-built:' + shape + (':' + arg if arg else ''), v,
                      {'kind': 'shape', 'shape': shape, 'arg': arg, 'text': text, 'origin': origin},
                      expect_refs=shape in CYCLIC_SHAPES, shape=label)
    if shape in SHARED_SHAPES and not out:
        acc.count('shared_acyclic_duplicated_or_referenced_ok')
    # also through Node.asjson() of an object model carrying the structure
    if rng.random() < 0.3:
        try:
            m = object_model_with(v, cycle=not shape.startswith('diamond'))
        except Hang:
            raise
        except Exception as e:  # noqa: BLE001
            acc.count('objmodel_build_failed:' + type(e).__name__)
            return
        asjson_case(acc, 'object-model-holding:' + shape + (':' + arg if arg else ''), m,
                    {'kind': 'shape', 'shape': shape, 'arg': arg, 'text': text, 'origin': origin, 'in_node': True},
                    expect_refs=shape in CYCLIC_SHAPES, shape='node:' + label)


_OBJ_MODEL = []


def object_model_with(value, cycle=True):
    """a real object model (asmodel=True parse) whose node gets the structure as an attribute + a back link"""
    import tatsu
    if not _OBJ_MODEL:
        _OBJ_MODEL.append(tatsu.compile("start::Top = left:part right:part $ ;\npart::Part = v:/\\w+/ ;", name='OM'))
    node = _OBJ_MODEL[0].parse('p q', asmodel=True)
    node.payload = value
    if cycle:
        node.left.up = node          # cycle through model nodes
    return node


# --------------------------------------------------------------------------- concurrent conversions
# K threads released by a barrier convert the same object / structures sharing a sub-object; every thread's result
# must equal the sequential result of the very same conversion computed before the threads start (DESIGN 3/C14).
SCHED = CT.Sched()
THREAD_KINDS = ('same-grammar-model', 'same-parse-result', 'shared-subobjects', 'real-cycles')
THREAD_RUNS = {'quick': 24, 'thorough': 48}
MODEL_OPS = ('x.asjson()', 'x.asjson()', 'x.asjson()', 'asjson(x)', 'asjson(x)', 'json.dumps(asjson(x))', 'x.asjsons()',
             'Grammar.load', 'Grammar.loads', 'pickle')
VALUE_OPS = ('asjson(x)', 'asjson(x)', 'x.asjson()', 'x.asjson()', 'json.dumps(asjson(x))', 'asjsons(x)')
STRING_OPS = ('json.dumps(asjson(x))', 'x.asjsons()', 'asjsons(x)')
THREAD_EXOTIC = [x for x in EXOTIC if x != 'generator']        # a generator can be converted only once
THREAD_SHAPES = ('plain', 'shared', 'sharedict', 'diamond', 'diamonddict', 'exotic', 'yielder', 'yielder')


class Yielder:
    """a user value inside a parse result that renders itself (the __json__ protocol) and gives up the processor
    half way through the conversion"""
    calls = 0

    def __init__(self, v):
        self.v = v

    def __json__(self, seen=None):
        import time

        from tatsu.util.asjson import asjson
        Yielder.calls += 1
        time.sleep(0)
        out = {'y': asjson(self.v, seen=seen)}
        time.sleep(0)
        return out


class YielderSemantics:
    def item(self, ast):
        return Yielder([ast, {'v': ast}])

    def items(self, ast):
        return {'all': ast, 'first': Yielder(ast[0] if ast else None)}


def apply_op(op, x):
    from tatsu import peg
    from tatsu.util.asjson import asjson, asjsons
    if op == 'asjson(x)':
        return asjson(x)
    if op == 'x.asjson()':
        return x.asjson()
    if op == 'json.dumps(asjson(x))':
        return json.dumps(asjson(x), allow_nan=True)
    if op == 'x.asjsons()':
        return x.asjsons()
    if op == 'asjsons(x)':
        return asjsons(x)
    if op == 'Grammar.load':
        return export(peg.Grammar.load(json.loads(json.dumps(x.asjson(), allow_nan=True))))
    if op == 'Grammar.loads':
        return export(peg.Grammar.loads(x.asjsons()))
    if op == 'pickle':
        return export(pickle.loads(pickle.dumps(x)))
    raise KeyError(op)


def op_outcome(op, x):
    """canonical comparable outcome of one conversion: ('json', text) | ('str', text) | ('repr', text) | ('exc', class, line)"""
    try:
        res = apply_op(op, x)
    except RecursionError:
        return ('exc', 'RecursionError', '')
    except Exception as e:  # noqa: BLE001 - observation
        return ('exc', type(e).__name__, short(e))
    if op in STRING_OPS and isinstance(res, str):
        return ('str', res)
    try:
        return ('json', json.dumps(res, allow_nan=True))
    except Exception:  # noqa: BLE001
        return ('repr', repr(res))


def same_outcome(a, b):
    return a[:2] == b[:2] if (a[0] == 'exc' or b[0] == 'exc') else a == b


def outcome_data(o):
    if o[0] in ('json', 'str'):
        try:
            return True, json.loads(o[1])
        except Exception:  # noqa: BLE001
            pass
    return False, None


def thread_diffkind(exp, obs):
    """-> (mechanism-level kind, readable detail)"""
    if obs is None:
        return 'no-result', 'the thread did not deliver a result'
    if obs[0] == 'exc':
        return f'raises:{obs[1]}', f'raised {obs[1]}: {obs[2]}' + (f' (sequentially: {exp[1]})' if exp[0] == 'exc' else '')
    if exp[0] == 'exc':
        return 'succeeds-where-sequential-raises', f'sequentially raised {exp[1]}: {exp[2]}, in the thread gave {obs[1][:120]}'
    ok1, d1 = outcome_data(exp)
    ok2, d2 = outcome_data(obs)
    if not (ok1 and ok2):
        return 'text-differs', f'{exp[1][:100]!r} -> {obs[1][:100]!r}'
    path, a, b = first_diff(d1, d2)
    a_ref = isinstance(a, str) and bool(REF_RX.match(a))
    b_ref = isinstance(b, str) and bool(REF_RX.match(b))
    if b_ref and not a_ref:
        return ('reference-string-for-object-not-in-a-cycle',
                f'at {path} the sequential conversion gives {str(a)[:80]!r} ({type(a).__name__}), the thread got the reference string {b!r}')
    if a_ref and not b_ref:
        return 'cycle-reference-missing', f'at {path} the sequential conversion gives the reference {a!r}, the thread got {str(b)[:80]!r}'
    return 'value-differs', f'at {path}: {str(a)[:80]!r} -> {str(b)[:80]!r}'


def first_diff(a, b, path='$'):
    if type(a) is type(b):
        if isinstance(a, dict):
            for k in a:
                if k not in b:
                    return f'{path}.{k}', a[k], '<missing>'
                if a[k] != b[k] and not (a[k] != a[k] and b[k] != b[k]):
                    return first_diff(a[k], b[k], f'{path}.{k}')
            for k in b:
                if k not in a:
                    return f'{path}.{k}', '<missing>', b[k]
        elif isinstance(a, list):
            for i, (x, y) in enumerate(zip(a, b)):
                if x != y and not (x != x and y != y):
                    return first_diff(x, y, f'{path}[{i}]')
            if len(a) != len(b):
                return f'{path}[{min(len(a), len(b))}]', f'<length {len(a)}>', f'<length {len(b)}>'
    return path, a, b


def thread_cfg(seed, shard, i):
    rng = random.Random(h64('C14', 'threads', seed, shard, i))
    return {'kind': 'threads', 'subject': THREAD_KINDS[(i + shard) % len(THREAD_KINDS)], 'k': rng.choice((2, 4, 8)),
            'schedule': rng.choice(('pause', 'yields')), 'p': rng.choice((0.01, 0.03, 0.1)), 'rounds': 3,
            'seed': h64('C14', 'thread-run', seed, shard, i), 'origin': {'seed': seed, 'shard': shard, 'i': i}}


def _thread_model(rng, acc):
    """a generated grammar model (object route mostly) with its start rule and inputs, or None"""
    import tatsu
    for _ in range(4):
        g, start, feats, pats = gen_case(rng)
        try:
            if rng.random() < 0.06:
                model = tatsu.compile(MG.gtext(g), name='T')
            else:
                model = MG.build_model(g, name='T')
            inputs = MG.gen_inputs(rng, g, start, 4, pats)
        except Hang:
            raise
        except Exception as e:  # noqa: BLE001
            acc.count('thread_subject_build_failed:' + type(e).__name__)
            continue
        return model, start, inputs, MG.gtext(g)
    return None


def _parse_result(rng, acc, want_cycle=False):
    """-> (value, description) a parse result of a real parse: AST / object model of a generated grammar, or a
    structure built by semantic actions of the shape grammar"""
    if not want_cycle and rng.random() < 0.45:
        got = _thread_model(rng, acc)
        if got:
            model, start, inputs, gtext = got
            asmodel = rng.random() < 0.5
            for text in inputs:
                try:
                    v = model.parse(text, start=start, asmodel=asmodel)
                except Hang:
                    raise
                except Exception:  # noqa: BLE001
                    continue
                if graph_size(v) >= 5:
                    return v, f'{"object model" if asmodel else "AST"} of {text!r} under grammar {gtext.strip()!r}'
    shape = rng.choice(CYCLIC_SHAPES) if want_cycle else rng.choice(THREAD_SHAPES)
    arg = rng.choice(THREAD_EXOTIC) if shape == 'exotic' else None
    text, _ = shape_input(rng, shape, depth=rng.choice((1, 2, 3, 4)) if shape.startswith('diamond') else None)
    sem = YielderSemantics() if shape == 'yielder' else ShapeSemantics(shape, arg)
    v = shape_model().parse(text, semantics=sem)
    desc = f'action-built:{shape}{":" + arg if arg else ""} from {text!r}'
    if rng.random() < 0.3:
        v = object_model_with(v, cycle=want_cycle)
        desc = 'object model node holding ' + desc
    return v, desc


def _wrap(rng, t, shared):
    """a structure of thread t's own around the shared sub-object"""
    from tatsu.contexts import AST
    w = rng.choice(('list', 'dict', 'ast', 'withjson', 'tuple', 'node'))
    if w == 'list':
        return [t, shared]
    if w == 'dict':
        return {'who': t, 'v': shared, 'again': [shared]}
    if w == 'ast':
        return AST(who=t, v=shared)
    if w == 'withjson':
        return WithJson([t, shared])
    if w == 'tuple':
        return (shared, t)
    return object_model_with([t, shared], cycle=False)


def value_ops(rng, x):
    ops = [o for o in VALUE_OPS if o != 'x.asjson()' or callable(getattr(x, 'asjson', None))]
    return rng.choice(ops)


def build_thread_subjects(cfg, rng, acc):
    """-> (subjects per thread, op per thread, description) or None"""
    kind, k = cfg['subject'], cfg['k']
    if kind == 'same-grammar-model':
        got = _thread_model(rng, acc)
        if not got:
            return None
        model, _start, _inputs, gtext = got
        return [model] * k, [rng.choice(MODEL_OPS) for _ in range(k)], f'grammar model {gtext.strip()!r}'
    if kind == 'same-parse-result':
        v, desc = _parse_result(rng, acc)
        return [v] * k, [value_ops(rng, v) for _ in range(k)], desc
    if kind == 'shared-subobjects':
        r = rng.random()
        if r < 0.3:
            got = _thread_model(rng, acc)
            if not got:
                return None
            model = got[0]
            shared = model if rng.random() < 0.5 else model.rules[0]
            desc = ('the grammar model ' if shared is model else 'the first rule of ') + repr(got[3].strip())
        else:
            shared, desc = _parse_result(rng, acc)
        subs = [_wrap(rng, t, shared) for t in range(k)]
        return subs, [value_ops(rng, s) for s in subs], 'per-thread structures sharing ' + desc
    # real cycles: the same cyclic object, or per-thread structures around one cyclic object
    v, desc = _parse_result(rng, acc, want_cycle=True)
    if rng.random() < 0.5:
        return [v] * k, [value_ops(rng, v) for _ in range(k)], 'cyclic ' + desc
    subs = [_wrap(rng, t, v) for t in range(k)]
    return subs, [value_ops(rng, s) for s in subs], 'per-thread structures sharing cyclic ' + desc


def thread_case(acc, cfg, rep=0):
    """one concurrent run; True when a violation was reported"""
    if not MON.available:
        MON.install()
    if not SCHED.install(MON.codes):
        acc.note('thread scheduler unavailable: ' + str(SCHED.note))
    rng = random.Random(h64(cfg['seed'], rep))
    kind, k, rounds = cfg['subject'], cfg['k'], cfg['rounds']
    try:
        built = build_thread_subjects(cfg, rng, acc)
    except Hang:
        raise
    except Exception as e:  # noqa: BLE001
        acc.count('thread_subject_build_failed:' + type(e).__name__)
        return False
    if built is None:
        acc.count('thread_subject_unavailable')
        return False
    subjects, ops, desc = built
    SCHED.start()
    try:
        # ---- the sequential results, before any thread exists (twice: the conversion must be repeatable at all)
        expected, lines = [], []
        for t in range(k):
            e1, n1 = CT.measure(SCHED, lambda t=t: op_outcome(ops[t], subjects[t]))
            e2, _ = CT.measure(SCHED, lambda t=t: op_outcome(ops[t], subjects[t]))
            if not same_outcome(e1, e2):
                acc.count('thread_conversion_not_repeatable_sequentially')
                e1 = None
            expected.append(e1)
            lines.append(n1)
        load_before = None
        if kind == 'same-grammar-model':
            load_before = op_outcome('Grammar.load', subjects[0])
        pause_points = []
        for r in range(rounds):
            who = rng.randrange(k)
            pause_points.append((who, rng.randint(1, max(lines[who], 1))))
        y0 = Yielder.calls
        jobs = [(lambda t=t: op_outcome(ops[t], subjects[t])) for t in range(k)]
        # small subjects: at least ~6 expected yields per conversion (decided by the seeded line count, not by time)
        p = max(cfg['p'], min(0.5, 6 / max(min(lines), 1)))
        obs = CT.run_threads(SCHED, jobs, rounds, p, cfg['schedule'], pause_points, h64(cfg['seed'], rep))
        struct_yields = Yielder.calls - y0
        load_after = op_outcome('Grammar.load', subjects[0]) if load_before is not None else None
    finally:
        SCHED.stop()
    injected = obs['yields'] + obs['pauses'] + struct_yields
    wit = {'kind': 'threads', **cfg['origin']}
    found = False
    if obs['hung'] or obs['timeouts']:
        found = True
        acc.violation(f'asjson-threads/{kind}/hang',
                      f'{obs["hung"]} of {k} threads converting {desc} did not finish ({obs["timeouts"]} watchdog expiries, '
                      f'schedule {cfg["schedule"]})', wit)
    if injected == 0:
        # nothing was injected: the run explored no interleaving on purpose; it is not evidence
        acc.count('thread_runs_without_injection')
    else:
        acc.count('thread_runs')
        acc.count('thread_runs:' + kind)
        acc.count(f'thread_runs:k={k}')
        acc.count('thread_runs:schedule=' + cfg['schedule'])
        acc.count('thread_yields_injected', obs['yields'])
        acc.count('thread_forced_pauses', obs['pauses'])
        acc.count('thread_structure_yields', struct_yields)
        acc.count('thread_switches_observed', obs['switches'])
        if obs['nsig'] >= 4:
            acc.nontriv('interleave', obs['sig'])
            THREAD_SIGS.add(obs['sig'])
    seen_sigs = set()
    for t in range(k):
        exp = expected[t]
        if exp is None:
            continue
        for r in range(rounds):
            got = obs['results'][t][r]
            if got is None and obs['hung']:
                continue
            if injected:
                acc.evaluations += 1
                acc.count('thread_results_compared')
                acc.count('thread_results_compared:' + ops[t])
                if exp[0] != 'exc':
                    acc.count('thread_results_compared_ok_sequentially')
                    if exp[0] in ('json', 'str') and '@0x' in exp[1]:
                        acc.count('thread_results_with_references_expected')
            if got is not None and same_outcome(exp, got):
                continue
            dk, detail = thread_diffkind(exp, got)
            sig = f'asjson-threads/{kind}/{dk}'
            acc.count('disagreements_checked')
            if sig in seen_sigs:
                continue
            seen_sigs.add(sig)
            found = True
            extra = ''
            if kind == 'same-grammar-model' and got is not None and got[0] in ('json', 'str') and ops[t] in (
                    'x.asjson()', 'asjson(x)', 'json.dumps(asjson(x))', 'x.asjsons()'):
                ok, data = outcome_data(got)
                if ok:
                    lo = load_outcome(data)
                    extra = f'; Grammar.load of the thread\'s JSON: {lo}'
            who = (f'thread {t} (round {r}, {cfg["schedule"]} schedule' +
                   (f', thread {pause_points[r][0]} suspended at its statement {pause_points[r][1]} inside asjson.py'
                    if cfg['schedule'] == 'pause' else f', yield probability {p:.3f}') + ')')
            acc.violation(sig, f'{k} threads converting {desc}: {ops[t]} in {who} differs from the sequential result of '
                               f'the same call: {detail}{extra}', wit)
    if load_before is not None and injected:
        acc.count('thread_roundtrips_loaded_after_threads')
        if not same_outcome(load_before, load_after):
            dk, detail = thread_diffkind(load_before, load_after)
            found = True
            acc.violation(f'asjson-threads/{kind}/load-after-threads/{dk}',
                          f'after {k} threads converted {desc}, writing the model out and loading it back no longer gives '
                          f'what it gave before the threads: {detail}', wit)
    if injected and all(e is not None and e[0] != 'exc' for e in expected):
        acc.nontriv('threadrun', kind, k, cfg['schedule'], desc[:300], tuple(ops))
    return found


THREAD_SIGS = set()


def load_outcome(data):
    from tatsu import peg
    try:
        m = peg.Grammar.load(data)
        return f'loads, {len(m.rules)} rules'
    except RecursionError:
        return 'raises RecursionError'
    except Exception as e:  # noqa: BLE001
        return 'raises ' + short(e)


def run_thread_slice(desc, acc, n):
    for i in range(n):
        cfg = thread_cfg(desc['seed'], desc['shard'], i)
        try:
            with guard():
                thread_case(acc, cfg)
        except Hang:
            acc.count('hang_guard_skips')
            acc.note('a concurrent run was skipped by the CPU-time hang guard')
    acc.count('thread_distinct_interleavings', len(THREAD_SIGS))
    SCHED.uninstall()


# --------------------------------------------------------------------------- shard
def route_for(i):
    return 'text' if i % 5 in (0, 3) else 'object'


def run_shard(desc, acc):
    if not MON.install():
        acc.note('step monitor unavailable: ' + str(MON.note))
    if desc['shard'] == 0:
        from .c13 import CORPUS
        for idx in range(len(CORPUS)):
            try:
                with guard():
                    do_corpus_case(acc, idx, {'corpus': idx})
            except Hang:
                acc.count('hang_guard_fired')
    for i in range(desc['n']):
        rng = random.Random(h64('C14', desc['seed'], desc['shard'], i))
        route = route_for(i)
        origin = {'shard': desc['shard'], 'i': i, 'route': route}
        try:
            with guard():
                do_model_case(acc, rng, route, desc['inputs'], origin, sample=(i == 0))
            for k in range(3):
                with guard():
                    do_shape_case(acc, rng, origin)
        except Hang:
            acc.count('hang_guard_skips')
            acc.note('a case was skipped by the CPU-time hang guard')
    if desc['shard'] == 0:
        # every structure kind and exotic value at least once, whatever the seed
        rng = random.Random(h64('C14', 'fixed'))
        fixed = [dict(shape=shape) for shape in CYCLIC_SHAPES + SHARED_SHAPES + ['plain']]
        fixed += [dict(shape=shape, text='(' * d + 'x' + ')' * d) for d in (1, 4, 8, 12, 16)
                  for shape in ('diamond', 'diamonddict')]
        fixed += [dict(shape='exotic', arg=arg) for arg in EXOTIC + EXOTIC_KNOWN_BAD]
        for kw in fixed:
            try:
                with guard():
                    do_shape_case(acc, rng, {'fixed': kw}, **kw)
            except Hang:
                acc.count('hang_guard_skips')
    run_thread_slice(desc, acc, desc.get('threads', 0))


def replay(w, acc):
    MON.install()
    kind = w.get('kind')
    if kind == 'threads':
        cfg = thread_cfg(w['seed'], w['shard'], w['i'])
        try:
            for rep in range(6):
                if thread_case(acc, cfg, rep=rep):
                    break
        finally:
            SCHED.uninstall()
        return
    if kind == 'model':
        g = L.from_json(w['grammar'])
        fails, stats, _ = run_model_case(acc, g, w['start'], w['route'], w['inputs'])
        if fails is None:
            acc.note(f'route failed on replay: {stats}')
            return
        if fails:
            attribute(acc, g, w['start'], w['route'], w['inputs'], fails, {'mode': 'replay'})
    elif kind == 'corpus':
        do_corpus_case(acc, w['idx'], {'mode': 'replay'})
    elif kind == 'shape':
        do_shape_case(acc, random.Random(1), {'mode': 'replay'}, shape=w['shape'], arg=w.get('arg'), text=w['text'])
    elif kind in ('asjson-model', 'asjson-parse'):
        import tatsu
        g = L.from_json(w['grammar'])
        model = tatsu.compile(MG.gtext(g), name='T') if w['route'] == 'text' else MG.build_model(g, name='T')
        if kind == 'asjson-model':
            asjson_case(acc, 'grammar-model', model, w)
        else:
            v = model.parse(w['text'], start=w['start'], asmodel=w['asmodel'])
            asjson_case(acc, 'object-model' if w['asmodel'] else 'ast', v, w)


MANIFEST = {
    'technique': 'runtime monitoring: round-trip differential of the real serialisers (JSON export/import, pickle, model '
                 'source generation + exec) against the original model, and a sys.monitoring logical-step monitor + '
                 'json.dumps acceptance on tatsu.util.asjson over parse results and action-built structures; concurrent '
                 'conversions of shared objects under injected yields / forced suspensions compared with the sequential result',
    'level_text': 'each grammar model is a program translated by a real serializer and loaded back by the real loader; the '
                  'translation is validated by comparing the exported structure, rules/directives/keywords and behaviour on '
                  'inputs; asjson conversions run under a step monitor whose bound is linear in an independently measured '
                  'object-graph size',
    'level_note': 'trusted: our text printer/object builder (only to obtain models), exec of generated source in a throw-away '
                  'module, sys.monitoring PY_START counting on the code objects of tatsu/util/asjson.py, the id()-based graph '
                  'size; held = no unexplained divergence / bound violation on the cases listed in the evidence',
}
