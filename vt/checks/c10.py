"""C10 -- API results depend only on the arguments, not on earlier or concurrent calls.

Three monitors (DESIGN.md section 3/C10):

HISTORIES   fresh-process oracle.  A pool of call descriptors (vt/monitors/c10_calls.py) is first
            evaluated one-descriptor-per-fresh-interpreter; then seeded random sequences of 5-40
            descriptors are executed, each sequence in its own long-lived worker process, and every
            step's canonical result is compared with the fresh-interpreter result of the same call.
STATE       snapshot of model.asjson(), model.config.asdict() and every passed ParserConfig around
            every parse (in the fresh evaluations, in the histories and in the thread runs), and a deep
            canonical snapshot of EVERY caller-owned mutable argument (constructors lists, typedefs
            lists with their dict/module containers, BuilderConfig, ParserConfig, keywords lists,
            semantics objects, a ModelBuilderSemantics built from the caller's lists) before and after
            every API call that receives it (compile, tatsu.parse, code generation, parser
            construction, parse): a call must not change what it was given.
ARGUMENTS   the descriptor pool passes caller-owned mutable arguments, and a history step may name an
            argument slot: every step of the history that names the same (option, value, slot) is
            given the SAME object ("the list the caller kept from call k").  The oracle of such a step
            is still the same call alone in a fresh interpreter (where the object is new).
CONSTANTS   two grammar families with constants and alerts over names that the rule has bound at that
            point ({who} after who:...), over names it has NOT bound (they stay literal text), bare
            names and Python literals; the families (and the options of one rule) share the name
            spellings, so a history parses "who bound" and "who unbound" inputs in one process, on one
            model, and through different routes.
THREADS     N in {2,4,8} threads x ~50 inputs on ONE shared compiled model / one shared generated
            parser class (separate instances), switch interval 1e-6 plus seeded yield injection
            from a sys.monitoring LINE tool restricted to tatsu's code objects; results compared
            with the sequential results (vt/monitors/c10_threads.py).

plan() evaluates the pool (and the "sibling" calls used to explain divergences) in fresh
interpreters, 16 at a time, and hands the table to every shard (cached for the run); what is not in
the table is evaluated on demand.

A divergence gets a *mechanism* signature: which argument dimension of which earlier call explains
the observed result (the observed result equals the fresh result of the same call with that option
taken from the earlier call), or which process-wide registry does (synthesized classes).  A
divergence that no listed mechanism explains is shrunk with fresh worker processes and alarms under
a generic signature.
"""
from __future__ import annotations

import json
import os
import random
import re
import subprocess
import sys
from concurrent.futures import ThreadPoolExecutor

from ..common import REPO, VERIF, h64
from ..monitors import c10_calls as C

ID = 'C10'
LEVEL = 'exploration'
RULE = ('histories: a case = one seeded sequence of 5-40 API call descriptors (tatsu.compile+parse, tatsu.parse, '
        'compile with asmodel/basetype/typedefs/constructors/semantics/ignorecase/whitespace/name/start, model.parse with '
        'settings or a ParserConfig, failing parses, to_python_sourcecode->exec->parse, to_python_model->exec->compile, '
        'deferred use of an earlier obtained model/parser object, object sessions = one generated-parser instance or compiled '
        'model reused for a run of calls that pass nothing or exactly one of asmodel/semantics/start/a setting/a ParserConfig, '
        'semantics objects shared/dropped/re-created, caller-owned mutable arguments -- constructors / typedefs (dicts, '
        'modules) / keywords lists, BuilderConfig, ParserConfig, ModelBuilderSemantics(constructors=, typedefs=) -- either '
        'new per call or ONE object kept by the caller and passed to several calls of the history alone and combined '
        'with other options (argument sessions), constants and alerts over names bound / not bound in their rule with '
        'the same name spellings in two grammars) over 8 '
        'grammar texts, run in ONE fresh worker process, every step compared with the same call evaluated alone in a '
        'fresh interpreter; distinct by the sequence of (descriptor, reuse, phase) and, separately, by ordered pair of '
        'same-grammar descriptors (earlier, later) that met in one process.  threads: a case = (grammar template, '
        'target, N threads, inputs, yield seed), distinct additionally by interleaving signature (hash of the first 64 '
        '(thread, line) switch points).  non-trivial = the step/run was compared with its oracle')
ASSUMPTIONS = [
    'the fresh-interpreter result of a call IS the call\'s meaning (oracle); a sample of descriptors is evaluated '
    'twice in separate interpreters and must agree',
    'canonical result = AST/JSON with node class names, module and base-class names, sequence type names, '
    'ParseInfo positions; exceptions by class, position and first message line; memory addresses scrubbed',
    'client objects passed as arguments (semantics, base types, constructors) are stateless, so equal arguments '
    'denote the same call',
    'a caller-owned argument object passed to several calls denotes, in each of them, the value it was created with '
    '(no call may alter it: the STATE monitor compares its deep canonical form before and after every call), so the '
    'fresh-interpreter result of the call with a new object of that value is the oracle of every such call',
    'canonical form of an argument object: containers, modules and Config dataclasses by content, classes / functions / '
    "TatSu's own objects by identity, client objects by their public attributes",
    'the documentation promises nothing about sharing one parser INSTANCE between threads: that configuration is run '
    'and counted (shared_instance_divergent_runs) but is outside the statement',
    'schedules are sampled (switch interval 1e-6 + seeded yields at statement boundaries), not enumerated',
]
FLOORS = {
    'quick': {'idreuse_attempts': 300, 'histories': 200, 'steps_compared': 3400, 'steps_agree': 2800, 'deferred_or_shared_object_uses': 600,
              'deferred_uses': 150, 'parses_state_monitored': 2400, 'fresh_evaluations': 200,
              'fresh_determinism_checked': 15, 'good_parse_after_failed_parse_same_object': 200,
              'via:api': 200, 'via:gen': 300, 'via:compile': 2000, 'drops': 100,
              'bare_call_after_configured_call_same_object': 500, 'bare_call_after_configured_call_same_object:gen': 300,
              'bare_call_after_configured_call_same_object:typed-rules': 150,
              'configured_call_on_reusable_object:asmodel': 250, 'configured_call_on_reusable_object:semantics': 350,
              'configured_call_on_reusable_object:config': 500,
              'thread_runs': 32, 'thread_results_compared': 3000, 'post_thread_sequential_compared': 2500,
              'yields_injected': 100000, 'thread_switches_observed': 100000,
              'distinct_interleavings': 20, 'distinct_nontrivial': 3000,
              # caller-owned mutable arguments: snapshotted around every call; kept objects passed to another call
              'argument_objects_snapshotted': 2000, 'calls_argument_monitored:compile': 1800,
              'calls_argument_monitored:tatsu.parse': 350, 'calls_argument_monitored:parse': 2400,
              'kept_argument_object_passed_to_another_call': 250,
              'kept_argument_object_passed_to_another_call:constructors': 100,
              'kept_argument_object_passed_to_another_call:typedefs': 60,
              'kept_argument_object_passed_to_another_call:builderconfig': 12,
              'kept_argument_object_passed_again:config': 35,
              'thread_run_argument_objects_snapshotted': 250,
              # constants / alerts over a name that is not bound, after an earlier parse of the process bound that name
              'constant_parses_compared': 1000,
              'constant_over_unbound_name_after_that_name_was_bound_in_an_earlier_parse': 700},
    'thorough': {'histories': 4000, 'steps_compared': 55000, 'steps_agree': 48000,
                 'deferred_or_shared_object_uses': 11000, 'deferred_uses': 2800, 'parses_state_monitored': 40000,
                 'fresh_evaluations': 700, 'fresh_determinism_checked': 60,
                 'good_parse_after_failed_parse_same_object': 4000,
                 'via:api': 3500, 'via:gen': 6000, 'via:compile': 38000, 'drops': 3000,
                 'bare_call_after_configured_call_same_object': 8000, 'bare_call_after_configured_call_same_object:gen': 5000,
                 'bare_call_after_configured_call_same_object:typed-rules': 2500,
                 'configured_call_on_reusable_object:asmodel': 4000, 'configured_call_on_reusable_object:semantics': 5500,
                 'configured_call_on_reusable_object:config': 8000,
                 'thread_runs': 700, 'thread_results_compared': 60000, 'post_thread_sequential_compared': 55000,
                 'yields_injected': 2500000, 'thread_switches_observed': 2500000,
                 'distinct_interleavings': 400, 'distinct_nontrivial': 30000,
                 'argument_objects_snapshotted': 30000, 'calls_argument_monitored:compile': 27000,
                 'calls_argument_monitored:tatsu.parse': 5000, 'calls_argument_monitored:parse': 40000,
                 'kept_argument_object_passed_to_another_call': 3500,
                 'kept_argument_object_passed_to_another_call:constructors': 1400,
                 'kept_argument_object_passed_to_another_call:typedefs': 800,
                 'kept_argument_object_passed_to_another_call:builderconfig': 170,
                 'kept_argument_object_passed_again:config': 500,
                 'thread_run_argument_objects_snapshotted': 3000,
                 'constant_parses_compared': 15000,
                 'constant_over_unbound_name_after_that_name_was_bound_in_an_earlier_parse': 10000},
}
PEAK_COUNTERS = ('peak_compiled_grammar_cache', 'peak_bind_cache', 'peak_semantic_action_cache', 'pool_size',
                 'aux_pool_size', 'fresh_evaluations', 'fresh_determinism_checked')
SHARD_TIMEOUT = {'quick': 1800, 'thorough': 7200}

N_HIST = {'quick': 300, 'thorough': 5000}
N_THREAD_RUNS = {'quick': 128, 'thorough': 1600}
HIST_SHARDS = {'quick': 12, 'thorough': 48}
THREAD_SHARDS = {'quick': 8, 'thorough': 16}

WORKER_TIMEOUT = 180
# per-shard budget of interpreter launches spent on explaining / re-running / shrinking divergences
EXTRA_LAUNCHES = {'quick': 90, 'thorough': 240}

# options whose value the compile cache is known to ignore (candidates for the plan-time sibling closure)
MODEL_BUILDING = {'asmodel', 'basetype', 'typedefs', 'constructors', 'builderconfig', 'synthok'}
COMPILE_SETTINGS = {'whitespace', 'ignorecase', 'nameguard', 'left_recursion', 'start', 'parseinfo', 'comments',
                    'eol_comments', 'namechars', 'memoization'}


# ----------------------------------------------------------------------------------------------
# worker processes
# ----------------------------------------------------------------------------------------------

def worker_env():
    env = dict(os.environ)
    env['PYTHONPATH'] = os.pathsep.join([REPO, VERIF, os.path.join(VERIF, '.deps')])
    env['PYTHONHASHSEED'] = '0'
    env['PYTHONDONTWRITEBYTECODE'] = '1'
    return env


def run_worker(steps):
    """one fresh interpreter executes the steps -> observations dict"""
    p = subprocess.run([sys.executable, '-m', 'vt.monitors.c10_calls'], input=json.dumps({'steps': steps}),
                       capture_output=True, text=True, timeout=WORKER_TIMEOUT, cwd=VERIF, env=worker_env())
    if p.returncode != 0 or not p.stdout:
        raise RuntimeError(f'C10 worker failed rc={p.returncode}: {(p.stderr or "")[-1500:]}')
    out = json.loads(p.stdout)
    f = os.path.realpath(out.get('tatsu_file', ''))
    if not f.startswith(os.path.realpath(REPO) + os.sep):
        raise RuntimeError(f'worker imported tatsu from {f}, not from {REPO}')
    return out


def fresh_eval(desc):
    out = run_worker([{'desc': desc}])
    return out['results'][0], out['state_events']


class Fresh:
    """fresh-interpreter results by call identity; plan-time table + on-demand evaluation (memoized,
    within a per-shard budget of extra interpreter launches)"""

    def __init__(self, table=None, acc=None, budget=None):
        self.table = dict(table or {})
        self.acc = acc
        self.budget = budget if budget is not None else [10 ** 9]

    def spend(self, n=1):
        if self.budget[0] < n:
            return False
        self.budget[0] -= n
        return True

    def get(self, desc, on_demand=True):
        k = C.desc_key(desc)
        if k in self.table:
            return self.table[k]
        if not on_demand or not self.spend():
            if self.acc is not None and on_demand:
                self.acc.count('explanation_budget_exhausted')
            return KeyError
        r, _ = fresh_eval(strip(desc))
        self.table[k] = r
        if self.acc is not None:
            self.acc.count('fresh_on_demand')
        return r


def strip(desc):
    return {k: v for k, v in desc.items() if not k.startswith('_')}


# ----------------------------------------------------------------------------------------------
# plan: evaluate the pool (and the sibling closure used to explain divergences) in fresh interpreters
# ----------------------------------------------------------------------------------------------

def with_option(desc, lvl, o, val, absent=False):
    """copy of desc with option o at level lvl set to val (or removed)"""
    d = json.loads(json.dumps(strip(desc)))
    d.pop('id', None)
    key = 'c' if desc['via'] == 'api' else lvl
    opts = d.setdefault(key, {})
    target = opts
    if isinstance(opts.get('config'), dict) and o in opts['config']:
        target = opts['config']
    if absent:
        target.pop(o, None)
    else:
        target[o] = val
    return d


def mb_group(desc):
    """the model-building options that reach tatsu.compile (tatsu.parse passes only asmodel on)"""
    return {o: v for (lvl, o), v in C.dims(desc).items() if lvl == 'c' and o in MODEL_BUILDING}


def with_mb_group(desc, group):
    d = json.loads(json.dumps(strip(desc)))
    d.pop('id', None)
    opts = d.setdefault('c', {})
    for o in list(opts):
        if o in MODEL_BUILDING:
            del opts[o]
    opts.update(group)
    return d


def substitutions(p, v, compile_level_only=False):
    """candidate explanations "the later call v behaves as if an argument of the earlier call p had
    been given to it":  yields (v2, signature, text, level of the option in p)"""
    if p['fam'] != v['fam']:
        return
    pd, vd = C.dims(p), C.dims(v)
    if v['via'] in ('compile', 'api', 'genmodel', 'gen', 'src', 'modelsrc'):
        pg = mb_group(p)
        own = {o: x for o, x in (v.get('c') or {}).items() if o in MODEL_BUILDING}
        if pg != own and p['via'] in ('compile', 'api') and v['via'] in ('compile', 'api'):
            shown = ', '.join(f'{o}={x!r}' for o, x in pg.items()) or 'no model-building option'
            yield (with_mb_group(v, pg), ASMODEL_SIG,
                   f'behaves as if its model-building options were those of the earlier call ({shown})', 'c')
    for (plvl, o) in sorted(set(pd) | set(vd)):
        if compile_level_only and plvl != 'c':
            continue
        if plvl == 'c' and o in MODEL_BUILDING:
            continue
        pv = pd.get((plvl, o), KeyError)
        for vlvl in dict.fromkeys(('c', plvl)):
            if vlvl == 'k' and v['via'] != 'gen':
                continue
            if vd.get((vlvl, o), KeyError) == pv:
                continue
            if pv is KeyError and (vlvl, o) not in vd:
                continue
            v2 = with_option(v, vlvl, o, None if pv is KeyError else pv, absent=pv is KeyError)
            txt = f'behaves as if {o}={pv!r}' if pv is not KeyError else f'behaves as if {o} had not been given'
            yield v2, leak_sig(o, plvl), txt, plvl


def cache_entry_guess(d):
    """which compiled-grammar cache entry a call plausibly touches -- used ONLY to order candidate
    explanations and to choose what is precomputed (what is not precomputed is evaluated on demand)"""
    c = d.get('c') or {}
    via = d['via']
    if via == 'compile':
        return (c.get('name'), 'semantics' in c)
    if via == 'api':
        return (None, False)
    if via == 'genmodel':
        return (None, True)
    return (c.get('name'), False)


def same_cache_entry(p, v):
    if p['via'] not in ('compile', 'api') or v['via'] not in ('compile', 'api'):
        return False
    gp, gv = cache_entry_guess(p), cache_entry_guess(v)
    return gp == gv and not gp[1]


def sibling_closure(pool):
    have = {C.desc_key(d) for d in pool}
    out = []
    byfam = {}
    for d in pool:
        byfam.setdefault(d['fam'], []).append(d)
    for ds in byfam.values():
        for p in ds:
            for v in ds:
                if p is v or not same_cache_entry(p, v) or v.get('tag') == 'one' or 'arg' in (p.get('tag'), v.get('tag')):
                    continue        # (siblings of the one-argument object calls and of the calls with caller-owned
                    #                  mutable arguments are evaluated on demand)
                for v2, _sig, _txt, _lvl in substitutions(p, v, compile_level_only=True):
                    k = C.desc_key(v2)
                    if k not in have:
                        have.add(k)
                        out.append(v2)
    return out


def plan(tier, seed):
    pool = C.pool(tier)
    aux = sibling_closure(pool)
    rng = random.Random(h64(ID, seed, 'determinism'))
    twice = rng.sample(range(len(pool)), max(8, len(pool) // 5))
    jobs = [('pool', d) for d in pool] + [('aux', d) for d in aux] + [('again', pool[i]) for i in twice]
    table, unstable, state_events, errors = {}, [], [], []

    def one(job):
        kind, d = job
        try:
            return kind, d, fresh_eval(strip(d)), None
        except Exception as e:  # noqa: BLE001 - reported by the shards as inconclusive
            return kind, d, None, f'{type(e).__name__}: {e}'

    with ThreadPoolExecutor(max_workers=int(os.environ.get('VERIF_JOBS', '16'))) as ex:
        for kind, d, res, err in ex.map(one, jobs):
            if err:
                errors.append(err[:600])
                continue
            r, ev = res
            k = C.desc_key(d)
            if kind == 'again':
                if table.get(k) != r:
                    unstable.append({'desc': d, 'first': table.get(k), 'second': r})
                continue
            table[k] = r
            for e in ev:
                state_events.append(e)
    common = {'seed': seed, 'tier': tier, 'fresh': table, 'errors': errors[:3],
              'n_pool': len(pool), 'n_aux': len(aux), 'n_twice': len(twice)}
    shards = []
    nh, kh = N_HIST[tier], HIST_SHARDS[tier]
    for i in range(kh):
        d = dict(common, mode='hist', shard=i, n=nh // kh + (1 if i < nh % kh else 0))
        if i == 0:
            d['unstable'] = unstable[:5]
            d['fresh_state_events'] = state_events[:20]
        shards.append(d)
    nt, kt = N_THREAD_RUNS[tier], THREAD_SHARDS[tier]
    for i in range(kt):
        shards.append({'mode': 'threads', 'seed': seed, 'tier': tier, 'shard': i,
                       'n': nt // kt + (1 if i < nt % kt else 0)})
    for i in range(2 if tier == 'quick' else 8):
        shards.append({'mode': 'idreuse', 'seed': seed, 'tier': tier, 'shard': i, 'n': 300 if tier == 'quick' else 1500})
    return shards


# ----------------------------------------------------------------------------------------------
# history generation
# ----------------------------------------------------------------------------------------------

def gen_history(rng, pool, byfam):
    fams = sorted(byfam)
    focus = rng.sample(fams, rng.choice((1, 1, 2, 2, 3)))
    if 'typed' in focus and rng.random() < 0.5 and 'typed2' not in focus:
        focus.append('typed2')          # the two grammars that share class names
    for a, b in (('const', 'const2'), ('const2', 'const')):
        if a in focus and b not in focus and rng.random() < 0.6:
            focus.append(b)             # the two grammars whose constants use the same name spellings
    n = rng.randint(5, 32)
    steps = []
    for _ in range(n):
        d = rng.choice(byfam[rng.choice(focus)]) if rng.random() < 0.88 else rng.choice(pool)
        st = {'desc': d}
        r = rng.random()
        if r < 0.40:
            st['reuse'] = 'obj'
        elif r < 0.55:
            st['reuse'] = 'cls'
        r = rng.random()
        if r < 0.35:
            st['semslot'] = 0
        elif r < 0.55:
            st['semslot'] = 1
        if rng.random() < 0.06:
            st['drop'] = True
        # caller-owned mutable arguments (lists, configuration objects): kept in a variable and passed again by every
        # later call of the history that names the same value and slot, or made anew for this call
        r = rng.random()
        if r < 0.40:
            st['argslot'] = 0
        elif r < 0.55:
            st['argslot'] = 1
        steps.append(st)
    # object sessions: ONE generated-parser instance / compiled model used for a run of calls whose argument sets
    # vary -- a call passing exactly one thing (asmodel, semantics, start, a setting, a ParserConfig), then the bare
    # call, ... -- other calls of the history fall in between
    for _ in range(rng.choice((0, 1, 1, 2))):
        fam = rng.choice(focus)
        via = rng.choice(('gen', 'gen', 'compile'))
        group = [d for d in byfam[fam] if d['via'] == via and not d.get('c') and not d.get('k')
                 and d.get('probe', 'parse') == 'parse']
        bare = [d for d in group if C.is_bare(d)]
        conf = [d for d in group if not C.is_bare(d)]
        if not bare or not conf:
            continue
        session = []
        kept = rng.choice((None, 0, 1))     # the ParserConfig objects of the session: new per call, or kept and passed again
        for _ in range(rng.randint(2, 5)):
            session.append({'desc': rng.choice(conf), 'reuse': 'obj', 'session': True})
            if rng.random() < 0.25:
                session.append({'desc': rng.choice(conf), 'reuse': 'obj', 'session': True})
            session.append({'desc': rng.choice(bare), 'reuse': 'obj', 'session': True})
        if kept is not None:
            for st in session:
                st['argslot'] = kept
        if rng.random() < 0.5:
            at = rng.randrange(len(steps) + 1)
            steps[at:at] = session
        else:
            pos = sorted(rng.randrange(len(steps) + 1) for _ in session)
            for off, (at, st) in enumerate(zip(pos, session)):
                steps.insert(at + off, st)
    # argument sessions: ONE constructors list / typedefs list / BuilderConfig / keywords list ... kept by the caller and
    # passed to a run of calls that combine it with other options (alone, with typedefs, inside a BuilderConfig, ...)
    for _ in range(rng.choice((0, 0, 1, 1, 2))):
        fam = rng.choice([f for f in focus if f in ARG_FAMS] or ['typed'])
        group = [d for f in ARG_FAMS[fam] for d in byfam.get(f, ()) if d.get('tag') == 'arg']
        if not group:
            continue
        slot = rng.choice((0, 1))
        first = rng.choice(group)
        theme = rng.choice(sorted(mutable_values(first)) or [None])   # the object the caller keeps: (option, value)
        same = [d for d in group if theme in mutable_values(d)] or group
        session = [{'desc': first, 'argslot': slot, 'argsession': True}]
        for _ in range(rng.randint(1, 3)):
            session.append({'desc': rng.choice(same if rng.random() < 0.8 else group), 'argslot': slot, 'argsession': True})
        if rng.random() < 0.5:
            at = rng.randrange(len(steps) + 1)
            steps[at:at] = session
        else:
            pos = sorted(rng.randrange(len(steps) + 1) for _ in session)
            for off, (at, st) in enumerate(zip(pos, session)):
                steps.insert(at + off, st)
    # deferred use: obtain now, use the same object later (other calls in between)
    for _ in range(rng.randint(0, 3)):
        d = rng.choice(byfam[rng.choice(focus)])
        if d['via'] not in ('compile', 'gen', 'genmodel') or d.get('probe') == 'info' and rng.random() < 0.5:
            continue
        i = rng.randrange(len(steps))
        j = rng.randrange(i, len(steps)) + 1
        steps.insert(j, {'desc': d, 'reuse': 'obj', 'deferred': True})
        steps.insert(i, {'desc': d, 'phase': 'obtain'})
    return steps[:48]


# families with descriptors that pass caller-owned mutable arguments -> the families an argument session draws from
ARG_FAMS = {'typed': ('typed', 'typed2'), 'typed2': ('typed', 'typed2'), 'kw': ('kw',)}
CONST_FAMS = ('const', 'const2')


MUTABLE_OPTIONS = ('constructors', 'typedefs', 'keywords', 'config', 'builderconfig')


def mutable_values(desc):
    """the caller-owned mutable argument values a descriptor names: {(option, value as JSON)}"""
    out = set()

    def walk(opts):
        for o, v in (opts or {}).items():
            if o in MUTABLE_OPTIONS or (o == 'semantics' and isinstance(v, dict)):
                out.add((o, json.dumps(v, sort_keys=True)))
            if isinstance(v, dict):
                walk(v.get('mbs') if o == 'semantics' else v)
    for lvl in ('c', 'k', 'p'):
        walk(desc.get(lvl))
    return out


def const_names(fam, text):
    """EVIDENCE ONLY (never the oracle): which of the names who / n the constants and alerts that `text` reaches are
    evaluated over while BOUND in their rule, and which while NOT bound -> (bound, unbound)"""
    table = {'const': {'hi': ('who', ''), 'tag': ('n', 'who'), 'lit': ('n', ''), 'note': ('', 'who n')},
             'const2': {'set': ('n', 'who'), 'who': ('who', 'n')}}.get(fam, {})
    bound, unbound = set(), set()
    for w in str(text or '').split():
        if w in table:
            bound.update(table[w][0].split())
            unbound.update(table[w][1].split())
    return bound, unbound


def step_sig(st):
    return [st['desc'].get('id') or C.desc_key(st['desc']), st.get('reuse'), st.get('phase'), st.get('semslot'),
            bool(st.get('drop')), st.get('argslot')]


# ----------------------------------------------------------------------------------------------
# classification of a divergence
# ----------------------------------------------------------------------------------------------

def is_exc(r):
    return isinstance(r, dict) and '@exc' in r


def has_nodes(r):
    if isinstance(r, dict):
        return '@class' in r or any(has_nodes(x) for x in r.values())
    if isinstance(r, list):
        return any(has_nodes(x) for x in r)
    return False


def strip_bases(r):
    if isinstance(r, dict):
        return {k: strip_bases(v) for k, v in r.items() if k != '@bases'}
    if isinstance(r, list):
        return [strip_bases(x) for x in r]
    return r


def diffkind(exp, obs):
    if is_exc(exp) and not is_exc(obs):
        return 'exception-vanished'
    if is_exc(obs) and not is_exc(exp):
        return 'exception-appeared:' + str(obs.get('@exc'))
    if is_exc(obs) and is_exc(exp):
        return 'other-exception' if obs.get('@exc') != exp.get('@exc') else 'other-failure-report'
    if has_nodes(obs) and not has_nodes(exp):
        return 'ast-became-model'
    if has_nodes(exp) and not has_nodes(obs):
        return 'model-became-ast'
    if strip_bases(exp) == strip_bases(obs):
        return 'node-base-classes'
    leaves = diff_leaves(exp, obs)
    if leaves and all(isinstance(e, str) for e, _o in leaves) and any(re.search(r'\{\w+\}', e) for e, _o in leaves):
        # same tree; only text leaves differ, and where the fresh result has the literal text of a constant /
        # alert message with a placeholder ({name} left as written: the name is not bound there), this result has a value
        return 'uninterpolated-constant-text-became-value'
    return 'value'


def diff_leaves(a, b, out=None, limit=50):
    """[(leaf of a, leaf of b)] where two trees of the same shape differ; None when the shapes differ"""
    out = [] if out is None else out
    if isinstance(a, dict) and isinstance(b, dict):
        if set(a) != set(b):
            return None
        for k in a:
            if diff_leaves(a[k], b[k], out, limit) is None:
                return None
    elif isinstance(a, list) and isinstance(b, list):
        if len(a) != len(b):
            return None
        for x, y in zip(a, b):
            if diff_leaves(x, y, out, limit) is None:
                return None
    elif isinstance(a, (dict, list)) or isinstance(b, (dict, list)):
        return None
    elif a != b and len(out) < limit:
        out.append((a, b))
    return out


def class_bases(r, out):
    """class name -> base list, first occurrence wins (document order)"""
    if isinstance(r, dict):
        if '@class' in r and '@bases' in r:
            out.setdefault(r['@class'], r['@bases'])
        for v in r.values():
            class_bases(v, out)
    elif isinstance(r, list):
        for x in r:
            class_bases(x, out)
    return out


def rewrite_bases(r, reg):
    if isinstance(r, dict):
        d = {k: rewrite_bases(v, reg) for k, v in r.items()}
        if '@class' in d and d['@class'] in reg and d['@class'].startswith('tatsu.objectmodel.synth.'):
            d['@bases'] = reg[d['@class']]
        return d
    if isinstance(r, list):
        return [rewrite_bases(x, reg) for x in r]
    return r


ASMODEL_SIG = 'history/compile-cache-ignores-asmodel'
SETTINGS_SIG = 'history/compile-cache-ignores-settings'
SYNTH_SIG = 'history/synth-class-reused-across-bases'
SYNTH_PREFIX = 'tatsu.objectmodel.synth.'
# mechanisms whose explanation is an exact, checkable equality: accepted without re-running every case
PRECISE = {ASMODEL_SIG, SETTINGS_SIG, SYNTH_SIG}


def leak_sig(o, plevel):
    if plevel == 'c' and o in MODEL_BUILDING:
        return ASMODEL_SIG
    if plevel == 'c' and o in COMPILE_SETTINGS:
        return SETTINGS_SIG
    return f'history/leak:{o}:{ {"c": "compile", "k": "parser-init", "p": "parse"}[plevel] }-level'


def mask_synth_bases(r):
    if isinstance(r, dict):
        d = {k: mask_synth_bases(v) for k, v in r.items()}
        if str(d.get('@class', '')).startswith(SYNTH_PREFIX):
            d['@bases'] = '?'
        return d
    if isinstance(r, list):
        return [mask_synth_bases(x) for x in r]
    return r


def synth_names(r):
    return {c[len(SYNTH_PREFIX):] for c in class_bases(r, {}) if c.startswith(SYNTH_PREFIX)}


def explanations(steps, results, k, fresh, hist=None):
    """yields (mechanisms [(sig, text)], poisoner step indices).
    A mechanism explains the divergence when the observed result EQUALS the fresh result of the
    victim call with arguments taken from an earlier same-grammar call (leak), and/or differs from
    it only in the bases of synthesized classes whose names an earlier call could have synthesized
    (process-wide class registry)."""
    v = steps[k]['desc']
    obs = results[k]
    exp = fresh.get(v)
    # 0. the call was given an argument object that the caller kept from an earlier call, and the STATE monitor saw
    #    that earlier call alter it (checked by re-running the two calls alone in a fresh process)
    if hist:
        mine = set(hist.get('kept', {}).get(str(k), []))
        for ev in hist.get('events', []):
            both = mine & set(ev.get('kept', []))
            if ev.get('what') == 'passed-argument' and ev.get('step', k) < k and both:
                opts = '+'.join(sorted({key.split('=', 1)[0] for key in both}))
                yield [(f'history/kept-argument-altered-by-earlier-call:{opts}',
                        f'was given the same {opts} object as the earlier call, which altered it ({", ".join(ev["fields"])})')], \
                    [ev['step']]
    reg, reg_step = {}, {}
    for j in range(k):
        if results[j] is None:
            continue
        for cname, bases in class_bases(results[j], {}).items():
            if cname not in reg:
                reg[cname] = bases
                reg_step[cname] = j

    def registry_poisoners(r):
        """earlier steps that explain other bases for the synthesized classes in r"""
        mine = class_bases(r, {})
        exact = sorted({reg_step[c] for c, b in mine.items() if c in reg and reg[c] != b})
        if exact and rewrite_bases(r, reg) == obs:
            return exact
        if mask_synth_bases(r) == mask_synth_bases(obs):
            names = synth_names(r)
            return [j for j in range(k) if any(re.search(r'::\s*%s\b' % re.escape(n), C.GRAMMARS[steps[j]['desc']['fam']])
                                               for n in names)]
        return []

    # candidate leaks: the victim with arguments of an earlier same-grammar call (evaluated lazily)
    tried = {}
    guess = cache_entry_guess(v)
    order = sorted(range(k), key=lambda j: (cache_entry_guess(steps[j]['desc']) != guess, -j))
    leaks = []

    def leak_candidates(compile_level):
        for j in order:
            p = steps[j]['desc']
            for v2, sig, txt, plvl in substitutions(p, v):
                if compile_level != (plvl == 'c'):
                    continue
                k2 = C.desc_key(v2)
                if k2 not in tried:
                    try:
                        tried[k2] = fresh.get(v2)
                    except Exception:  # noqa: BLE001
                        tried[k2] = KeyError
                if tried[k2] is not KeyError:
                    yield j, sig, txt + f' [earlier call: {describe(p)}]', tried[k2]

    # 1. an argument that reached tatsu.compile in an earlier call explains the observation exactly
    for j, sig, txt, r2 in leak_candidates(True):
        if r2 == obs:
            yield [(sig, txt)], [j]
        else:
            leaks.append((j, sig, txt, r2))
    # 2. the class registry alone
    if exp != obs:
        ps = registry_poisoners(exp)
        if ps:
            yield [(SYNTH_SIG, 'synthesized node classes keep the bases of an earlier synthesis in the process')], ps
    # 3. an argument of an earlier parse call / parser construction explains it exactly
    for j, sig, txt, r2 in leak_candidates(False):
        if r2 == obs:
            yield [(sig, txt)], [j]
        else:
            leaks.append((j, sig, txt, r2))
    # 4. a leak and the registry together
    for j, sig, txt, r2 in leaks:
        if mask_synth_bases(r2) == mask_synth_bases(obs):
            ps = registry_poisoners(r2)
            if ps:
                yield ([(sig, txt), (SYNTH_SIG, 'and synthesized classes keep the bases of an earlier synthesis')],
                       sorted(set([j] + ps)))


# ----------------------------------------------------------------------------------------------
# shrinking with fresh worker processes
# ----------------------------------------------------------------------------------------------

def victim_diverges(steps, fresh, want=None):
    """run the candidate history in a fresh worker; does its LAST step differ from the fresh result
    (and equal `want` when given)?"""
    out = run_worker([strip_step(s) for s in steps])
    r = out['results'][-1]
    exp = fresh.get(steps[-1]['desc'])
    if r == exp:
        return False, r
    if want is not None and r != want:
        return False, r
    return True, r


def strip_step(st):
    d = {k: v for k, v in st.items() if k in ('desc', 'reuse', 'phase', 'semslot', 'argslot', 'drop')}
    d['desc'] = strip(d['desc'])
    return d


def ddmin_history(steps, fresh, acc, want=None, budget=20):
    """steps[-1] is the victim; minimise the prefix (bounded number of fresh worker processes)"""
    prefix, victim = list(steps[:-1]), steps[-1]
    trials = 0
    n = 2
    while len(prefix) >= 1 and trials < budget:
        chunk = max(1, len(prefix) // n)
        reduced = False
        for i in range(0, len(prefix), chunk):
            cand = prefix[:i] + prefix[i + chunk:]
            trials += 1
            if not fresh.spend():
                return prefix + [victim]
            acc.count('shrink_trials')
            ok, _ = victim_diverges(cand + [victim], fresh, want)
            if ok:
                prefix = cand
                n = max(n - 1, 2)
                reduced = True
                break
            if trials >= budget:
                break
        if not reduced:
            if chunk == 1:
                break
            n = min(len(prefix), n * 2)
    return prefix + [victim]


# ----------------------------------------------------------------------------------------------
# the history shard
# ----------------------------------------------------------------------------------------------

def minimal_candidate(steps, k, poisoners):
    """the poisoning steps, the step that obtained the victim's object (if it was obtained earlier) and the victim"""
    v = steps[k]
    keep = set(poisoners)
    if v.get('reuse') == 'obj':
        ok = C.obtain_key(v['desc'])
        first = min(poisoners) if poisoners else k
        for j in range(first - 1, -1, -1):
            if steps[j]['desc']['via'] == v['desc']['via'] and C.obtain_key(steps[j]['desc']) == ok \
                    and not any(steps[m].get('drop') for m in range(j + 1, k + 1)):
                keep.add(j)
                break
    out = []
    for j in sorted(keep):
        st = dict(steps[j])
        st.pop('drop', None)
        out.append(st)
    last = dict(v)
    last.pop('drop', None)
    return out + [last]


def report_divergence(acc, steps, results, k, fresh, state, origin, hist=None):
    v = steps[k]['desc']
    obs, exp = results[k], fresh.get(v)
    kind = diffkind(exp, obs)
    acc.count('divergences')
    acc.count('divergence_kind:' + kind)
    n_tried = 0
    for mechs, poisoners in explanations(steps, results, k, fresh, hist):
        key = tuple(m[0] for m in mechs)
        cand = minimal_candidate(steps, k, poisoners)
        verified = None
        precise = all(sig in PRECISE for sig in key)
        memo = (key, tuple(s['desc'].get('id') for s in cand))
        if memo in state['refuted']:
            continue
        if (not precise and state['confirmed'].get(key, 0) < 2) or (precise and key not in state['verified_sigs']):
            # an explanation outside the precise mechanisms, and the first witness of every mechanism
            # in this shard, is re-run alone in a fresh process
            n_tried += 1
            if n_tried > 4 or not fresh.spend():
                break
            acc.count('witness_verifications')
            verified, _ = victim_diverges(cand, fresh, want=obs)
            if verified:
                state['verified_sigs'].add(key)
                state['confirmed'][key] = state['confirmed'].get(key, 0) + 1
            else:
                acc.count('witness_verification_failed')
                state['refuted'].add(memo)
                if not precise:
                    continue
                cand = ddmin_history(steps[:k + 1], fresh, acc, want=obs)
        for sig, txt in mechs:
            acc.count('explained:' + sig)
            acc.violation(sig, f'{describe(v)} after {[describe(s["desc"]) for s in cand[:-1]]}: {txt}; '
                               f'fresh interpreter gives {short(exp)}, in this history {short(obs)} [{kind}]',
                          {'mode': 'history', 'steps': [strip_step(s) for s in cand], 'expected': exp, 'observed': obs,
                           'verified_in_fresh_process': verified, 'origin': origin})
        return
    acc.count('unexplained_divergences')
    vk = C.desc_key(v)
    if vk not in state['rechecked'] and fresh.spend(2):
        # is the oracle table still valid?  (the working tree may have been edited during the run)
        state['rechecked'].add(vk)
        again, _ = fresh_eval(strip(v))
        if again != exp:
            third, _ = fresh_eval(strip(v))
            if third == again:
                raise RuntimeError('fresh-interpreter result of ' + describe(v) + ' changed during the run: '
                                   'the tree under test was modified while the check was running')
            acc.violation('fresh/nondeterministic-result',
                          f'{describe(v)} gave different results in fresh interpreters: {short(exp)} vs {short(again)}',
                          {'mode': 'fresh-twice', 'steps': [{'desc': strip(v)}]})
            return
    ukey = (v.get('id'), kind)
    if state['shrunk'] < 4 and ukey not in state['unattributed']:
        state['shrunk'] += 1
        state['unattributed'].add(ukey)
        hist = ddmin_history(steps[:k + 1], fresh, acc)
    else:
        hist = steps[:k + 1]
    ps = [s['desc'] for s in hist[:-1]]
    rel = 'same-grammar' if any(p['fam'] == v['fam'] for p in ps) else ('cross-grammar' if ps else 'no-history')
    sig = f'history/unattributed/{kind}/{v["via"]}-{v.get("probe", "parse")}/{rel}'
    acc.violation(sig, f'{describe(v)} after {[describe(p) for p in ps][:6]}: fresh interpreter gives {short(exp)}, '
                       f'in this history {short(obs)} [{kind}]',
                  {'mode': 'history', 'steps': [strip_step(s) for s in hist], 'expected': exp, 'observed': obs,
                   'origin': origin})


def describe(d):
    via = d['via']
    c = ', '.join(f'{k}={v!r}' for k, v in (d.get('c') or {}).items())
    p = ', '.join(f'{k}={v!r}' for k, v in (d.get('p') or {}).items())
    kk = ', '.join(f'{k}={v!r}' for k, v in (d.get('k') or {}).items())
    G = f"G[{d['fam']}]"
    t = repr(d.get('text'))
    if via == 'compile':
        tail = '.info' if d.get('probe') == 'info' else f'.parse({t}{", " + p if p else ""})'
        return f'compile({G}{", " + c if c else ""}){tail}'
    if via == 'api':
        return f'tatsu.parse({G}, {t}{", " + c if c else ""})'
    if via == 'gen':
        return f'exec(to_python_sourcecode({G}{", " + c if c else ""})).Parser({kk}).parse({t}{", " + p if p else ""})'
    if via == 'genmodel':
        return f'compile({G}, semantics=exec(to_python_model({G}{", " + c if c else ""})).Semantics()).parse({t})'
    return f'{ {"src": "to_python_sourcecode", "modelsrc": "to_python_model"}[via] }({G}{", " + c if c else ""})'


def short(r):
    s = json.dumps(r, sort_keys=True)
    return s if len(s) < 160 else s[:157] + '...'


def state_violation(acc, ev, origin):
    what, fields = ev['what'], ev['fields']
    if what == 'passed-argument':
        # "a call must not change what it was given": a caller-owned argument object differs after the call
        call = ev.get('call', 'parse')
        acc.violation(f'state/passed-argument-changed-by-{call}:' + '+'.join(fields),
                      f'{call} altered the argument object(s) it was given ({", ".join(fields)}) in {describe(ev["desc"])}',
                      {'mode': 'state', 'steps': [{'desc': strip(ev['desc'])}], 'origin': origin})
        return
    sig = f'state/{what}-changed-by-parse:' + '+'.join(fields)
    acc.violation(sig, f'a parse altered the {what} ({fields}) in {describe(ev["desc"])}',
                  {'mode': 'state', 'steps': [{'desc': strip(ev['desc'])}], 'origin': origin})


def check_history(acc, steps, fresh, state, origin):
    out = run_worker([strip_step(s) for s in steps])
    results = out['results']
    acc.count('histories')
    acc.count('history_steps', len(steps))
    for k, n in out['counters'].items():
        acc.count(k, n)
    acc.count('deferred_or_shared_object_uses', out['counters'].get('objects_reused', 0)
              + out['counters'].get('generated_class_reused', 0))
    for k, n in out.get('cache_sizes', {}).items():
        acc.peak('peak_' + k, n)
    if not out.get('cache_sizes'):
        acc.note('process-wide cache sizes unobserved (internal names not found)')
    for ev in out['state_events']:
        acc.count('state_alterations')
        state_violation(acc, ev, origin)
    hist = {'events': out['state_events'], 'kept': out.get('kept_args', {})}
    failed_on = set()
    configured = {}     # object key -> the object now held was given arguments by an earlier call
    bound_before = set()    # names some constant of an earlier parse of this process was evaluated over while bound
    kept_by = {}            # kept argument object -> descriptors of the calls it was passed to so far
    for k, st in enumerate(steps):
        d = st['desc']
        if st.get('drop'):
            configured.clear()
            kept_by.clear()
        for key in hist['kept'].get(str(k), ()):
            ids = kept_by.setdefault(key, set())
            if ids - {d.get('id')}:
                acc.count('kept_argument_object_passed_to_another_call')
                acc.count('kept_argument_object_passed_to_another_call:' + key.split('=', 1)[0])
            ids.add(d.get('id'))
        if d['fam'] in CONST_FAMS and results[k] is not None and d.get('probe', 'parse') == 'parse' and 'text' in d:
            bound, unbound = const_names(d['fam'], d['text'])
            acc.count('constant_parses_compared')
            if unbound:
                acc.count('constant_over_unbound_name_compared')
            if unbound & bound_before:
                acc.count('constant_over_unbound_name_after_that_name_was_bound_in_an_earlier_parse')
            bound_before |= bound
        if d['via'] in ('gen', 'compile', 'genmodel'):
            objk0 = C.obtain_key(d)
            if st.get('reuse') != 'obj' or objk0 not in configured:
                configured[objk0] = False       # obtained anew by this step
            elif results[k] is not None and C.is_bare(d) and configured[objk0]:
                acc.count('bare_call_after_configured_call_same_object')
                acc.count('bare_call_after_configured_call_same_object:' + d['via'])
                if d['fam'] in ('typed', 'typed2'):
                    acc.count('bare_call_after_configured_call_same_object:typed-rules')
            if results[k] is not None and d.get('probe', 'parse') == 'parse' and d.get('p'):
                configured[objk0] = True
                for o in d['p']:
                    acc.count('configured_call_on_reusable_object:' + o)
        if results[k] is None:
            acc.count('obtain_only_steps')
            continue
        acc.evaluations += 1
        acc.count('steps_compared')
        acc.count('via:' + d['via'])
        if st.get('deferred'):
            acc.count('deferred_uses')
        objk = C.obtain_key(d)
        if is_exc(results[k]):
            acc.count('steps_raising')
            failed_on.add(objk)
        elif objk in failed_on and st.get('reuse') == 'obj':
            acc.count('good_parse_after_failed_parse_same_object')
        for j in range(k):
            if steps[j]['desc']['fam'] == d['fam'] and steps[j]['desc'].get('id') != d.get('id'):
                acc.nontriv('pair', steps[j]['desc'].get('id'), d.get('id'), st.get('reuse'))
        if results[k] == fresh.get(d):
            acc.count('steps_agree')
        else:
            report_divergence(acc, steps, results, k, fresh, state, origin, hist)
    acc.nontriv('hist', [step_sig(s) for s in steps])
    return results


def new_state():
    return {'verified_sigs': set(), 'shrunk': 0, 'confirmed': {}, 'refuted': set(), 'unattributed': set(), 'rechecked': set()}


def run_hist(desc, acc):
    if desc.get('errors'):
        raise RuntimeError('fresh-interpreter evaluation failed in plan(): ' + '; '.join(desc['errors']))
    fresh = Fresh(desc['fresh'], acc, budget=[EXTRA_LAUNCHES[desc['tier']]])
    pool = C.pool(desc['tier'])
    byfam = {}
    for d in pool:
        byfam.setdefault(d['fam'], []).append(d)
    acc.peak('pool_size', desc['n_pool'])
    acc.peak('aux_pool_size', desc['n_aux'])
    acc.peak('fresh_evaluations', desc['n_pool'] + desc['n_aux'] + desc['n_twice'])
    acc.peak('fresh_determinism_checked', desc['n_twice'])
    for u in desc.get('unstable', []):
        acc.violation('fresh/nondeterministic-result',
                      f'{describe(u["desc"])} gave two different results in two fresh interpreters: '
                      f'{short(u["first"])} vs {short(u["second"])}',
                      {'mode': 'fresh-twice', 'steps': [{'desc': strip(u['desc'])}]})
    for ev in desc.get('fresh_state_events', []):
        state_violation(acc, ev, {'mode': 'fresh'})
    state = new_state()
    jobs = []
    for i in range(desc['n']):
        rng = random.Random(h64(ID, desc['seed'], desc['shard'], i))
        jobs.append((i, gen_history(rng, pool, byfam)))
    for i, steps in jobs:
        check_history(acc, steps, fresh, state, {'shard': desc['shard'], 'i': i, 'seed': desc['seed']})
        if i == 0 and desc['shard'] < 3:
            acc.sample({'history': [describe(s['desc']) + (' [reuse=%s]' % s['reuse'] if s.get('reuse') else '')
                                    + (' [obtain only]' if s.get('phase') == 'obtain' else '') for s in steps[:8]],
                        'length': len(steps)})


def run_idreuse(desc, acc):
    """two-step histories with FORCED id() reuse between client objects: a semantics object without actions is
    used, dropped and collected, and the next semantics object is allocated at the same address (CPython hands a
    freed block to the next object of that size).  The result of the second call may depend on its arguments
    only: it is compared with the same call made with an object whose address was never used before."""
    import gc
    import tatsu
    from tatsu.ngcodegen.ngparser_gen import pythongen
    import types
    G = C.GRAMMARS['plain']
    rng = random.Random(h64(ID, desc['seed'], 'idreuse', desc['shard']))
    model = tatsu.compile(G, name='IdReuse')
    mod = types.ModuleType('vt_c10_idreuse')
    exec(compile(pythongen(model), '<generated>', 'exec'), mod.__dict__)  # noqa: S102
    parser = mod.IdReuseParser()
    keep = []   # references that pin the addresses of the reference objects
    texts = ['1 + 2', '7', 'ab + 3', '10 + x + 4']
    routes = {
        'model.parse': lambda t, sem: model.parse(t, semantics=sem),
        'tatsu.parse': lambda t, sem: tatsu.parse(G, t, semantics=sem),
        'generated-parser-object': lambda t, sem: parser.parse(t, semantics=sem),
    }
    for i in range(desc['n']):
        route = rng.choice(sorted(routes))
        text = rng.choice(texts)
        k = rng.choice([2, 3])
        ref_sem = C.SemScale(k)
        keep.append(ref_sem)
        expected = C.canon(routes[route](text, ref_sem))
        first = C.SemNone()
        addr = id(first)
        routes[route](text, first)
        del first
        gc.collect()
        cands = [C.SemScale(k) for _ in range(64)]
        pick = next((c for c in cands if id(c) == addr), None)
        acc.evaluations += 1
        acc.count('idreuse_attempts')
        if pick is None:
            # on the tree as found TatSu's action cache pins every semantics object, so nothing is ever collected and
            # no address is reused (a leak, not a wrong result): then this monitor observes attempts only
            keep.extend(cands[:1])
            continue
        acc.count('idreuse_hits')
        acc.nontriv('idreuse', route, text, k, i)
        got = C.canon(routes[route](text, pick))
        if got != expected:
            acc.violation(f'history/id-reuse:semantics/{route}',
                          f'{route}({text!r}, semantics=SemScale({k})) gave {short(got)} when the semantics object lives at the address of an '
                          f'earlier, collected semantics object without actions; with a never-used address it gives {short(expected)}',
                          {'mode': 'idreuse', 'route': route, 'text': text, 'k': k, 'steps': []})
            return
        del pick, cands
    acc.sample({'mode': 'idreuse', 'grammar': G, 'texts': texts})


def run_shard(desc, acc):
    if desc['mode'] == 'hist':
        run_hist(desc, acc)
    elif desc['mode'] == 'idreuse':
        run_idreuse(desc, acc)
    else:
        from ..monitors import c10_threads as T
        T.run_threads_shard(desc, acc, ID)


def replay(w, acc):
    if w.get('mode') == 'idreuse':
        run_idreuse({'seed': 0, 'shard': 0, 'n': 300}, acc)
        return
    if w.get('mode') == 'threads':
        from ..monitors import c10_threads as T
        T.replay(w, acc, ID)
        return
    fresh = Fresh({}, acc)
    steps = w['steps']
    if w.get('mode') == 'fresh-twice':
        a, _ = fresh_eval(steps[0]['desc'])
        b, _ = fresh_eval(steps[0]['desc'])
        if a != b:
            acc.violation('fresh/nondeterministic-result', f'{describe(steps[0]["desc"])}: {short(a)} vs {short(b)}', w)
        return
    state = new_state()
    check_history(acc, steps, fresh, state, {'mode': 'replay'})


MANIFEST = {
    'technique': 'runtime monitoring: fresh-interpreter oracle over seeded API call histories, state snapshots around '
                 'every parse, and thread runs with yield injection compared with sequential results',
    'level_text': 'seeded random histories (5-40 calls) over a pool of API call descriptors sharing 8 grammar texts and '
                  'differing in options are executed in long-lived worker processes; every step is compared with the same '
                  'call evaluated alone in a fresh interpreter; model/config snapshots bracket every parse and deep '
                  'snapshots of every caller-owned mutable argument (lists, type containers, config objects, semantics) '
                  'bracket every call, with argument objects kept and passed again across calls of a history; N in {2,4,8} '
                  'threads parse ~50 inputs on one shared compiled model / generated parser class under switch interval '
                  '1e-6 with seeded sys.monitoring LINE yields and are compared with the sequential results.  exploration '
                  'is the right level: the property quantifies over all finite call histories and all schedules',
    'level_note': 'trusted: the canonicaliser, subprocess isolation, CPython thread switching at statement boundaries; '
                  'histories and schedules are sampled, not enumerated; sharing one parser INSTANCE between threads is '
                  'outside the statement (no documented promise) and only counted; held = no unexplained divergence on '
                  'the histories/interleavings listed in the evidence',
}
