"""C16 — left recursion is detected exactly, and never causes unbounded recursion.

Oracle: REF's independent analysis (nullable fixpoint + left-call graph + cycles, vt/ref.py) for the
detection clause and for the "rules on no cycle stay memoized" clause; a logical step budget (heart)
plus an explicit recursion limit for the termination clause.  Workload: exhaustive small rule graphs
and random larger ones, each parsed from every rule on a fixed battery.  DESIGN.md section 3/C16.

Joins and gathers (`s%{e}`, `s%{e}+`, `s.{e}`, `s.{e}+`, `s<{e}+`, `s>{e}+`) are items of the rule graphs too, with separators
and elements drawn from rule calls as well as tokens: an exhaustive 2-rule slice (one rule holds the join) and every third
random graph.  REF reads a join by the documented expansion (s%{e}+ == e {s ~ e}; s%{e} == s%{e}+ | {}): the element's first
calls are first calls of the join, the separator's only when the element can match empty, a non-positive join can match
empty.  Graphs in which the separator of a join with an element that can match empty contributes a first call are counted
(`join_corner_nullable_element`) and not judged; `join_sep_decisive` counts the judged graphs whose verdict depends on the
separator of a join with a consuming element NOT being a first call.

Rule includes (`>rule`) and based rules (`b < a`) are items of the rule graphs as well: `>rule` stands for that rule's right-hand
side in place, a based rule parses its base's right-hand side and then its own.  An exhaustive slice (rule a = every small
body, rule b defined after it holds `>a` at every position of every sequence of 2 items over {>a, calls, 'x', ['x'], {'x'}} and
of 3 items over {calls, 'x', ['x']}, alone or next to a second option; `m = >a ; b < m = ...`; `b < a = >a i | i >a`) and every
third random graph (includes of earlier rules at any position of the top-level sequences, an only-included rule `s` that
matches empty by syntax, based rules, half of them on a rule that is a bare include).  REF analyses the EXPANDED grammar
(`expanded`): so a call that starts an included right-hand side is a first call of the including rule, an included
right-hand side that can match empty lets the scan go on, and a call to a nullable rule inside an included prefix makes the
graph `hidden` as anywhere else.  TatSu requires the included / base rule to be defined first; only such orders are generated.
`include_decisive` / `include_item_decisive` count the judged graphs whose verdict depends on looking into the includes (all /
those standing as one item of a longer sequence, the base of a based rule being the first item of its sequence).
"""
from __future__ import annotations

import itertools
import random
import sys

from .. import lang as L
from ..common import h64
from ..ref import left_calls, left_recursive_rules, left_sccs, nullable_map
from ..refdiff import step_budget
from ..tsu import StepHeart

ID = 'C16'
LEVEL = 'exploration'
RULE = ('cases = rule graphs: exhaustive slice = every grammar of 1 rule (bodies: choices of <=2 sequences of <=2 items) and of 2 '
        '(3 in the thorough tier) rules with small bodies, items from {call to each rule, \'x\', [\'x\'], {\'x\'}, {\'x\'}+, !\'y\'}; random slice = graphs of '
        '<=6 rules with longer sequences/choices, nested optionals and closures; join slice = every 2-rule graph in which rule a is J or J <call> '
        '(J = any of the six join/gather forms, separator in {call a, call b, \'y\'}, element in {call a, call b, \'x\'}) and rule b a body of <=2 items or '
        'a choice of two items over {calls, \'x\', [\'x\']}, and every third random graph draws joins (separator/element = call, token, call token, '
        'token | call token, [token] call) as items; include slice = rule a any of the 36 small bodies, then rule b with >a at every position '
        'of every sequence of 2 items over {>a, call a, call b, \'x\', [\'x\'], {\'x\'}} (alone or with a second option \'x\') and of 3 items (others over '
        '{call a, call b, \'x\', [\'x\']}), or m = >a ; b < m = <1-2 items>, or b < a = >a i | i >a; every other third random graph draws includes of '
        'earlier rules at any position of its top-level sequences, an only-included nullable rule and based rules (half on a bare include); each compiled with left recursion off (detection) '
        'and on (flags), then parsed from every rule on the battery {"", x, xx, xxx, y, xy} (+ xyx when the graph has a join); non-trivial = the graph has at least '
        'one left-recursive cycle per the independent analysis; distinct by grammar text')
ASSUMPTIONS = [
    'REF analysis: a rule is left recursive iff it reaches itself in the left-call graph (calls preceded only by nullable elements)',
    'the detection and termination clauses are decided only for grammars in which no call to a nullable rule sits in such a prefix (as the statement restricts); those are counted as "hidden" and only observed',
    'a join is read by its documented expansion s%{e}+ == e {s ~ e}, s%{e} == s%{e}+ | {} (gathers and left/right joins differ only in the value): '
    'first calls of the element always, of the separator only when the element can match empty; non-positive joins can match empty',
    'graphs in which the separator of a join whose element can match empty contributes an edge of the left-call graph are counted and not judged '
    '(TatSu\'s analysis never looks at separators; the element matches empty through a call to a nullable rule, the case the statement sets aside); '
    'no join with a syntactically nullable element is generated',
    '`>rule` is read as that rule\'s right-hand side in place and `b < a` as <a\'s right-hand side> <b\'s own> (documented meaning of both); the independent '
    'analysis runs on the grammar expanded that way; included and base rules are defined before their users (TatSu requires it) and are never based rules themselves',
    'in a graph that is only observed (hidden), the battery stops after two unbounded parses',
    '"never recurses without bound" is decided by a rule-invocation budget far above the calibrated need and by RecursionError under a limit (3000) far above the bounded depth',
]
EXHAUSTIVE = {'quick': 'all 1-rule graphs (bodies: choices of <=2 sequences of <=2 items) and all 2-rule graphs with bodies of <=2 items, items = calls, token, optional, closure, positive closure, negative lookahead; all 5832 2-rule graphs of the join slice '
                       '(6 join/gather forms x 3 separators x 3 elements x {J, J a, J b} for rule a, 36 small bodies for rule b); all 3528 graphs of the include slice (36 bodies of the included rule x 98 including / based rules); battery of 6 (7) inputs from every rule',
              'thorough': 'all 1-rule graphs, all 2-rule graphs with bodies of <=3 items (625681), all 3-rule graphs with bodies of <=2 items sampled 1/4; the join slice in both orders of the two rules (11664)'}
FLOORS = {
    'quick': {'graphs': 15000, 'lrec_graphs': 2000, 'detected_ok': 1500, 'clean_ok': 700, 'parses': 60000,
              'scc:self-loop': 500, 'scc:2-cycle': 200, 'flags_checked': 5000, 'lrec_graphs_with_generated_parser': 800,
              'lrec_graphs_with_nomemo_or_nostak': 150,
              'join_graphs': 5000, 'join_graphs_sep_with_call': 3500, 'join_graphs_element_with_call': 3500, 'join_judged': 4000,
              'join_judged_clean': 1000, 'join_judged_lrec': 2500, 'join_sep_decisive': 800, 'join_sep_decisive_clean': 400,
              'join_graphs:join': 900, 'join_graphs:join+': 900, 'join_graphs:gather': 900, 'join_graphs:gather+': 900,
              'join_graphs:ljoin+': 900, 'join_graphs:rjoin+': 900,
              'include_graphs': 3800, 'include_judged': 2500, 'include_judged_lrec': 1200, 'include_judged_clean': 500,
              'include_decisive': 600, 'include_item_decisive': 400,
              'include_graphs:include_item_first': 1500, 'include_graphs:include_item_middle': 800, 'include_graphs:include_item_last': 1500,
              'include_graphs:include_item_nullable': 800, 'include_graphs:include_item_nullable_then_call': 300,
              'include_graphs:include_item_after_nullable_item': 300, 'include_graphs:include_item_before_nullable_item': 300,
              'include_graphs:based': 1000, 'include_graphs:based_on_include': 700, 'include_graphs:based_with_include_in_rhs': 300},
    'thorough': {'graphs': 150000, 'lrec_graphs': 50000, 'parses': 1500000, 'join_graphs': 20000, 'join_judged': 15000,
                 'join_sep_decisive': 3000, 'join_sep_decisive_clean': 1000},
}
PEAK_COUNTERS = ('max_steps_ratio_x100',)
SHARD_TIMEOUT = {'quick': 2400, 'thorough': 7200}   # watchdog only (a shard needs ~50 s of CPU; the machine may be shared 10x over)
BATTERY = ['', 'x', 'xx', 'xxx', 'y', 'xy']
NAMES = ['a', 'b', 'c', 'd', 'e', 'f']


def items_for(n):
    # (a negative lookahead consumes nothing whatever it looks at: calls behind it are left calls)
    return [L.Call(NAMES[i]) for i in range(n)] + [L.Tok('x'), L.Opt(L.Tok('x')), L.Clo(L.Tok('x')), L.PClo(L.Tok('x')),
                                                    L.NLA(L.Tok('y'))]


def bodies(n, max_items):
    it = items_for(n)
    seqs1 = [(i,) for i in it]
    seqs2 = [(i, j) for i in it for j in it]
    out = []
    for s in seqs1 + seqs2:
        if len(s) <= max_items:
            out.append((s,))
    for s1 in seqs1 + seqs2:
        for s2 in seqs1 + seqs2:
            if len(s1) + len(s2) <= max_items:
                out.append((s1, s2))
    return out


# ---- joins and gathers as items (documented expansion: s%{e}+ == e {s ~ e}, s%{e} == s%{e}+ | {}; gathers and the
# left/right joins differ only in the value built).  (positive, gather, assoc) as lang.Join takes them.
JKINDS = {'join': (False, False, ''), 'join+': (True, False, ''), 'gather': (False, True, ''), 'gather+': (True, True, ''),
          'ljoin+': (True, False, 'left'), 'rjoin+': (True, False, 'right')}
JKIND_OF = {v: k for k, v in JKINDS.items()}
BATTERY_J = BATTERY + ['xyx']   # graphs with a join: one input with the token separator between two elements


def mk_join(kind, sep, e):
    return L.Join(sep, e, *JKINDS[kind])


def join_bodies(n):
    """bodies of the rule that holds the join in the exhaustive join slice: J, J <call> with J over every kind,
    separator in {call to each rule, 'y'}, element in {call to each rule, 'x'}"""
    calls = [L.Call(NAMES[i]) for i in range(n)]
    out = []
    for kind in JKINDS:
        for sep in calls + [L.Tok('y')]:
            for el in calls + [L.Tok('x')]:
                j = mk_join(kind, sep, el)
                out.append(((j,),))
                for c in calls:
                    out.append(((j, c),))   # what follows a join is a first call iff the join can match empty
    return out


def partner_bodies(n):
    """bodies of the other rule in the exhaustive join slice: <=2 items, or a choice of two items, over {calls, 'x', ['x']}"""
    it = [L.Call(NAMES[i]) for i in range(n)] + [L.Tok('x'), L.Opt(L.Tok('x'))]
    return [((i,),) for i in it] + [((i, j),) for i in it for j in it] + [((i,), (j,)) for i in it for j in it]


# ---- rule includes (`>rule` stands for the right-hand side of that rule, in place) and based rules (`b < a` parses a's
# right-hand side, then its own) as items of the rule graphs.  The included / base rule is always defined first.
def include_slice():
    """(rules) of the exhaustive include slice: rule a (included) = every partner body; then
    b = every sequence of 2 items over {>a, call a, call b, 'x', ['x'], {'x'}} with >a in it, alone or with a second option 'x',
    b = every sequence of 3 items with >a at one position and the others over {call a, call b, 'x', ['x']},
    m = >a ; b < m = <1 or 2 items over {call a, call b, 'x', ['x']}>   (the base of the based rule is an include),
    b < a = >a <item> | <item> >a  (an include inside the right-hand side of a based rule)"""
    inc = L.Include('a')
    j5 = [L.Call('a'), L.Call('b'), L.Tok('x'), L.Opt(L.Tok('x')), L.Clo(L.Tok('x'))]
    j4 = j5[:4]
    two = [(inc, i) for i in j5] + [(i, inc) for i in j5] + [(inc, inc)]
    three = [(inc, i, j) for i in j4 for j in j4] + [(i, inc, j) for i in j4 for j in j4] + [(i, j, inc) for i in j4 for j in j4]
    tails = [(i,) for i in j4] + [(i, j) for i in j4 for j in j4]
    for y in partner_bodies(2):
        a = L.Rule('a', mk_body(y))
        for s in two:
            yield [a, L.Rule('b', L.Seq(s))]
            yield [a, L.Rule('b', L.Choice((L.Seq(s), L.Tok('x'))))]
        for s in three:
            yield [a, L.Rule('b', L.Seq(s))]
        for s in tails:
            yield [a, L.Rule('m', inc), L.Rule('b', mk_body((s,)), base='m')]
        for i in j4:
            yield [a, L.Rule('b', L.Seq((inc, i)), base='a')]
            yield [a, L.Rule('b', L.Seq((i, inc)), base='a')]


OPAQUE = L.Tok('\x01')   # stands for "an element that consumes input and holds no call"


def expanded(g, opaque=None):
    """the grammar the independent analysis reads: every `>rule` replaced by that rule's right-hand side in place, every
    based rule by <base's right-hand side> <own right-hand side> (the documented meaning of both).  Includes and bases always
    refer to earlier rules, so this ends.  opaque='all' / 'items' instead reads every include / every include that is one
    item of a longer sequence (the base's right-hand side is the first item of the based rule's sequence) as OPAQUE: used
    only to COUNT the graphs whose verdict depends on looking into them."""
    own = {}
    rules = []

    def ex(e, in_seq):
        if isinstance(e, L.Include):
            if opaque == 'all' or (opaque == 'items' and in_seq):
                return OPAQUE
            if opaque == 'boxed' and in_seq == 'boxed':
                return L.Seq((own[e.name], OPAQUE))   # same first calls, but never matching empty
            return own[e.name]
        kids = L.children(e)
        if not kids:
            return e
        inseq = isinstance(e, L.Seq) and len(e.items) >= 2
        if opaque == 'boxed':
            inseq = False if isinstance(e, L.Seq) else 'boxed'   # the items of a sequence are scanned one by one; anything else is asked as a whole
        return L.rebuild(e, [ex(k, inseq) for k in kids])
    for r in g.rules:
        body = ex(r.body, False)
        own[r.name] = body
        if r.base:
            body = L.Seq((ex(g.rule(r.base).body, True), body))
        rules.append(L.Rule(r.name, body, r.decorators))
    return L.Grammar(rules)


def include_shapes(g):
    """what kinds of include / based rule a graph holds (names of counters)"""
    nul, n = nullable_map(expanded(g))
    shapes = set()
    own = {}

    def exb(e):
        if isinstance(e, L.Include):
            return own[e.name]
        kids = L.children(e)
        return L.rebuild(e, [exb(k) for k in kids]) if kids else e
    for r in g.rules:
        own[r.name] = exb(r.body)

    def nullable_inc(e):
        # the included right-hand side can match empty (by syntax or through calls)
        return n(own[e.name])

    def seqs_of(r):
        body = r.body
        out = []
        if r.base:
            out.append((g.rule(r.base).body, body))
        for e in L.walk(body):
            if isinstance(e, L.Seq):
                out.append(e.items)
        return out
    for r in g.rules:
        if r.base:
            shapes.add('based')
            if isinstance(g.rule(r.base).body, L.Include):
                shapes.add('based_on_include')
            if any(isinstance(e, L.Include) for e in L.walk(r.body)):
                shapes.add('based_with_include_in_rhs')
        opts = r.body.opts if isinstance(r.body, L.Choice) else (r.body,)
        if any(isinstance(o, L.Include) for o in opts) and not r.base:
            shapes.add('include_whole_option_or_body')
        for items in seqs_of(r):
            for k, it in enumerate(items):
                if not isinstance(it, L.Include):
                    continue
                shapes.add('include_item_first' if k == 0 else 'include_item_last' if k == len(items) - 1 else 'include_item_middle')
                if nullable_inc(it):
                    shapes.add('include_item_nullable')
                    if k + 1 < len(items) and any(isinstance(x, L.Call) for x in L.walk(exb(items[k + 1]))):
                        shapes.add('include_item_nullable_then_call')
                if k > 0 and all(isinstance(p, (L.Opt, L.Clo)) for p in items[:k]):
                    shapes.add('include_item_after_nullable_item')
                if k + 1 < len(items) and isinstance(items[k + 1], (L.Opt, L.Clo)):
                    shapes.add('include_item_before_nullable_item')
    return shapes


def mk_body(b):
    opts = [s[0] if len(s) == 1 else L.Seq(tuple(s)) for s in b]
    return opts[0] if len(opts) == 1 else L.Choice(tuple(opts))


def exhaustive(tier):
    """yield (index, grammar)"""
    idx = 0
    for b in bodies(1, 4):
        yield idx, L.Grammar([L.Rule('a', mk_body(b))])
        idx += 1
    b2 = bodies(2, 2 if tier == 'quick' else 3)
    for x in b2:
        for y in b2:
            yield idx, L.Grammar([L.Rule('a', mk_body(x)), L.Rule('b', mk_body(y))])
            idx += 1
    # join slice: rule a holds a join or gather, rule b is a small plain body (thorough: also the other order of the rules)
    for x in join_bodies(2):
        for y in partner_bodies(2):
            yield idx, L.Grammar([L.Rule('a', mk_body(x)), L.Rule('b', mk_body(y))])
            idx += 1
            if tier == 'thorough':
                yield idx, L.Grammar([L.Rule('b', mk_body(y)), L.Rule('a', mk_body(x))])
                idx += 1
    # include slice: rule a is included by (or is the base of) rule b, defined after it
    for rules in include_slice():
        yield idx, L.Grammar(rules)
        idx += 1
    if tier == 'thorough':
        b3 = bodies(3, 2)
        for x in b3:
            for y in b3:
                for z in b3:
                    if idx % 4 == 0:
                        yield idx, L.Grammar([L.Rule('a', mk_body(x)), L.Rule('b', mk_body(y)), L.Rule('c', mk_body(z))])
                    idx += 1


def random_graph(rng, joins=False, includes=False):
    n = rng.choice([3, 4, 5, 6])
    names = NAMES[:n]
    perm = names[:]
    rng.shuffle(perm)  # leader selection depends on names: permute
    # includes=True: `>rule` stands as an item (any position) of the top-level sequences, always of a rule defined EARLIER
    # (the grammar language requires that order); half of these graphs start with a rule `s` that can match empty without
    # any call and is only ever included, never called (a call to it in a prefix would put the graph outside the statement);
    # some rules are based rules (`c < b`), half of them on a fresh rule whose whole body is an include (`m3 = >b ; c < m3 = ... ;`)

    def join():
        # separators and elements from calls as well as tokens; no element that is syntactically able to match empty
        # (an element that matches empty through the rule it calls is possible: see join_corner in check_graph)
        c = lambda: L.Call(rng.choice(perm))  # noqa: E731
        r = rng.random()
        if r < 0.45:
            sep = c()
        elif r < 0.60:
            sep = L.Tok('y')
        elif r < 0.75:
            sep = L.Seq((c(), L.Tok('y')))
        elif r < 0.90:
            sep = L.Choice((L.Tok('y'), L.Seq((c(), L.Tok('x')))))
        else:
            sep = L.Seq((L.Opt(L.Tok('y')), c()))
        r = rng.random()
        if r < 0.35:
            el = L.Tok('x')
        elif r < 0.70:
            el = c()
        elif r < 0.85:
            el = L.Seq((c(), L.Tok('x')))
        else:
            el = L.Seq((L.Tok('x'), c()))
        kind = rng.choice(['join', 'join', 'join+', 'gather', 'gather', 'gather+', 'ljoin+', 'rjoin+'])
        j = mk_join(kind, sep, el)
        if not JKINDS[kind][0] and rng.random() < 0.5:
            return L.Seq((j, L.Tok('y')))   # a closing token keeps the rule from matching empty (as in `s%{e} ']'`)
        return j

    def item(depth):
        if joins and rng.random() < 0.15:
            return join()
        r = rng.random()
        if r < 0.45:
            return L.Call(rng.choice(perm))
        if r < 0.62:
            return L.Tok('x')
        if r < 0.70:
            return L.Tok('y')
        if r < 0.75:
            return rng.choice([L.NLA(L.Tok('y')), L.LA(L.Tok('x')), L.NLA(L.Tok('x')), L.Void(), L.NLA(L.Seq((L.Tok('x'), L.Tok('y'))))])
        if depth <= 0:
            return L.Tok('x')
        if r < 0.85:
            return L.Opt(seq(depth - 1))
        if r < 0.90:
            return L.Clo(seq(depth - 1))
        if r < 0.93:
            return L.PClo(seq(depth - 1))
        return L.Group(L.Choice((seq(depth - 1), seq(depth - 1))))

    def seq(depth, inc=()):
        k = rng.choice([1, 1, 2, 2, 3])
        if inc:
            k = rng.choice([1, 2, 2, 3, 3])
            its = [L.Include(rng.choice(inc)) if rng.random() < 0.25 else item(depth) for _ in range(k)]
        else:
            its = [item(depth) for _ in range(k)]
        return its[0] if k == 1 else L.Seq(tuple(its))

    rules = []
    plain = []   # rules an include or a based rule may refer to: defined earlier, not based themselves
    if includes and rng.random() < 0.5:
        rules.append(L.Rule('s', rng.choice([L.Opt(L.Tok('y')), L.Clo(L.Tok('x')), L.Seq((L.Opt(L.Tok('x')), L.Opt(L.Tok('y')))),
                                             L.Choice((L.Tok('y'), L.Void()))])))
        plain += ['s', 's']
    for idx, nm in enumerate(perm):
        k = rng.choice([1, 2, 2, 3])
        opts = [seq(1, tuple(plain)) for _ in range(k)]
        deco = ()
        if rng.random() < 0.2:
            # caching decorators must not take the left-recursion guard away (model or generated parser)
            deco = rng.choice([('nomemo',), ('nostak',), ('nomemo', 'nostak')])
        base = None
        if plain and rng.random() < 0.15:
            base = rng.choice(plain)
            if rng.random() < 0.5:
                rules.append(L.Rule(f'm{idx}', L.Include(base)))
                base = f'm{idx}'
        rules.append(L.Rule(nm, opts[0] if k == 1 else L.Choice(tuple(opts)), deco, base=base))
        if includes and base is None:
            plain.append(nm)
    return L.Grammar(rules)


def plan(tier, seed):
    shards = []
    ke = 10 if tier == 'quick' else 48
    for i in range(ke):
        shards.append({'mode': 'exhaustive', 'shard': i, 'of': ke, 'tier': tier, 'seed': seed})
    kr = 6 if tier == 'quick' else 16
    n = 2640 if tier == 'quick' else 80000   # (quick: 3000 before the include slice was added; counts rebalanced)
    for i in range(kr):
        shards.append({'mode': 'random', 'shard': i, 'n': n // kr, 'tier': tier, 'seed': seed})
    return shards


def scc_shape(g, sccs, graph):
    shapes = set()
    for name, comp in sccs.items():
        if len(comp) == 1:
            if name in graph[name]:
                shapes.add('self-loop')
        elif len(comp) == 2:
            shapes.add('2-cycle')
        else:
            shapes.add('n-cycle')
        if len(comp) > 1 and any(m in graph[m] for m in comp):
            shapes.add('self-loop-in-longer-cycle')
    return shapes


def simple_cycles(comp, graph):
    """all simple cycles inside one SCC (small)"""
    comp = sorted(comp)
    cycles = []

    def dfs(start, node, path):
        for nxt in graph[node]:
            if nxt not in comp:
                continue
            if nxt == start:
                cycles.append(set(path))
            elif nxt not in path and nxt > start:
                dfs(start, nxt, path + [nxt])
    for s in comp:
        dfs(s, s, [s])
    return cycles


def no_common_rule(sccs, graph):
    """True when some SCC has no rule lying on all of its cycles (recorded finding F11)"""
    for comp in set(sccs.values()):
        cyc = simple_cycles(comp, graph)
        if len(cyc) > 1 and not set.intersection(*cyc):
            return True
    return False


def _map(e, f):
    kids = [_map(k, f) for k in L.children(e)]
    return f(L.rebuild(e, kids) if kids else e)


def join_readings(g, lrec, graph):
    """(joins, corner, decisive) for a graph with joins/gathers, else None.

    corner: some join whose ELEMENT can match empty has a separator whose first calls change the left-call graph.  By the
    documented expansion the separator is then parsed where the join started, so REF counts those calls; TatSu's analysis
    does not look at separators at all.  The statement's restriction (no call to a rule that can match empty in such a
    prefix) covers most of these graphs; they are counted and not judged.
    decisive: the graph's verdict depends on NOT counting the separator of a join whose element consumes input (an
    analysis that took the separator's calls as first calls would find another set of left-recursive rules)."""
    joins = [e for r in g.rules for e in L.walk(r.body) if isinstance(e, L.Join)]
    if not joins:
        return None
    nul, n = nullable_map(g)

    def no_sep(e):
        return L.Join(L.Tok('y'), e.e, e.positive, e.gather, e.assoc) if isinstance(e, L.Join) and n(e.e) else e

    def sep_first(e):
        return L.Seq((L.LA(e.sep), e)) if isinstance(e, L.Join) and not n(e.e) else e
    g1 = L.Grammar([L.Rule(r.name, _map(r.body, no_sep), r.decorators) for r in g.rules])
    corner = left_calls(g1)[0] != graph
    g2 = L.Grammar([L.Rule(r.name, _map(r.body, sep_first), r.decorators) for r in g.rules])
    decisive = left_recursive_rules(g2)[0] != lrec
    return joins, corner, decisive


def check_graph(acc, g, origin):
    from tatsu.exceptions import FailedParse, GrammarError
    with_inc = any(r.base for r in g.rules) or any(isinstance(e, L.Include) for r in g.rules for e in L.walk(r.body))
    # the analysis reads includes and based rules by their documented meaning: the other rule's right-hand side in place
    ga = expanded(g) if with_inc else g
    lrec, graph, hidden, nul = left_recursive_rules(ga)
    sccs = left_sccs(ga)
    acc.count('graphs')
    text = L.grammar_text(g)
    jr = join_readings(ga, lrec, graph)
    battery = BATTERY
    if with_inc:
        acc.count('include_graphs')
        for k in include_shapes(g):
            acc.count('include_graphs:' + k)
        if not hidden and not (jr and jr[1]):
            acc.count('include_judged')
            acc.count('include_judged_lrec' if lrec else 'include_judged_clean')
            # the verdict depends on looking into the includes / bases (all of them; those that are one item of a longer sequence)
            if left_recursive_rules(expanded(g, 'all'))[0] != lrec:
                acc.count('include_decisive')
            li = left_recursive_rules(expanded(g, 'items'))[0]
            if li != lrec:
                acc.count('include_item_decisive')
    if jr:
        joins, corner, decisive = jr
        battery = BATTERY_J
        acc.count('join_graphs')
        for k in {JKIND_OF[(j.positive, j.gather, j.assoc)] for j in joins}:
            acc.count('join_graphs:' + k)
        if any(isinstance(x, L.Call) for j in joins for x in L.walk(j.sep)):
            acc.count('join_graphs_sep_with_call')
        if any(isinstance(x, L.Call) for j in joins for x in L.walk(j.e)):
            acc.count('join_graphs_element_with_call')
        if corner:
            # not judged (as `hidden`): the separator of a join whose element can match empty starts a cycle or an edge
            acc.count('join_corner_nullable_element')
            hidden = True
        elif not hidden:
            acc.count('join_judged')
            acc.count('join_judged_lrec' if lrec else 'join_judged_clean')
            if decisive:
                acc.count('join_sep_decisive')
                if not lrec:
                    acc.count('join_sep_decisive_clean')
    mech = ''
    if with_inc and left_recursive_rules(expanded(g, 'boxed'))[0] != lrec:
        # finding on the unchanged tree (reported, .scratch/C16_include_in_choice_repro.py): an include that can match empty and sits inside
        # a choice / group / closure that is followed by a call is not seen as able to match empty.  The verdict of this graph
        # depends on it; its violations carry a mechanism suffix so that they can be listed as one finding.
        mech = ':nullable-include-inside-choice'
        acc.count('include_nullable_inside_choice_decisive')
    if lrec:
        acc.count('lrec_graphs')
        acc.nontriv(text)
        for s in scc_shape(g, sccs, graph):
            acc.count('scc:' + s)
    if hidden:
        acc.count('hidden')
    # ---- (1) detection with left recursion off
    try:
        L.to_model(L.Grammar(list(g.rules), {'left_recursion': 'False'}))
        raised = None
    except GrammarError as e:
        raised = 'GrammarError'
    except RecursionError:
        raised = 'RecursionError'
    except Exception as e:  # noqa: BLE001
        raised = type(e).__name__
    acc.evaluations += 1
    w = {'grammar': L.to_json(g), 'grammar_text': text, 'origin': origin}
    if raised not in (None, 'GrammarError'):
        acc.violation(f'detect/exc:{raised}', f'compiling with left recursion off raised {raised}: {text!r}', w)
    elif not hidden:
        if lrec and raised is None:
            acc.violation('detect/missed' + mech, f'left recursion off: no GrammarError although {sorted(lrec)} reach themselves: {text!r}', w)
        elif not lrec and raised:
            acc.violation('detect/spurious', f'left recursion off: GrammarError although no rule reaches itself: {text!r}', w)
        else:
            acc.count('detected_ok' if lrec else 'clean_ok')
    else:
        acc.count('hidden_detect_' + ('raised' if raised else 'silent'))
    # ---- (2) flags with left recursion on
    try:
        m = L.to_model(g)
    except Exception as e:  # noqa: BLE001
        acc.violation(f'build/exc:{type(e).__name__}', f'building the model raised {type(e).__name__}: {e} for {text!r}', w)
        return
    try:
        for r in m.rules:
            acc.count('flags_checked')
            if r.name not in lrec:
                asked = 'nomemo' in g.rule(r.name).decorators   # the grammar itself switched memoization off for this rule
                if r.is_lrec or (not r.is_memo and not asked):
                    acc.violation('flags/non-cyclic-rule-marked' + mech,
                                  f'rule {r.name!r} lies on no left-recursive cycle but is_lrec={r.is_lrec} is_memo={r.is_memo}: {text!r}', w)
    except AttributeError:
        acc.note('Rule.is_lrec / Rule.is_memo unobserved')
    # ---- (3) bounded recursion on the battery, from every rule; model, and (sampled) the generated parser
    f11 = lrec and no_common_rule(sccs, graph)
    backends = [('model', lambda t, **kw: m.parse(t, **kw))]
    decorated = any(r.decorators for r in g.rules)
    if origin.get('mode') == 'replay' or decorated or h64('C16gen', text) % 5 == 0:
        try:
            from ..tsu import gen_parser
            cls = gen_parser(m)[0]
            backends.append(('generated', lambda t, **kw: cls().parse(t, **kw)))
            acc.count('graphs_with_generated_parser')
            if lrec:
                acc.count('lrec_graphs_with_generated_parser')
            if decorated and lrec:
                acc.count('lrec_graphs_with_nomemo_or_nostak')
        except Exception as e:  # noqa: BLE001
            acc.violation(f'codegen/exc:{type(e).__name__}', f'generating the parser raised {type(e).__name__}: {e} for {text!r}', w)
    unobserved_unbounded = 0
    for backend, parse in backends:
      for start in [r.name for r in g.rules]:
        for t in battery:
            heart = StepHeart(step_budget(ga, t))
            out = 'ok'
            try:
                parse(t, start=start, heart=heart)
            except FailedParse:
                out = 'fail'
            except RecursionError:
                out = 'RecursionError'
            except Exception as e:  # noqa: BLE001
                out = 'StepBudget' if type(e).__name__ == 'HeartDied' else 'exc:' + type(e).__name__
            acc.evaluations += 1
            acc.count('parses')
            acc.peak('max_steps_ratio_x100', int(100 * heart.calls / step_budget(ga, t)))
            if out in ('ok', 'fail'):
                continue
            if hidden:
                acc.count('hidden_unbounded')
                unobserved_unbounded += 1
                if unobserved_unbounded >= 2:
                    # outside the statement and only observed: two such parses per graph are recorded, the rest of the
                    # battery would repeat them at the price of a full recursion limit / step budget each
                    acc.count('hidden_battery_cut')
                    return
                continue
            ww = dict(w, start=start, text=t, outcome=out)
            if out in ('RecursionError', 'StepBudget'):
                if f11:
                    acc.violation('unbounded/scc-without-common-rule' + mech,
                                  f'{backend}: {out} parsing {t!r} from {start!r}: {text!r}', dict(ww, backend=backend))
                else:
                    acc.violation('unbounded/' + out + mech, f'{backend}: {out} parsing {t!r} from {start!r}: {text!r}', dict(ww, backend=backend))
                return  # one witness per graph is enough; the rest of the battery would only repeat it
            acc.violation('parse/' + out, f'{backend}: {out} parsing {t!r} from {start!r}: {text!r}', dict(ww, backend=backend))


def run_shard(desc, acc):
    sys.setrecursionlimit(3000)
    if desc['mode'] == 'exhaustive':
        first = True
        for idx, g in exhaustive(desc['tier']):
            if idx % desc['of'] != desc['shard']:
                continue
            check_graph(acc, g, {'mode': 'exhaustive', 'idx': idx})
            if first:
                acc.sample({'grammar': L.grammar_text(g), 'battery': BATTERY})
                first = False
    else:
        for i in range(desc['n']):
            rng = random.Random(h64('C16', desc['seed'], desc['shard'], i))
            # every third random graph draws joins/gathers as items too, every other third includes and based rules
            g = random_graph(rng, joins=(i % 3 == 0), includes=(i % 3 == 1))
            check_graph(acc, g, {'mode': 'random', 'shard': desc['shard'], 'i': i})
            if i == 0:
                acc.sample({'grammar': L.grammar_text(g), 'battery': BATTERY})


def replay(w, acc):
    sys.setrecursionlimit(3000)
    check_graph(acc, L.from_json(w['grammar']), {'mode': 'replay'})


MANIFEST = {
    'technique': 'runtime monitoring: independent graph-analysis oracle for detection and flags + step-budget/recursion-limit termination monitor over exhaustive small rule graphs',
    'level_text': 'every small rule graph (exhaustive up to the stated bounds) and seeded larger ones are compiled by the real code with left recursion off '
                  '(GrammarError iff the independent analysis finds a cycle) and on (is_lrec/is_memo of non-cyclic rules), and parsed from every rule on a '
                  'battery under a logical step budget and recursion limit',
    'level_note': 'trusted: vt/ref.py nullable/left-call analysis (joins and gathers by their documented expansion); grammars with a nullable rule call in a left prefix '
                  '(or in the element of a join whose separator would then start at the same position) are outside the statement and only counted; '
                  'termination is the bounded restatement (budget, depth), not a proof',
}
