"""C08 \u2014 bad input and bad grammars are reported as TatSu errors at valid positions.

Oracle: an exception-class monitor at the API boundary (tatsu.compile / tatsu.parse / model.parse / generated
parser .parse).  Whatever escapes is judged: a TatSu parse failure must carry 0 <= pos <= len(text), an `info`
that agrees with `pos` under an independent splitter, and must render (str(e), e.render(Color.never())); any
other exception class is a violation whose signature is the class and the innermost tatsu function; "hang" is
a logical step budget through TatSu's public heart= protocol.  DESIGN.md section 3/C08.

(inputs)   random acyclic grammars from vt.gen with meta expressions (@int @uint @float @bool @name) and `$->`
           injected, plus meta-centred templates  x  hostile unicode texts  x  {str, TextLines, Buffer} x parseinfo
           on/off x {model, generated parser, tatsu.parse}.
(grammars) printed random grammars, the shipped /repo/grammar/*.ebnf|*.tatsu files (whole and cut at blank lines) and
           targeted templates, mutated by character and grammar-token insert/delete/transpose/duplicate, compiled
           with tatsu.compile; compiled survivors then parse two hostile texts.
"""
from __future__ import annotations

import os
import random

from .. import gen as G
from .. import lang as L
from .. import shrink as S
from ..common import REPO, h64
from ..monitors import c08_oracle as O
from ..tsu import StepHeart, gen_parser

ID = 'C08'
LEVEL = 'exploration'
RULE = ('(inputs) cases = (grammar, text, variant): seeded acyclic grammars of <=5 rules over the core language with meta '
        'expressions and $-> injected at leaves (or one of 16 meta-centred templates), directive variants (whitespace '
        'None/custom, nameguard, ignorecase, eol comments, parseinfo), x texts assembled from hostile classes (numeric '
        'debris, unicode digits, control chars, CR/LF/CRLF, unicode line separators, unicode spaces, astral, combining, '
        'words, empty, 1.5k-6k single line) optionally around a derivation of the grammar, x input {str, TextLines, '
        'Buffer} x parseinfo on/off x parser {model, generated, tatsu.parse}; (grammars) cases = grammar text: printed random '
        'grammars, shipped grammar files whole or cut at blank lines, 60 targeted templates, with 0-3 character/token '
        'mutations (insert, delete, transpose, duplicate), optionally padded with blank lines. non-trivial = the execution '
        'ended in a reported parse failure whose position, info and rendering were judged; distinct by (grammar text, input, '
        'variant) resp. (grammar text)')
ASSUMPTIONS = [
    '"line" is fixed by the statement only for CR, LF and CRLF: for a text that contains another unicode line boundary '
    '(VT, FF, FS, GS, RS, NEL, U+2028, U+2029) a failure info is accepted under either reading (those characters break '
    'lines or they do not), provided it is consistent with pos under that one reading',
    'pos == len(text) is ambiguous (one past the last character vs clamped to it): either reading accepted; whether a '
    "line's text carries its line break is open: both accepted provided text == source[start:end]",
    '"hang" is restated as a logical step budget through the public heart= protocol (one poll per rule invocation): '
    'for the acyclic random grammars the budget is twice a static bound on rule invocations WITHOUT memoization '
    '(every loop advances >= 1 character per iteration), and, through a counting TextLines input (a subclass whose cursor '
    'counts the public Cursor-protocol calls), 20x a static bound on expression evaluations, which also sees loops that '
    'invoke no rule; cases whose bound exceeds 150000 polls / 600000 cursor operations are run with that cap and a '
    'died heart there is counted inconclusive, never a violation. For compiling grammar text (a recursive grammar) the '
    'budget is 100*(len+1)+8000 polls (decisive up to 519 chars; longer texts run with a 60000 cap, counted, not judged); '
    'a run over it is re-run with perlinememos=10**6: at most 1/8 of the budget then => mechanism hang:memo-starved; still over '
    '1500*(len+1)+5000 => hang:step-budget; in between => counted inconclusive. Time is only a watchdog (20 s of CPU per call, 8x the slowest ordinary call, '
    'the shard wall clock): a fired watchdog makes the run inconclusive (floor shards_without_unexplained_watchdog) unless a '
    'growth experiment explains it: the same grammar text cut one character shorter at a time shows CPU time growing >= 1.35x '
    'per character (or >= 1.35^2 per two characters) over >= 4 consecutive steps (ratios, not absolute times) => hang:superlinear@<innermost tatsu function>',
    'recursion limit 6000 (vt.shard); bracket nesting of the generated grammar texts stays below 30, so a RecursionError '
    'is unbounded recursion, not deep input; survivors of mutation may be recursive grammars: RecursionError / died heart in '
    'their follow-up parses belong to C03/C16 and are counted, not judged',
    'a start rule name that does not exist, non-text inputs and invalid settings are API misuse, not "text": not generated',
    'semantic wrongness of a result (e.g. @bool accepting any text) is not in this statement: not judged here (reported to C01)',
]
CAP = 150_000
CAP_OPS = 600_000
WATCHDOG_S = 20
STALL_LIMIT = 150_000   # Python function calls without a rule invocation or a cursor operation (ordinary peak: ~4-8k)
CAP_COMPILE = 60_000

N_IN = {'quick': 1920, 'thorough': 40320}        # input-side grammars (x ~8 texts x 3 variants)
TEXTS_PER = {'quick': 8, 'thorough': 10}
N_GR = {'quick': 3040, 'thorough': 64320}        # grammar texts
SHARDS = {'quick': 16, 'thorough': 96}
SHARD_TIMEOUT = {'quick': 1800, 'thorough': 7200}
PEAK_COUNTERS = ('max_polls_input', 'max_polls_compile', 'max_poll_ratio_compile_x100', 'max_cursor_ops',
                 'max_cursor_ops_over_bound_x100', 'max_polls_over_bound_x100', 'max_calls_without_clock_progress')

_QUICK_FLOORS = {
    'in_executions': 20000, 'in_failures_judged': 8000, 'in_accepted': 10000, 'render_calls': 18000,
    'in_impl:str': 5000, 'in_impl:TextLines': 9000, 'in_impl:Buffer': 5000,
    'in_parseinfo:on': 9000, 'in_parseinfo:off': 9000,
    'in_parser:model': 16000, 'in_parser:generated': 2300, 'in_parser:api': 300,
    'in_meta_executions': 11000, 'in_eol_executions': 3500, 'in_textroute_grammars': 100,
    'in_fail_pos:zero': 5000, 'in_fail_pos:end-of-text': 700, 'in_fail_pos:line-end': 180,
    'in_fail_pos:inside': 1500, 'in_fail_pos:empty-text': 350,
    'in_text:unicode-breaks': 5000, 'in_text:long-line': 250, 'in_text:empty': 350,
    'in_budget_decisive': 19000, 'in_preflight_counting': 7000, 'in_ops_decisive': 6500,
    'in_model_building_executions': 1500, 'in_reentrant_with_inner': 600, 'in_grammars:typed-builtin': 150,
    'in_preflight_with_call_clock': 7000, 'in_buffer_with_call_clock': 5000, 'in_text:brace-words': 500,
    'gr_texts': 3000, 'gr_rejected_failure_judged': 1000, 'gr_compiled': 380, 'gr_templates': 160,
    'gr_shipped': 240, 'gr_mut:char': 750, 'gr_mut:token': 750, 'gr_followup_parses': 750,
    'gr_budget_decisive': 1400, 'gr_nesting_probe': 2, 'gr_pinned': 20, 'shards_without_unexplained_watchdog': 16,
}
_FIXED_THOROUGH = {'gr_pinned': 20, 'gr_texts': 64000, 'gr_nesting_probe': 12, 'shards_without_unexplained_watchdog': 96,
                   'gr_unterminated_constant_probe': 3}
FLOORS = {
    'quick': dict(_QUICK_FLOORS),
    # thorough runs 21x the quick case counts
    'thorough': {**{k: v * 19 for k, v in _QUICK_FLOORS.items()}, **_FIXED_THOROUGH},
}


def plan(tier, seed):
    k = SHARDS[tier]
    return [{'seed': seed, 'shard': i, 'of': k, 'n_in': N_IN[tier] // k, 'texts': TEXTS_PER[tier],
             'n_gr': N_GR[tier] // k, 'tier': tier} for i in range(k)]


def run_shard(desc, acc):
    run_inputs(desc, acc)
    run_grammars(desc, acc)
    # a CPU-time watchdog event that no logical experiment could explain makes the run inconclusive (floor)
    if not acc.counters.get('watchdog_fired'):
        acc.count('shards_without_unexplained_watchdog')


# ======================================================================================= inputs
METAS = ('int', 'uint', 'float', 'bool', 'name')
# builtin TYPES a rule may name as its type (docs: "builtin type names convert the value").  bytes/bytearray are left out:
# they allocate as many bytes as an integer value says (@int on '99999999999' -> MemoryError is not what this looks at)
BUILTIN_TYPES = ('int', 'float', 'str', 'bool', 'list', 'tuple', 'set', 'frozenset', 'dict', 'complex')


def _templates(k):
    M = L.Meta(k)
    T, Sq, Ch = L.Tok, L.Seq, L.Choice
    return [
        ('tok-meta-eof', Sq((T('a'), M, L.EOF()))),
        ('meta-eof', Sq((M, L.EOF()))),
        ('pclo-meta', Sq((L.PClo(M), L.EOF()))),
        ('clo-meta', Sq((L.Clo(M), L.Dot()))),
        ('gather-meta', Sq((L.Join(T(','), M, True, True), L.EOF()))),
        ('meta-meta', Sq((M, M))),
        ('opt-meta-dot', Sq((L.Opt(M), L.Dot()))),
        ('skipto-meta', L.SkipTo(M)),
        ('lookaheads', Ch((Sq((L.NLA(M), L.Dot())), Sq((L.LA(M), M))))),
        ('meta-eol-lines', Sq((L.PClo(Sq((M, L.EOL()))), L.EOF()))),
        ('named', Sq((L.Named('n', M), L.NamedList('m', M)))),
        ('eol-only', Sq((L.Clo(Sq((L.Pat(r'[a-c]+'), L.EOL()))), L.EOF()))),
        ('choice-metas', Sq((L.PClo(L.Group(Ch((L.Meta('float'), L.Meta('int'), L.Meta('bool'), L.Meta('name'), T(','))))),
                             L.EOF()))),
        ('call-meta', Sq((L.Call('x'), T(','), L.Call('x')))),
        ('const-fails', Sq((L.Opt(M), L.Const('{1/0}'), L.Dot()))),
        ('const-fails-in-rule', Sq((L.Clo(T('a')), L.Call('y'), L.EOF()))),
        # constants interpolate values captured from the INPUT and are evaluated until they stop changing
        ('const-interpolates-input', Sq((L.Named('n', L.Call('w')), L.Named('m', L.Call('w')), L.Named('k', L.Const('{n}')),
                                         L.Clo(L.Dot())))),
        ('const-interpolates-input-alert', Sq((L.Named('n', L.Call('w')), L.Opt(L.Named('m', L.Call('w'))),
                                               L.Alert('{n} {m}', 1), L.Const('{m}{n}'), L.Clo(L.Dot())))),
    ]


BRACE_WORDS = ['{m}', '{n}', '{n}{n}', '{m}{n}', '{1/0}', '{', '}', '{{n}}', '{m!r}', '{n:>5}', "{'a'*3}", '{[n,m]}', 'a',
               '{m}{m}{m}', '{__import__}', '"{m}"', "'{n}'", '{n', '5', '{5}', '1e999', '{k}', '{n.x}', '{m[0]}', '\\{n}',
               '{n}\x00', '{m}{m}', '{x', '{}', '{!r}', "{'{n}'}", '{n!s:{m}}']


DIRECTIVE_VARIANTS = [
    {}, {}, {}, {'whitespace': None}, {'whitespace': r'[ \t]+'}, {'nameguard': 'False'}, {'ignorecase': 'True'},
    {'eol_comments': r'#[^\n\r]*'}, {'parseinfo': 'True'}, {'whitespace': r'[ \t\x85]+', 'nameguard': 'True'},
    {'namechars': '-'}, {'whitespace': r'\s*'}, {'whitespace': r'[ ]*|\t'},
]
LEXICAL = ('whitespace', 'comments', 'eol_comments', 'nameguard', 'namechars', 'ignorecase')


def inject(rng, e, p_meta, p_eol):
    """replace token/pattern leaves by meta expressions or $->"""
    kids = L.children(e)
    if kids:
        return L.rebuild(e, [inject(rng, k, p_meta, p_eol) for k in kids])
    if isinstance(e, (L.Tok, L.Pat)):
        r = rng.random()
        if r < p_meta:
            return L.Meta(rng.choice(METAS))
        if r < p_meta + p_eol:
            return L.EOL()
    return e


def input_grammar(rng, i):
    """-> (grammar, label)"""
    directives = dict(rng.choice(DIRECTIVE_VARIANTS))
    if i % 10 < 3:
        k = rng.choice(METAS)
        name, body = rng.choice(_templates(k))
        rules = [L.Rule('start', G.normalise(body))]
        if name == 'call-meta':
            rules.append(L.Rule('x', L.Meta(k)))
        if name.startswith('const-interpolates-input'):
            rules.append(L.Rule('w', L.Pat(r'\S+')))
        if name == 'const-fails-in-rule':
            rules.append(L.Rule('y', L.Choice((L.Seq((L.Tok('b'), L.Const('{1/0}'))), L.Meta(k)))))
        return L.Grammar(rules, directives), f'template:{name}:{k}'
    F = dict(G.FEATURES)
    F['cut'] = rng.random() < 0.25
    for f in ('over', 'la', 'join', 'skipto', 'const', 'skipgroup'):
        if rng.random() < 0.15:
            F[f] = False
    g = G.gen_grammar(rng, F, max_rules=5 if rng.random() < 0.3 else 3, pats=list(G.PATS))
    p_meta = rng.choice([0.0, 0.15, 0.3, 0.5])
    rules = [L.Rule(r.name, inject(rng, r.body, p_meta, 0.06)) for r in g.rules]
    if i % 10 == 9:
        # rules typed with a builtin type (number::int), parsed with model building: the conversion sees whatever text
        # the rule matched - a text the builtin rejects is bad INPUT and must surface as a parse failure
        trng = random.Random(h64('C08', 'typed', L.grammar_text(L.Grammar(rules, directives))))
        k = trng.randrange(len(rules))
        typed = []
        for j, r in enumerate(rules):
            if j == k or trng.random() < 0.4:
                typed.append(L.Rule(r.name, r.body, r.decorators, (trng.choice(BUILTIN_TYPES),), r.kwparams, r.base))
            else:
                typed.append(r)
        return L.Grammar(typed, directives), 'typed-builtin'
    return L.Grammar(rules, directives), 'random'


META_LEXEMES = ['12', '-3', '+4', '1.5', '1.5e3', '-2e-2', 'true', 'false', 'True', 'x1', 'name', '0', '1_0', '7.']


def derive(rng, g, e, depth=0):
    """vt.gen.derive extended to meta expressions and $-> (samples a likely-accepted text)"""
    if isinstance(e, L.Meta):
        return {'int': ['12', '-3', '+4', '0'], 'uint': ['12', '0', '1_0'], 'float': ['1.5', '1.5e3', '-2e-2', '7.', '3'],
                'bool': ['true', 'false', 'True', 'False'], 'name': ['x1', 'name', '_q']}[e.kind][rng.randrange(3)]
    if isinstance(e, L.EOL):
        return rng.choice(['\n', '\r\n', ' \n', '\n'])
    if depth > 8:
        return ''
    kids = L.children(e)
    if isinstance(e, L.Call):
        try:
            return derive(rng, g, g.rule(e.name).body, depth + 1)
        except KeyError:
            return ''
    if not kids:
        return G.derive(rng, g, e, depth)
    if isinstance(e, L.Choice):
        return derive(rng, g, rng.choice(e.opts), depth + 1)
    if isinstance(e, L.Opt):
        return derive(rng, g, e.e, depth + 1) if rng.random() < 0.6 else ''
    if isinstance(e, (L.Clo, L.PClo)):
        n = rng.choice([0, 1, 2, 3]) if isinstance(e, L.Clo) else rng.choice([1, 2, 3])
        return join(rng, [derive(rng, g, e.e, depth + 1) for _ in range(n)])
    if isinstance(e, L.Join):
        n = rng.choice([0, 1, 2, 3]) if not e.positive else rng.choice([1, 2, 3])
        parts = []
        for j in range(n):
            if j:
                parts.append(derive(rng, g, e.sep, depth + 1))
            parts.append(derive(rng, g, e.e, depth + 1))
        return join(rng, parts)
    if isinstance(e, (L.LA, L.NLA)):
        return ''
    if isinstance(e, L.SkipTo):
        return rng.choice(['', 'zz ', '\x00', 'b ']) + derive(rng, g, e.e, depth + 1)
    return join(rng, [derive(rng, g, k, depth + 1) for k in kids])


def join(rng, parts):
    out = ''
    for p in parts:
        if not p:
            continue
        if out and not out[-1].isspace() and rng.random() < 0.7:
            out += rng.choice([' ', ' ', '\n', '\t', '\r\n'])
        out += p
    return out


def input_texts(rng, g, n, label=''):
    """[(text, classes)]"""
    out = []
    body = g.rule('start').body
    for _ in range(n):
        r = rng.random()
        if 'const-interpolates-input' in label and r < 0.8:
            ws = [rng.choice(BRACE_WORDS) for _k in range(rng.choice([1, 2, 2, 2, 3]))]
            out.append((rng.choice([' ', ' ', '\n', '\t ']).join(ws), {'brace-words'}))
            continue
        d = derive(rng, g, body)
        if r < 0.12:
            out.append((d, {'derived-clean'}))
        elif r < 0.32:
            t = d
            for _k in range(rng.choice([1, 1, 2, 3])):
                t = G.mutate(rng, t, O.HOSTILE_ALPHABET)
            out.append((t, {'derived-mutated'}))
        elif r < 0.42:
            t, cl = O.hostile_text(rng, rng.choice(META_LEXEMES))
            out.append((t, cl))
        else:
            out.append(O.hostile_text(rng, d))
    return out


class InCase:
    """one input-side grammar with its real model / generated parser built once"""

    def __init__(self, g, route='object', want_generated=False):
        self.g = g
        self.route = route
        self.src = L.grammar_text(g)
        self.model = None
        self.parser_cls = None
        self.build_exc = None
        self.lexical = {k: v for k, v in L.directive_values(g.directives).items() if k in LEXICAL}
        self.has_meta = any(isinstance(x, L.Meta) for r in g.rules for x in L.walk(r.body))
        self.has_eol = any(isinstance(x, L.EOL) for r in g.rules for x in L.walk(r.body))
        try:
            if route == 'text':
                import tatsu
                self.model = tatsu.compile(self.src, name='T')
            else:
                self.model = L.to_model(g, name='T')
            if want_generated:
                self.parser_cls, _src = gen_parser(self.model)
        except BaseException as e:  # noqa: BLE001 - the class is the observation
            if isinstance(e, (KeyboardInterrupt, SystemExit)):
                raise
            self.build_exc = e

    def make_input(self, text, impl):
        if impl == 'str':
            return text
        if impl == 'Buffer':
            from tatsu.input.buffer import Buffer
            return Buffer(text, **self.lexical)
        from tatsu.input.textlines import TextLines
        return TextLines(text, **self.lexical)

    def budget(self, n):
        b = O.poll_bound(self.g, 'start', n)
        if b is None:
            return CAP, False
        want = 2 * b + 100
        return (want, True) if want <= CAP else (CAP, False)

    def ops_budget(self, n):
        b = O.ops_bound(self.g, 'start', n)
        if b is None:
            return CAP_OPS, False
        want = 20 * b + 2000
        return (want, True) if want <= CAP_OPS else (CAP_OPS, False)

    def execute(self, text, variant, watchdog_s=None):
        """-> (tag, payload, stats)   tag: ok | exc"""
        budget, decisive = self.budget(len(text))
        heart = StepHeart(budget)
        kw = {'start': 'start', 'heart': heart}
        if variant['parseinfo']:
            kw['parseinfo'] = True
        if variant.get('semantics_obj') is not None:
            kw['semantics'] = variant['semantics_obj']
        if variant.get('builder'):
            if variant['parser'] == 'api':
                kw['asmodel'] = True
            else:
                from tatsu.semantics import ModelBuilderSemantics
                kw['semantics'] = ModelBuilderSemantics()
        st = {'heart': heart, 'decisive': decisive, 'clock': None, 'ops_decisive': None, 'stall': None}
        try:
            if variant.get('counting'):
                ob, od = self.ops_budget(len(text))
                inp = O.counting_text_class()(text, ob, **self.lexical)
                st['clock'] = inp.vt_clock
                st['ops_decisive'] = od
            elif variant['impl'] == 'Buffer':
                # the legacy input under the call clock as well: its cursor operations only serve as progress marks
                # (budget: 10x the TextLines one, as its public operations call each other)
                ob, od = self.ops_budget(len(text))
                inp = O.counting_text_class('Buffer')(text, 10 * ob, **self.lexical)
                st['progress'] = inp.vt_clock
                st['ops_decisive'] = od
            else:
                inp = self.make_input(text, variant['impl'])
            if watchdog_s is None:
                # a case whose logical budget is capped is not judged anyway: do not spend a minute of CPU on it
                watchdog_s = 10 if st['ops_decisive'] is False else WATCHDOG_S
            import contextlib
            stall = contextlib.nullcontext()
            clock = st['clock'] or st.get('progress')
            # (the api route compiles the grammar inside the call: that work advances neither clock, so it is not armed)
            if clock is not None and variant['parser'] != 'api':
                stall = st['stall'] = O.stall_clock(lambda: heart.calls + clock[0], STALL_LIMIT)
            with O.watchdog(watchdog_s), stall:
                if variant['parser'] == 'generated':
                    res = self.parser_cls().parse(inp, **kw)
                elif variant['parser'] == 'api':
                    import tatsu
                    res = tatsu.parse(self.src, inp, **kw)
                else:
                    res = self.model.parse(inp, **kw)
            return 'ok', res, st
        except BaseException as e:  # noqa: BLE001 - the class is the observation
            if isinstance(e, (KeyboardInterrupt, SystemExit)):
                raise
            return 'exc', e, st


VARIANTS = [{'impl': impl, 'parseinfo': pi} for impl in ('str', 'TextLines', 'Buffer') for pi in (False, True)]


class Reentrant:
    """a semantics object whose actions parse OTHER texts with the same model / parser class while the outer parse is
    under way (an action that parses an embedded piece of text: a legitimate use); it changes no value"""

    def __init__(self, parse, texts, limit=3):
        self.parse, self.texts, self.left, self.inner = parse, list(texts), limit, []

    def _default(self, ast, *a, **kw):
        if self.left > 0 and self.texts:
            self.left -= 1
            t = self.texts[self.left % len(self.texts)]
            try:
                self.parse(t)
                self.inner.append('ok')
            except BaseException as e:  # noqa: BLE001 - the class is the observation
                if isinstance(e, (KeyboardInterrupt, SystemExit)):
                    raise
                self.inner.append(type(e).__name__ if not O.is_tatsu_exception(e) else 'tatsu')
                if not O.is_tatsu_exception(e):
                    self.foreign = e
        return ast


def outcome_key(tag, res):
    from ..ref import crepr
    if tag == 'ok':
        return 'ok:' + crepr(res)
    return 'exc:' + O.class_name(res)


def check_reentrant(acc, case, text, others, origin):
    """metamorphic: an action that runs inner parses on the same model/parser class must not change the outer parse,
    and neither parse may raise a foreign exception"""
    v = {'impl': 'str', 'parseinfo': False, 'parser': 'generated' if case.parser_cls is not None else 'model'}
    tag0, res0, _ = case.execute(text, v)
    if tag0 == 'exc' and not O.is_tatsu_exception(res0):
        return   # already reported by the plain variants
    if v['parser'] == 'generated':
        inner = lambda t: case.parser_cls().parse(t, start='start')   # noqa: E731
    else:
        inner = lambda t: case.model.parse(t, start='start')          # noqa: E731
    sem = Reentrant(inner, others)
    tag1, res1, _ = case.execute(text, dict(v, semantics_obj=sem))
    acc.evaluations += 1
    acc.count('in_reentrant_parses')
    acc.count('in_reentrant_inner_parses', len(sem.inner))
    if not sem.inner:
        return
    acc.count('in_reentrant_with_inner')
    problem = None
    if getattr(sem, 'foreign', None) is not None:
        problem = ('reentrant/inner-exc:' + O.class_name(sem.foreign),
                   f'a parse started from a semantic action (same {v["parser"]}) raised {O.class_name(sem.foreign)}: {str(sem.foreign)[:100]}')
    elif outcome_key(tag0, res0) != outcome_key(tag1, res1):
        problem = ('reentrant/outer-outcome-changed',
                   f'inner parses run by a semantic action changed the outer parse ({v["parser"]}): without {outcome_key(tag0, res0)[:160]} '
                   f'with {outcome_key(tag1, res1)[:160]} (inner texts {others[:3]!r} -> {sem.inner})')
    if problem:
        acc.violation(problem[0], f'{problem[1]}; grammar {case.src.strip()!r} input {short(text)!r}',
                      {'kind': 'reentrant', 'grammar': L.to_json(case.g), 'grammar_text': case.src, 'text': text,
                       'others': others, 'route': case.route, 'origin': origin, 'want_generated': case.parser_cls is not None})


def observe_input(case, text, variant, watchdog_s=None):
    """one execution -> (outcome class, [(sig, what)], stats) ; no accounting"""
    from tatsu.exceptions import FailedParse, HeartDied
    tag, res, xs = case.execute(text, variant, watchdog_s)
    heart = xs['heart']
    st = {'polls': heart.calls, 'decisive': xs['decisive'], 'pos_kind': None, 'renders': 0, 'judged': False,
          'ops': xs['clock'][0] if xs['clock'] else None, 'ops_decisive': xs['ops_decisive'],
          'stall_gap': xs['stall'].peak_gap if xs.get('stall') is not None and xs['stall'].armed else None}
    if tag == 'ok':
        return 'ok', [], st
    e = res
    cls = O.class_name(e)
    if isinstance(e, O.Watchdog):
        if xs['ops_decisive'] is False:
            return 'StepsExceeded(cap)', [], st      # capped logical budget: counted, not judged
        return 'Watchdog', [], st
    if isinstance(e, O.Stalled):
        return 'Stalled', [('hang:no-progress-of-either-logical-clock',
                            f'more than {STALL_LIMIT} Python function calls were made while neither the rule-invocation '
                            f'clock nor the cursor-operation clock advanced (a loop outside rule calls and input '
                            f'access that never ends), on a text of length {len(text)}')], st
    if isinstance(e, O.StepsExceeded):
        if not xs['ops_decisive']:
            return 'StepsExceeded(cap)', [], st
        sig, why = hang_mechanism(case, text, variant, 'hang:cursor-steps')
        budget = (xs['clock'] or xs.get('progress'))[1]
        return cls, [(sig, f'acyclic grammar: more than {budget} cursor operations (20x the no-memo bound on '
                           f'expression evaluations) on a text of length {len(text)}: a loop that never ends{why}')], st
    if isinstance(e, FailedParse):
        problems, fst = O.judge_failure(e, text)
        st.update(pos_kind=fst['pos_kind'], renders=fst['renders'], judged=True)
        return cls, problems, st
    if isinstance(e, HeartDied):
        if xs['decisive']:
            sig, why = hang_mechanism(case, text, variant, 'hang:step-budget')
            return cls, [(sig, f'acyclic grammar: more than {heart.budget} rule invocations (twice the no-memo bound) '
                               f'on a text of length {len(text)}{why}')], st
        return 'HeartDied(cap)', [], st
    if O.is_tatsu_exception(e):
        return cls, [(f'exc:tatsu-not-a-parse-failure:{cls}', f'input parse raised {cls}: {str(e)[:120]}')], st
    return cls, [(O.escape_sig(e), f'input parse raised {cls}: {str(e)[:120]} (in {O.innermost_tatsu_function(e)})')], st


def hang_mechanism(case, text, variant, sig):
    """counterfactual on the witness: does the run end once @bool is the pattern it is documented to be?"""
    from tatsu.exceptions import HeartDied
    if not any(isinstance(x, L.Meta) and x.kind == 'bool' for r in case.g.rules for x in L.walk(r.body)):
        return sig, ''
    c2 = InCase(O.debool(case.g), case.route, want_generated=variant['parser'] == 'generated')
    if c2.build_exc is not None or (variant['parser'] == 'generated' and c2.parser_cls is None):
        return sig, ''
    tag2, res2, _ = c2.execute(text, variant)
    if tag2 == 'exc' and isinstance(res2, (O.StepsExceeded, O.Watchdog, HeartDied)):
        return sig, ''
    return sig + '/bool-meta-never-fails', ' (terminates when @bool is replaced by /true|True|false|False/)'


def variant_name(v):
    return (f"{v['parser']},{v['impl']}{'(counting)' if v.get('counting') else ''},"
            f"parseinfo={'on' if v['parseinfo'] else 'off'}{',model-building' if v.get('builder') else ''}")


def check_input(acc, case, text, variant, classes, origin, shrink=True):
    cls, problems, st = observe_input(case, text, variant)
    acc.evaluations += 1
    acc.count('in_executions')
    acc.count(f"in_table:{variant['parser']}:{cls}")
    acc.count('in_impl:' + variant['impl'])
    acc.count('in_parseinfo:' + ('on' if variant['parseinfo'] else 'off'))
    acc.count('in_parser:' + variant['parser'])
    for c in classes:
        acc.count('in_text:' + c)
    if case.has_meta:
        acc.count('in_meta_executions')
    if case.has_eol:
        acc.count('in_eol_executions')
    if st['decisive']:
        acc.count('in_budget_decisive')
    else:
        acc.count('in_budget_capped')
    acc.peak('max_polls_input', st['polls'])
    if st['decisive'] and cls != 'HeartDied':
        acc.peak('max_polls_over_bound_x100', int(100 * st['polls'] / max(1, O.poll_bound(case.g, 'start', len(text)))))
    if st['ops'] is not None:
        acc.count('in_preflight_counting')
        acc.count('in_ops_decisive' if st['ops_decisive'] else 'in_ops_capped')
        acc.peak('max_cursor_ops', st['ops'])
        if st['ops_decisive'] and cls not in ('StepsExceeded', 'HeartDied', 'Watchdog', 'Stalled'):
            acc.peak('max_cursor_ops_over_bound_x100', int(100 * st['ops'] / max(1, O.ops_bound(case.g, 'start', len(text)))))
    if st['stall_gap'] is not None:
        acc.count('in_preflight_with_call_clock' if st['ops'] is not None else 'in_buffer_with_call_clock')
        acc.peak('max_calls_without_clock_progress', st['stall_gap'])
    if cls == 'ok':
        acc.count('in_accepted')
    elif cls in ('HeartDied(cap)', 'StepsExceeded(cap)'):
        acc.count('in_budget_cap_died_inconclusive')
    elif cls == 'Watchdog':
        acc.count('watchdog_fired')
        acc.note(f'CPU-time watchdog ({WATCHDOG_S}s) fired in an input parse [{variant_name(variant)}]: '
                 f'grammar {case.src.strip()!r} input {short(text)!r}')
    if st['judged']:
        acc.count('in_failures_judged')
        acc.count('render_calls', st['renders'])
        if st['pos_kind']:
            acc.count('in_fail_pos:' + st['pos_kind'])
        if O.has_unicode_breaks(text):
            acc.count('in_failures_on_unicode_break_text')
        acc.nontriv('in', case.src, text, variant_name(variant))
    for sig, what in problems:
        g2, t2 = case.g, text
        if shrink and acc.counters.get('violations:' + sig, 0) < 2:
            g2, t2 = shrink_input(case, text, variant, sig)
        wit = {'kind': 'input', 'grammar': L.to_json(g2), 'grammar_text': L.grammar_text(g2), 'text': t2,
               'variant': variant, 'route': case.route, 'origin': origin}
        if g2 is not case.g or t2 != text:
            wit['original'] = {'grammar_text': case.src, 'text': text}
        acc.violation(sig, f'{what}; grammar {L.grammar_text(g2).strip()!r} input {short(t2)!r} [{variant_name(variant)}]',
                      wit)
    return cls, problems


def short(t, n=120):
    return t if len(t) <= n else t[:n // 2] + f'...<{len(t)} chars>...' + t[-n // 4:]


class _GiveUp(Exception):
    pass


def shrink_input(case, text, variant, sig):
    slow = [0]

    def pred(g2, s2, t2):
        if s2 != 'start' or not any(r.name == 'start' for r in g2.rules):
            return False
        c = InCase(g2, case.route, want_generated=variant['parser'] == 'generated')
        if c.build_exc is not None or (variant['parser'] == 'generated' and c.parser_cls is None):
            return False
        # candidates may fall into a loop the counting input is not watching: short CPU watchdog, then give up
        cls, probs, _st = observe_input(c, t2, variant, watchdog_s=1.0)
        if cls == 'Watchdog':
            slow[0] += 1
            if slow[0] >= 3:
                raise _GiveUp
        return any(p[0] == sig for p in probs)

    try:
        if len(text) > 400:
            return case.g, text
        return S.shrink(case.g, 'start', text, pred, budget=10 if sig.startswith('hang:') else 40)
    except Exception:  # noqa: BLE001
        return case.g, text


def build_violation(acc, case, origin):
    e = case.build_exc
    if O.is_tatsu_exception(e):
        acc.count('in_build_rejected_by_tatsu:' + O.class_name(e))
        return
    sig = O.escape_sig(e) if case.route == 'text' else 'build:' + O.escape_sig(e)
    acc.violation(sig, f'building the parser ({case.route} route) raised {O.class_name(e)}: {str(e)[:120]}; grammar '
                       f'{case.src.strip()!r}',
                  {'kind': 'build', 'grammar': L.to_json(case.g), 'grammar_text': case.src, 'route': case.route,
                   'origin': origin})


def run_inputs(desc, acc):
    sampled = 0
    for i in range(desc['n_in']):
        rng = random.Random(h64('C08', 'in', desc['seed'], desc['shard'], i))
        g, label = input_grammar(rng, i)
        route = 'text' if i % 8 == 5 else 'object'
        want_gen = i % 3 == 0
        case = InCase(g, route, want_generated=want_gen)
        origin = {'mode': 'inputs', 'shard': desc['shard'], 'i': i, 'label': label}
        acc.count('in_grammars')
        acc.count('in_grammars:' + label.split(':')[0])
        if case.build_exc is not None:
            acc.evaluations += 1
            build_violation(acc, case, origin)
            continue
        if route == 'text':
            acc.count('in_textroute_grammars')
        texts = input_texts(rng, g, desc['texts'], label)
        stuck = 0
        for j, (text, classes) in enumerate(texts):
            if any(c in O.UNI_BREAKS for c in text):
                classes = set(classes) | {'unicode-breaks'}
            # pre-flight through the counting input: the logical clock that also sees loops without rule calls
            pre = {'impl': 'TextLines', 'parseinfo': (i + j) % 2 == 0, 'parser': 'model', 'counting': True}
            builder = label == 'typed-builtin'
            if builder:
                pre['builder'] = True
            cls, problems = check_input(acc, case, text, pre, classes, origin)
            if cls in ('Watchdog', 'Stalled', 'StepsExceeded', 'StepsExceeded(cap)', 'HeartDied', 'HeartDied(cap)'):
                acc.count('in_texts_not_run_further_after_budget')
                continue
            others = [v for v in VARIANTS if v['impl'] != 'TextLines']
            vs = []
            if want_gen and case.parser_cls is not None:
                vs.append(dict(VARIANTS[(i + j) % 6], parser='generated'))
                vs.append(dict(others[(i + j) % 4], parser='model'))
            else:
                vs.append(dict(others[(i + j) % 4], parser='model'))
                if j % 2:
                    vs.append(dict(VARIANTS[(i + j + 3) % 6], parser='model'))
            if route == 'text' and j < 3:
                vs.append(dict(VARIANTS[(i + 2 * j) % 6], parser='api'))
            for v in vs:
                if builder:
                    v = dict(v, builder=True)
                    acc.count('in_model_building_executions')
                cls, _p = check_input(acc, case, text, v, classes, origin)
                if builder and cls not in ('ok',) and _p == [] and cls not in ('Watchdog', 'Stalled'):
                    acc.count('in_model_building_failures_judged')
                if cls in ('Watchdog', 'Stalled'):
                    stuck += 1
            if i % 4 == 2 and j < 4 and label != 'typed-builtin':
                check_reentrant(acc, case, text, [t for t, _ in texts if t != text][:3], origin)
            if stuck >= 2:
                # each further text would cost another watchdog period: the grammar is already reported / inconclusive
                acc.count('in_grammars_abandoned_after_two_hangs')
                break
        if sampled < 2 and label == 'random' and case.has_meta:
            sampled += 1
            acc.sample({'part': 'inputs', 'grammar': case.src, 'texts': [short(t, 60) for t, _ in texts][:5],
                        'variants': 'model/generated/api x str/TextLines/Buffer x parseinfo on/off'})


# ======================================================================================= grammars
def _shipped():
    d = os.path.join(REPO, 'grammar')
    out = []
    try:
        names = sorted(os.listdir(d))
    except OSError:
        return out
    for n in names:
        if n.endswith(('.ebnf', '.tatsu')):
            try:
                with open(os.path.join(d, n), encoding='utf-8') as f:
                    out.append((n, f.read()))
            except OSError:
                pass
    return out


_SHIPPED = None


def shipped():
    global _SHIPPED
    if _SHIPPED is None:
        _SHIPPED = _shipped()
    return _SHIPPED


BAD_REGEXES = ['(', '[', '*a', '(?P<n>a)(?P<n>b)', '(?z)', 'a{2,1}', '\\\\1', '(?<=a+)b', ')', '[z-a]', '(?P<1>a)', '\\\\']


def templates():
    """[(name, grammar text)] \u2014 targeted bad (and borderline) grammars"""
    out = []
    A = out.append
    for ctx, name in (("{x}+ 'a'", 'pclo'), ("','.{x}+ 'a'", 'pgather'), ("','%{x}+ 'a'", 'pjoin'), ("[x] 'a'", 'opt'),
                      ("{x} 'a'", 'clo'), ("{x}+", 'pclo-alone'), ("&x 'a'", 'la'), ("!x 'a'", 'nla'), ("->x", 'skipto'),
                      ("n:x", 'named'), (">x 'a'", 'include'), ("('a' | {x}+ 'b') 'c'", 'pclo-in-choice'),
                      ("{ {x}+ 'a' }", 'pclo-nested')):
        A((f'undefined-rule:{name}', f"start = {ctx} ;\n"))
    A(('undefined-base', "start < x = 'a' ;\n"))
    A(('duplicate-rule', "start = 'a' ;\nstart = 'b' ;\n"))
    A(('duplicate-rule-3', "start = x ;\nx = 'a' ;\nx = 'b' ;\nx = 'c' ;\n"))
    A(('override-unknown', "@override\nstart = 'a' ;\n"))
    A(('override-known', "start = 'a' ;\n@override\nstart = 'b' ;\n"))
    for k, rx in enumerate(BAD_REGEXES):
        A((f'bad-regex:pattern:{k}', f"start = /{rx}/ ;\n"))
        A((f'bad-regex:pattern-q:{k}', f"start = ?'{rx}' ;\n"))
        A((f'bad-regex:whitespace:{k}', f"@@whitespace :: /{rx}/\nstart = 'a' ;\n"))
    for k, rx in enumerate(BAD_REGEXES[:6]):
        # @@whitespace also takes a plain string
        A((f'bad-regex:whitespace-string:{k}', f"@@whitespace :: '{rx}'\nstart = 'a' ;\n"))
    # patterns that also match the empty string (non-recursive grammars: a follow-up parse over budget IS a hang)
    A(('nonrec:ws-matches-empty', "@@whitespace :: /\\s*/\nstart = 'a' 'b' ;\n"))
    A(('nonrec:ws-matches-empty-alt', "@@whitespace :: /(?:[ ]|)/\nstart = {'a'} 'b' $ ;\n"))
    A(('nonrec:comments-match-empty', "@@comments :: /(\\(\\*.*?\\*\\))?/\nstart = 'a' 'b' ;\n"))
    A(('nonrec:eol-comments-match-empty', "@@eol_comments :: /(#.*)?/\nstart = 'a' 'b' ;\n"))
    A(('huge-int-param', "start[" + "1" * 5000 + "] = 'a' ;\n"))
    A(('huge-int-kwparam', "start[k=" + "9" * 5000 + "] = 'a' ;\n"))
    A(('huge-float-param', "start[" + "1" * 400 + "." + "5" * 400 + "e" + "9" * 30 + "] = 'a' ;\n"))
    A(('bad-regex:comments', "@@comments :: /(/\nstart = 'a' ;\n"))
    A(('bad-regex:eol_comments', "@@eol_comments :: /[/\nstart = 'a' ;\n"))
    A(('bad-regex:concat', "start = /a/ + /(/ ;\n"))
    A(('empty-token', "start = '' ;\n"))
    A(('empty-token-dq', 'start = "" ;\n'))
    A(('empty-token-in-seq', "start = 'a' '' 'b' ;\n"))
    A(('empty-pattern', "start = // ;\n"))
    A(('unknown-directive', "@@foo :: 1\nstart = 'a' ;\n"))
    A(('directive-no-value', "@@whitespace ::\nstart = 'a' ;\n"))
    A(('directive-bad-bool', "@@nameguard :: maybe\nstart = 'a' ;\n"))
    A(('directive-namechars-int', "@@namechars :: 5\nstart = 'a' ;\n"))
    A(('directive-keyword-mix', "@@keyword :: 'a' 5 None\nstart = 'a' ;\n"))
    A(('directive-twice', "@@whitespace :: /a/\n@@whitespace :: /b/\nstart = 'a' ;\n"))
    A(('left-recursion-off', "@@left_recursion :: False\nstart = start 'a' | 'a' ;\n"))
    A(('left-recursion', "start = start 'a' | 'a' ;\n"))
    A(('self-call', "start = start ;\n"))
    A(('self-include', "start = >start 'a' ;\n"))
    # includes that reach their own rule through @override (non-recursive on paper: a follow-up over budget IS a hang)
    A(('nonrec:override-includes-itself', "start = 'x' ;\n@override\nstart = >start 'y' ;\n"))
    A(('nonrec:override-include-cycle', "b = 'x' ;\nstart = >b 'y' ;\n@override\nb = >start ;\n"))
    A(('nonrec:override-includes-base', "b = 'x' ;\nstart = >b 'y' ;\n@override\nb = 'z' ;\n"))
    for k, rx in enumerate(['a{99999999999999999999}', 'a{2,99999999999999999999}', '(?:a{1,65536}){99999}',
                            '(' * 120 + 'a' + ')' * 120, '[a-' + chr(0x10ffff) + ']{4294967296}']):
        A((f'huge-regex:pattern:{k}', f"start = /{rx}/ ;\n"))
        A((f'huge-regex:whitespace:{k}', f"@@whitespace :: /{rx}/\nstart = 'a' ;\n"))
        A((f'huge-regex:string:{k}', f"@@eol_comments :: ?'{rx}'\nstart = 'a' ;\n"))
    A(('nonrec:const-interpolates-followup', "start = n:w m:w k:`{n}` {/./} ;\nw = /\\S+/ ;\n"))
    for k, body in enumerate(["( 'a'", "'a' )", "[ 'a'", "'a' ]", "{ 'a'", "'a' }", "{ 'a' }+ )", "( [ 'a' ) ]", "((('a'))",
                              "'a' | | 'b'", "| 'a'", "'a' |", "'a' ; ;", "= 'a'"]):
        A((f'unbalanced:{k}', f"start = {body} ;\n"))
    A(('unterminated-string', "start = 'a ;\n"))
    A(('unterminated-regex', "start = /a ;\n"))
    A(('unterminated-const', "start = `a ;\n"))
    A(('unterminated-comment', "(* start = 'a' ;\n"))
    A(('no-semicolon', "start = 'a'\n"))
    A(('no-rules', "@@grammar :: X\n"))
    A(('empty', ""))
    A(('blank', " \n\t\r\n"))
    A(('comment-only', "# nothing\n(* nothing *)\n"))
    A(('unknown-meta', "start = @foo ;\n"))
    A(('unknown-decorator', "@zzz\nstart = 'a' ;\n"))
    A(('params', "start(1, b=2) = 'a' ;\n"))
    A(('params-empty', "start[] = 'a' ;\n"))
    A(('params-unbalanced', "start[A, = 'a' ;\n"))
    A(('name-is-number', "1 = 'a' ;\n"))
    A(('const-brace', "start = `{` ;\n"))
    A(('const-div0', "start = `{1/0}` 'a' ;\n"))
    A(('alert', "start = ^^`{x}` 'a' ;\n"))
    A(('unicode-rule-name', "r\u00e8gle = 'a' ;\n"))
    A(('astral-token', "start = '\U0001f600' ;\n"))
    A(('bom', "\ufeffstart = 'a' ;\n"))
    A(('nel-between-rules', "start = x ;\x85x = 'a' ;\n"))
    A(('ls-between-rules', "start = x ;\u2028x = 'a' ;\u2029"))
    A(('nul', "start = 'a' \x00 ;\n"))
    A(('cr-only-lines', "start = x ;\rx = 'a' ;\r"))
    A(('include-pragma', '#include :: "nofile.ebnf"\nstart = \'a\' ;\n'))
    A(('escapes', "start = '\\x' '\\u12' '\\N{nope}' ;\n"))
    A(('escape-trailing-backslash', "start = 'a\\' ;\n"))
    A(('escape-unknown-name', "start = '\\N{nope}' ;\n"))
    A(('escape-bad-hex4', 'start = "\\uzzzz" ;\n'))
    A(('escape-bad-hex2', "start = 'a\\xzzb' ;\n"))
    A(('escape-beyond-unicode', "start = '\\U00110000' ;\n"))
    A(('escape-in-keyword', "@@keyword :: '\\N{nope}'\nstart = 'a' ;\n"))
    A(('regex-trailing-backslash', "start = /a\\/ ;\n"))
    A(('multiline-string', "start = '''a\nb''' ;\n"))
    A(('keyword-as-rule', "@@keyword :: start\nstart = 'a' ;\n"))
    A(('long-token', "start = '" + 'a' * 3000 + "' ;\n"))
    A(('many-options', "start = " + ' | '.join(f"'{k}'" for k in range(300)) + " ;\n"))
    return out


_TEMPLATES = None


def gram_templates():
    global _TEMPLATES
    if _TEMPLATES is None:
        _TEMPLATES = templates()
    return _TEMPLATES


def decorate(rng, g):
    """directives, keywords, params, decorators on a generated grammar so the printed text covers the header syntax"""
    rules = []
    for r in g.rules:
        dec = ()
        params = ()
        kw = ()
        q = rng.random()
        if q < 0.12:
            dec = (rng.choice(['name', 'nomemo', 'override']),) if q < 0.1 else ('name', 'nomemo')
        if rng.random() < 0.12:
            params = (rng.choice(['T', 'Node', 'int']),)
        if rng.random() < 0.06:
            kw = (('k', rng.choice(['v', 1])),)
        rules.append(L.Rule(r.name, r.body, dec if 'override' not in dec else (), params, kw))
    d = {}
    for k, v in (('whitespace', r'[ \t]+'), ('nameguard', 'False'), ('ignorecase', 'True'), ('left_recursion', 'False'),
                 ('parseinfo', 'True'), ('eol_comments', r'#[^\n]*'), ('comments', r'\(\*.*?\*\)'), ('namechars', '-_'),
                 ('grammar', 'Gen')):
        if rng.random() < 0.1:
            d[k] = v
    kws = tuple(rng.sample(['a', 'b', 'if', 'c'], 2)) if rng.random() < 0.15 else ()
    return L.Grammar(rules, d, kws)


def gram_text(rng, i, tier, shard=0):
    """-> (text, origin label, mutation ops)"""
    r = i % 20
    ops = []
    if r < 2:
        tpls = gram_templates()
        name, text = tpls[(shard * 19 + i // 20 * 2 + r) % len(tpls)] if rng.random() < 0.7 else rng.choice(tpls)
        origin = 'template:' + (name if name.startswith('nonrec:') else name.split(':')[0])
        nmut = rng.choice([0, 0, 0, 1])
    elif r < 5 and shipped():
        files = shipped()
        name, src = files[(shard + i // 20 + r) % len(files)]
        whole = len(src) < 1000 or (i % (400 if tier == 'quick' else 1200) == 2)
        if whole:
            text = src
            origin = 'shipped:' + name
        else:
            blocks = O.rule_blocks(src)
            k = rng.choice([1, 2, 3, 5])
            a = rng.randrange(len(blocks))
            text = '\n\n'.join(blocks[a:a + k]) + '\n'
            origin = 'shipped-slice:' + name
        nmut = rng.choice([0, 1, 1, 2, 3])
    else:
        F = dict(G.FEATURES)
        F['cut'] = rng.random() < 0.3
        g = G.gen_grammar(rng, F, max_rules=5 if rng.random() < 0.3 else 3, pats=list(G.PATS))
        g = L.Grammar([L.Rule(x.name, inject(rng, x.body, 0.1, 0.03)) for x in g.rules])
        g = decorate(rng, g)
        text = L.grammar_text(g)
        origin = 'printed'
        nmut = rng.choice([0, 1, 1, 1, 2, 2, 3])
    for _ in range(nmut):
        if rng.random() < 0.5:
            text, op = O.mutate_chars(rng, text)
        else:
            text, op = O.mutate_tokens(rng, text)
        ops.append(op)
    if rng.random() < 0.45 and len(text) < 3000:
        text = text + '\n' * 40
        ops.append('pad-blank-lines')
    return text, origin, ops


def compile_budget(n):
    want = 100 * (n + 1) + 8000
    return (want, True) if want <= CAP_COMPILE else (max(CAP_COMPILE, 12 * (n + 1) + 4000), False)


def do_compile(text, budget, **settings):
    import tatsu
    heart = StepHeart(budget)
    try:
        with O.watchdog(WATCHDOG_S):
            return 'ok', tatsu.compile(text, heart=heart, **settings), heart
    except BaseException as e:  # noqa: BLE001 - the class is the observation
        if isinstance(e, (KeyboardInterrupt, SystemExit)):
            raise
        return 'exc', e, heart


def observe_compile(text, settings):
    """-> (outcome class, [(sig, what)], stats, model|None)"""
    from tatsu.exceptions import FailedParse, HeartDied
    budget, decisive = compile_budget(len(text))
    tag, res, heart = do_compile(text, budget, **settings)
    st = {'polls': heart.calls, 'decisive': decisive, 'pos_kind': None, 'renders': 0, 'judged': False, 'cursor_text_differs': False}
    if tag == 'ok':
        return 'ok', [], st, res
    e = res
    cls = O.class_name(e)
    if isinstance(e, O.Watchdog):
        fn = O.innermost_tatsu_function(e)
        series = superlinear_series(text, settings)
        if series is not None:
            return 'Watchdog(confirmed)', [(f'hang:superlinear@{fn}/{O.innermost_boot_rule(e)}',
                                            f'tatsu.compile of a grammar text of {len(text)} chars did not return within '
                                            f'{WATCHDOG_S}s of CPU (only {heart.calls} rule invocations; inside {fn}); CPU seconds '
                                            f'for the same text cut 1 character shorter each time, shortest first: {series} '
                                            f'(grows >= 1.35x per character: exponential)')], st, None
        return 'Watchdog', [], st, None
    if isinstance(e, FailedParse):
        seen = getattr(getattr(e, 'cursor', None), 'textstr', text)
        if seen != text:
            st['cursor_text_differs'] = True     # preprocessing rewrote the text: positions refer to another string
            seen_text = seen if isinstance(seen, str) else text
        else:
            seen_text = text
        problems, fst = O.judge_failure(e, seen_text)
        st.update(pos_kind=fst['pos_kind'], renders=fst['renders'], judged=True)
        return cls, problems, st, None
    if isinstance(e, HeartDied):
        if not decisive:
            return 'HeartDied(cap)', [], st, None
        # mechanism: does unrestricted memoization bring the same text within the budget?
        big = 1500 * (len(text) + 1) + 5000
        tag2, res2, heart2 = do_compile(text, big, perlinememos=10 ** 6, **settings)
        died2 = tag2 == 'exc' and isinstance(res2, HeartDied)
        if not died2 and heart2.calls * 8 <= budget:
            return cls, [('hang:memo-starved',
                          f'compiling a grammar text of {len(text)} chars / {text.count(chr(10)) + 1} lines with bracket '
                          f'nesting {O.nesting_depth(text)} needs more than {budget} rule invocations; with '
                          f'perlinememos=10**6 it needs {heart2.calls}: the memo cache is bounded by 8 x line count and '
                          f'the work doubles per nesting level')], st, None
        if died2:
            return cls, [('hang:step-budget:compile', f'compiling a grammar text of {len(text)} chars needs more than '
                                                      f'{big} rule invocations even with unrestricted memoization')], st, None
        return 'HeartDied(slow-inconclusive)', [], st, None
    if O.is_tatsu_exception(e):
        problems = []
        try:
            s = str(e)
            st['renders'] += 1
            if not isinstance(s, str):
                problems.append((f'failure:str:not-a-string', f'str({cls}) returned {type(s).__name__}'))
        except Exception as x:  # noqa: BLE001
            problems.append((f'failure:str:{O.escape_sig(x)}', f'str() of {cls} raised {type(x).__name__}: {x}'))
        return cls, problems, st, None
    return cls, [(O.escape_sig(e), f'tatsu.compile raised {cls}: {str(e)[:120]} (in {O.innermost_tatsu_function(e)})')], st, None


def superlinear_series(text, settings, per_try=1.5, max_cut=48):
    """growth experiment after a CPU watchdog: CPU time of compiling the text cut 1..max_cut characters shorter.
    -> the rounded series (shortest first) when the time above the ordinary compile cost grows >= 1.35x in each of >= 4
    consecutive steps and every longer cut runs out of `per_try`; None when that cannot be established (the
    watchdog event then stays inconclusive)"""
    import time
    import tatsu
    times = []          # index j-1 <-> text[:-j]
    for j in range(1, min(max_cut, len(text)) + 1):
        t = text[:len(text) - j]
        t0 = time.process_time()
        try:
            with O.watchdog(per_try):
                tatsu.compile(t, **settings)
            dt = time.process_time() - t0
        except O.Watchdog:
            dt = None
        except BaseException as e:  # noqa: BLE001
            if isinstance(e, (KeyboardInterrupt, SystemExit)):
                raise
            dt = time.process_time() - t0
        times.append(dt)
    # from the shortest text (last measured) to the longest
    seq = list(reversed(times))
    measured = [x for x in seq if x is not None]
    k = len(measured)
    if seq[:k] != measured or k < 5:        # all timeouts must be at the long end
        return None
    base = min(measured)                    # the cost of an ordinary compile of this text
    best = 0
    for stride in (1, 2):                   # stride 2: the repeated unit is two characters (an escape pair)
        for off in range(stride):
            sub = measured[off::stride]
            run = 0
            for a, b in zip(sub, sub[1:]):
                if a - base >= 0.03:
                    if b - base >= 1.35 ** stride * (a - base):
                        run += 1
                        best = max(best, run)
                    else:
                        run = 0
    if best < 4:
        return None
    return [round(x, 2) for x in measured] + ['>%gs' % per_try] * (len(seq) - k)


FOLLOWUP_TEXTS = ['', 'a', 'a b', '+', 'a\r\nb', '\x00', 'true 1 x', '1.+5', 'a' * 50, '\x85a', 'a,a', 'b b c', 'x y',
                  '{m} {n}', '{n}{n} a']


def followup(acc, model, gtext, rng, origin, texts=None):
    """a compiled survivor parses two texts: only the exception class and the failure's own consistency are judged"""
    from tatsu.exceptions import FailedParse, HeartDied
    for text in (texts if texts is not None else (None, None)):
        if text is None:
            text = rng.choice(FOLLOWUP_TEXTS) if rng.random() < 0.6 else O.hostile_text(rng, 'a')[0][:200]
        heart = StepHeart(6000)
        pi = rng.random() < 0.5
        acc.evaluations += 1
        acc.count('gr_followup_parses')
        try:
            # the mutated grammar may be recursive: no static bound, so a fixed logical budget (not judged when exceeded)
            inp = O.counting_text_class()(text, 8000, config=model.config)
            clock = inp.vt_clock
            with O.watchdog(WATCHDOG_S), O.stall_clock(lambda: heart.calls + clock[0], STALL_LIMIT):
                model.parse(inp, heart=heart, parseinfo=pi)
            acc.count('gr_followup:ok')
            continue
        except BaseException as e:  # noqa: BLE001
            if isinstance(e, (KeyboardInterrupt, SystemExit)):
                raise
            exc = e
        cls = O.class_name(exc)
        acc.count('gr_followup:' + cls)
        problems = []
        if isinstance(exc, FailedParse):
            problems, fst = O.judge_failure(exc, text)
            acc.count('render_calls', fst['renders'])
            acc.count('gr_followup_failures_judged')
        elif isinstance(exc, O.Stalled):
            problems = [('hang:no-progress-of-either-logical-clock',
                         f'more than {STALL_LIMIT} Python function calls while neither the rule-invocation clock nor the '
                         f'cursor-operation clock advanced')]
        elif isinstance(exc, (HeartDied, RecursionError)) and 'nonrec' not in str(origin):
            acc.count('gr_followup_recursion_or_budget(C03/C16 domain)')
        elif isinstance(exc, (O.Watchdog, O.StepsExceeded, HeartDied, RecursionError)) and 'nonrec' in str(origin):
            problems = [('hang:followup-of-nonrecursive-template', f'a parse with a non-recursive grammar exceeded its budget ({cls})')]
        elif isinstance(exc, (O.Watchdog, O.StepsExceeded)):
            acc.count('gr_followup_budget(possibly recursive grammar: not judged)')
        elif O.is_tatsu_exception(exc):
            problems = [(f'exc:tatsu-not-a-parse-failure:{cls}', f'input parse with a compiled grammar raised {cls}: '
                                                                  f'{str(exc)[:120]}')]
        else:
            problems = [(O.escape_sig(exc), f'parse with a compiled mutated grammar raised {cls}: {str(exc)[:120]} '
                                            f'(in {O.innermost_tatsu_function(exc)})')]
        for sig, what in problems:
            acc.violation(sig, f'{what}; grammar text {short(gtext, 200)!r} input {short(text)!r} parseinfo={pi}',
                          {'kind': 'followup', 'grammar_text': gtext, 'text': text, 'parseinfo': pi, 'origin': origin})


def check_grammar_text(acc, text, origin, ops, rng, do_followup=True):
    settings = {}
    cls, problems, st, model = observe_compile(text, settings)
    acc.evaluations += 1
    acc.count('gr_texts')
    acc.count('gr_table:compile:' + cls)
    label = origin['label']
    head = label.split(':')[0]
    acc.count('gr_origin:' + head)
    if head == 'template':
        acc.count('gr_templates')
    if head.startswith('shipped'):
        acc.count('gr_shipped')
    kinds = {o.split('-')[0] for o in ops}
    for k in kinds & {'char', 'token'}:
        acc.count('gr_mut:' + k)
    for o in ops:
        acc.count('gr_op:' + o)
    if not ops:
        acc.count('gr_unmutated')
    acc.count('gr_budget_decisive' if st['decisive'] else 'gr_budget_capped')
    acc.peak('max_polls_compile', st['polls'])
    if cls == 'ok':
        acc.count('gr_compiled')
        acc.peak('max_poll_ratio_compile_x100', int(100 * st['polls'] / (len(text) + 1)))
    elif cls.startswith('HeartDied('):
        acc.count('gr_' + cls)
    elif cls == 'Watchdog':
        acc.count('watchdog_fired')
        acc.note(f'CPU-time watchdog ({WATCHDOG_S}s) fired in tatsu.compile of {short(text, 200)!r}')
    elif cls == 'Watchdog(confirmed)':
        acc.count('gr_watchdog_confirmed_superlinear')
    else:
        acc.count('gr_rejected')
    if st['cursor_text_differs']:
        acc.count('gr_failure_refers_to_preprocessed_text')
    if st['judged']:
        acc.count('gr_rejected_failure_judged')
        acc.count('render_calls', st['renders'])
        if st['pos_kind']:
            acc.count('gr_fail_pos:' + st['pos_kind'])
        acc.nontriv('gr', text)
    elif cls not in ('ok', 'Watchdog', 'Watchdog(confirmed)') and not cls.startswith('HeartDied'):
        acc.count('render_calls', st['renders'])
    for sig, what in problems:
        t2 = text
        if acc.counters.get('violations:' + sig, 0) < 2 and not sig.startswith('hang:') and len(text) < 1500:
            t2 = shrink_text(text, sig)
        wit = {'kind': 'compile', 'text': t2, 'origin': origin, 'ops': ops}
        if t2 != text:
            wit['original'] = text
        acc.violation(sig, f'{what}; grammar text {short(t2, 240)!r}', wit)
    if model is not None and do_followup and len(text) < 1200:
        followup(acc, model, text, rng, origin)
    return model


def shrink_text(text, sig):
    """greedy chunk deletion keeping the same signature"""
    def bad(t):
        _c, probs, _st, _m = observe_compile(t, {})
        return any(p[0] == sig for p in probs)

    cur = text
    budget = 40
    size = max(1, len(cur) // 2)
    while size >= 1 and budget > 0:
        i = 0
        progressed = False
        while i < len(cur) and budget > 0:
            cand = cur[:i] + cur[i + size:]
            budget -= 1
            if cand != cur and bad(cand):
                cur = cand
                progressed = True
            else:
                i += size
        if not progressed:
            size //= 2
    return cur


def pinned():
    """[(name, grammar text, follow-up input texts)] - run unmutated, once each, in every run (shard = index mod shards).
    Each comes from a defect met on an earlier tree; the follow-up texts are parsed with the compiled grammar."""
    bs = '\\'
    interp = "start = n:/(?s).*/ v:`{n}` ;\n"
    return [
        # never-closed strings / regexes whose backslashes an ambiguous pattern can split in 2^n ways
        ('unterminated-string-escaped-backslashes', "start = '" + bs * 2 * 24 + " ;\n", []),
        ('unterminated-dqstring-escaped-quotes', 'start = "' + (bs + '"') * 40 + " ;\n", []),
        ('unterminated-multiline-string-escapes', "start = '''" + (bs + 'a') * 36 + " ;\n", []),
        ('unterminated-multiline-dqstring-escapes', 'start = """' + bs * 2 * 36 + " ;\n", []),
        ('unterminated-regex-escaped-slashes', "start = /" + (bs + '/') * 36 + " ;\n", []),
        ('unterminated-old-regex-escaped-slashes', "start = ?/" + (bs + '/') * 36 + " ;\n", []),
        # verbose patterns: a line break ends a comment
        ('verbose-pattern-comment-in-group', "start = /(?x)( # c\n a)/ $ ;\n", ['a', 'b', '']),
        ('verbose-pattern-comment', "start = /(?x)a # c\n b/ $ ;\n", ['ab', 'a']),
        ('verbose-whitespace-comment', "@@whitespace :: /(?x)( # c\n [ ])*/\nstart = 'a' 'b' $ ;\n", ['a b', 'ab']),
        # constants: well-formed text that is not a literal value
        ('const-unhashable-key', "start = `{[1]: 2}` ;\n", ['']),
        ('const-set-in-set', "start = `{{1}}` 'a' ;\n", ['a']),
        ('const-deep-unary', "start = a:/\\d+/ i:`" + '-' * 3000 + "1` $ ;\n", ['42']),
        ('const-deep-not', "start = a:/\\d+/ i:`" + 'not ' * 3000 + "a` $ ;\n", ['42']),
        ('nonrec:const-interpolates-hostile', interp, ['{[1]: 2}', '{{1}}', '-' * 5000 + '1', '(' * 400 + '1' + ')' * 400,
                                                        'not ' * 3000 + '1', '9' * 5000, '[' * 3000, '{' * 50 + '}' * 50,
                                                        "'" + bs * 30, '1e99999', '0x' + 'f' * 5000]),
        # lone surrogates are text too
        ('surrogate-in-token', "start = 'a\ud800' ;\n", ['a\ud800', 'a']),
        ('surrogate-in-pattern', "start = /\udc00+/ ;\n", ['\udc00\udc00', 'a']),
        ('surrogate-in-comment', "# \udfff\nstart = 'a' ;\n", ['a']),
        ('surrogate-in-directive', "@@whitespace :: /\ud800/\nstart = 'a' 'b' ;\n", ['a\ud800b']),
        ('surrogate-in-constant', "start = `\ud800` ;\n", ['']),
        ('surrogate-at-end', "start = 'a' ;\ud800", []),
    ]


def hang_probe_text(depth, br='()'):
    return 'start = ' + br[0] * depth + "'a'" + br[1] * depth + ' ;'


def run_grammars(desc, acc):
    sampled = 0
    for i in range(desc['n_gr']):
        rng = random.Random(h64('C08', 'gr', desc['seed'], desc['shard'], i))
        text, label, ops = gram_text(rng, i, desc['tier'], desc['shard'])
        origin = {'mode': 'grammars', 'shard': desc['shard'], 'i': i, 'label': label}
        check_grammar_text(acc, text, origin, ops, rng)
        if sampled < 2 and ops and label == 'printed' and len(text) < 300:
            sampled += 1
            acc.sample({'part': 'grammars', 'origin': label, 'ops': ops, 'text': text})
    pins = pinned()
    for k, (name, text, texts) in enumerate(pins):
        if k % desc['of'] != desc['shard']:
            continue
        acc.count('gr_pinned')
        origin = {'mode': 'grammars', 'shard': desc['shard'], 'i': -10 - k, 'label': 'template:' + name}
        model = check_grammar_text(acc, text, origin, [], random.Random(0), do_followup=False)
        if model is not None:
            for t in texts:
                followup(acc, model, text, random.Random(0), origin, texts=[t])
    if desc['shard'] in (1, 2) or (desc['tier'] == 'thorough' and desc['shard'] % 16 in (1, 2)):
        # bracket nesting on one line: packrat memoization is what keeps this linear
        text = hang_probe_text(9 + desc['shard'] // 16, '()' if desc['shard'] % 16 == 1 else '{}')
        acc.count('gr_nesting_probe')
        check_grammar_text(acc, text, {'mode': 'grammars', 'shard': desc['shard'], 'i': -1,
                                       'label': 'template:nesting-one-line'}, [], random.Random(0), do_followup=False)
    if desc['tier'] == 'thorough' and desc['shard'] % 32 == 3:
        # an unterminated ```constant followed by blank lines (costs ~1 minute of CPU: thorough only)
        acc.count('gr_unterminated_constant_probe')
        check_grammar_text(acc, 'start = ```x ;' + '\n' * 45, {'mode': 'grammars', 'shard': desc['shard'], 'i': -2,
                                                               'label': 'template:unterminated-multiline-constant'}, [],
                           random.Random(0), do_followup=False)


# ======================================================================================= replay
def replay(w, acc):
    kind = w.get('kind')
    if kind == 'input':
        g = L.from_json(w['grammar'])
        v = w['variant']
        case = InCase(g, w.get('route', 'object'), want_generated=v['parser'] == 'generated')
        if case.build_exc is not None:
            build_violation(acc, case, {'mode': 'replay'})
            return
        check_input(acc, case, w['text'], v, set(), {'mode': 'replay'}, shrink=False)
    elif kind == 'reentrant':
        case = InCase(L.from_json(w['grammar']), w.get('route', 'object'), want_generated=w.get('want_generated', False))
        if case.build_exc is None:
            check_reentrant(acc, case, w['text'], w.get('others', []), {'mode': 'replay'})
    elif kind == 'build':
        case = InCase(L.from_json(w['grammar']), w.get('route', 'object'))
        if case.build_exc is not None:
            build_violation(acc, case, {'mode': 'replay'})
    elif kind == 'compile':
        cls, problems, _st, _m = observe_compile(w['text'], {})
        acc.evaluations += 1
        for sig, what in problems:
            acc.violation(sig, f"{what}; grammar text {short(w['text'], 240)!r}", w)
    elif kind == 'followup':
        import tatsu
        from tatsu.exceptions import FailedParse
        try:
            model = tatsu.compile(w['grammar_text'])
            model.parse(w['text'], heart=StepHeart(6000), parseinfo=w.get('parseinfo', False))
        except FailedParse as e:
            for sig, what in O.judge_failure(e, w['text'])[0]:
                acc.violation(sig, what, w)
        except Exception as e:  # noqa: BLE001
            if not O.is_tatsu_exception(e) and not isinstance(e, RecursionError):
                acc.violation(O.escape_sig(e), f'raised {O.class_name(e)}: {str(e)[:120]}', w)
    else:
        acc.note(f'replay: unknown witness kind {kind!r}')


MANIFEST = {
    'technique': 'runtime monitoring: exception-class monitor at the API boundary (compile / parse / model.parse / generated '
                 'parser), independent line-splitter oracle for the position and info of every reported failure, rendering '
                 'probe, logical step budget through the public heart= protocol',
    'level_text': 'every execution of the real entry points over seeded hostile workloads is observed at the boundary: the class '
                  'of whatever escapes is judged (TatSu parse failure / grammar error vs anything else, signature = class @ '
                  'innermost tatsu function), every FailedParse is checked for 0<=pos<=len, info agreeing with pos under an '
                  'independent splitter, and str()/render(Color.never()) returning a string; termination is a step budget '
                  '(static no-memo bounds on rule invocations and, through a counting input, on cursor operations for acyclic grammars; '
                  '100 polls/char + 8000 for grammar text, mechanism-classified by a re-run '
                  'with unrestricted memoization). exploration is the right level: grammars x unicode texts and near-grammar '
                  'strings are unbounded spaces',
    'level_note': 'trusted: vt/monitors/c08_oracle.py (splitter, bound), python traceback for the signature. Not decided: '
                  'semantic wrongness of results, texts whose step bound exceeds the cap (counted), recursion/budget in '
                  'follow-up parses of mutated grammars (C03/C16), API misuse (unknown start rule, bad settings). held = no '
                  'unlisted escape/inconsistency on the executions listed in the evidence, not a proof',
}
