"""C17 - constant expressions in grammars are evaluated in a sandbox.

Oracle: interpreter-level monitors (vt/monitors/sandbox.py) around every call into the real
evaluator: the audit hook (effects), PEP 669 CALL/INSTRUCTION events restricted to the code
objects the evaluator executes for the expression (callables, name reads, attribute ops), a
probe value (dunder lookups from C code) and a recording stdout.  Plus value transparency of
safe expressions against plain Python, and a few unmonitored child processes as ground truth.
Shard mode `reach`: the live objects TatSu binds in the AST (AST/Node -> parseinfo -> cursor -> input ->
configuration -> semantics ...) are walked along every attribute name the evaluator's checker lets through,
and every reached object is read, called and iterated by an expression evaluated through a real parse.
Look-alike names (value transparency): rules bind nested ASTs (r, r.sub) and top-level names whose field names start
like, end like, contain or are contained in a name a sandbox has reasons to deny (f_name, co_author, tb_1, formatter,
open_, class_, x__y ...); safe expressions read them with attribute syntax, by subscript and as plain names, bare, inside
calls of pure builtins / methods / operators and inside `{...}` interpolation, through the four routes and through
is_eval_safe/safe_eval as a client calls them; the value is the one plain Python gives and is_eval_safe says True.
DESIGN.md section 3/C17.
"""
from __future__ import annotations

import ast as pyast
import builtins
import io
import os
import random
import signal
import subprocess
import sys
import warnings

from .. import lang as L
from ..common import REPO, VERIF, h64
from ..monitors import sandbox as S
from ..monitors import sandbox_exprs as X

ID = 'C17'
LEVEL = 'exploration'
RULE = ('cases = (expression text, extra AST bindings, route); routes: eval = tatsu.util.safeeval.is_eval_safe + safe_eval with '
        'safe_builtins() | AST names; const = `expr` in a rule evaluated by a real parse (object route; every 16th case also '
        'through tatsu.compile of the grammar text); alert = ^`expr`; input = the expression is the INPUT text, bound to a name '
        'and interpolated by `{e}` (constant() re-evaluates string results). Expressions: finite sweep = every name in '
        'vars(builtins) x 27 argument lists x 14 placements (bare, subscripted, as key=, in f-strings, in comprehensions, '
        'interpolated); random = attribute chains with/without dunders, 90 composers (comprehensions, lambdas, walrus, starred '
        'calls, nested f-strings, interpolation braces, layout) over safe/risky atoms to depth 3, string-built expression '
        'texts, AST keys shadowing builtins, str.format field traversals; T = typed safe expressions with known value (AST text also beyond '
        'ASCII/Latin-1/BMP); nfkc = cases of every family with identifiers (dunder chains, builtin and method names, shadowed '
        'keys) re-spelled in NFKC-equivalent code points (fullwidth, mathematical, modifier/sub/superscript letters, roman '
        'numerals, ligatures, U+FF3F/FE33/FE4D.. low lines; all identifiers, one, all but one; never two adjacent ASCII '
        'underscores in a re-spelled name), value compared with the ASCII spelling. '
        'reach = attribute-reachability sweep: for (input str | Buffer | TextLines) x (parseinfo off | on) x (plain AST | '
        'asmodel with a typed rule) [+ the same grammar through tatsu.compile] the names bound when the constant is evaluated '
        '(a rule result, a typed Node, a closure, a group, the value of an @: override, a constant) are taken from the '
        "expression's own frame; breadth-first walk from every bound value along the attribute names not starting with '__' "
        "and into items ([0], ['key']), de-duplicated on (type, attribute), to the depth where nothing new appears; every "
        'reached object is read, every callable called with 11 argument lists around an existing scratch file and a missing '
        'path (+ lists of its own arity), iterables are measured/sorted/iterated; each such expression arrives as INPUT text '
        'of one model per configuration (const placement, every 8th also as alert) and is judged like any other case. '
        'shadow-scope = finite: 24 forbidden builtin names bound as AST keys x 10 forms that read the name in a nested '
        'scope (element / condition of a generator expression, lambda body handed to sorted/max/min as key=), through '
        'the four routes; '
        'look = look-alike names: vocabulary = for every introspection attribute of generator/coroutine/async-generator/frame/'
        'traceback/code objects of the running interpreter, format/format_map/mro, the dunders used above, every lower-case '
        'builtin name and 5 exception names: the name with a suffix (_, s, 2, __, __y, _name), a prefix (_, my_), both, '
        'capitalised, chopped, same prefix before the first underscore (f_name, co_author, tb_1), plus ordinary names '
        '(not a denied name itself, not a dict attribute, not starting with __); each name is bound to a str, int or list '
        'in a nested AST r (rule rec), in r.sub and at the top level of the current AST, with different values; complete: '
        'every name x (r.X bare, in one use of its type, in one template; r[\'X\'], X, r.sub.X, r[\'sub\'].X, r.sub[\'X\'] '
        'in one of the three) through is_eval_safe + safe_eval called directly with the AST the real parser builds (no '
        'monitors) and every name once through a real parse with attribute syntax (const | alert | input | const-text '
        'by hash of seed and name, under the monitors); random: name x access x (bare | 11 templates | uses of the value), '
        'a third with a second look-alike field read its own way, through the four routes; oracle = the transparency '
        'oracle of T (plain Python over the same names, harness-side dict-with-attributes as r) and is_eval_safe is True. '
        'non-trivial = the evaluator executed at least one code object for the expression under the monitors; distinct by '
        '(route, expression, bindings)')
ASSUMPTIONS = [
    'forbidden builtins are fixed from the clauses of the statement (vt/monitors/sandbox.py FORBIDDEN_WHY): open, __import__, '
    'eval, exec, compile, breakpoint, __build_class__, input, help, license, exit, quit, getattr/setattr/delattr/hasattr, vars, dir, '
    'globals, locals, type, object, super, print, copyright, credits and dunder-named builtins; every other builtin is not judged',
    'PURE = abs all any ascii bin chr divmod format hex len max min oct ord pow repr round sorted sum are the pure builtin '
    'functions a safe expression may use; value transparency is asserted only for expressions over these, AST names, literals, '
    'operators, subscripts, comprehensions over AST names and methods of str/int/list values',
    'an effect is attributed to the expression iff a frame of a code object the evaluator executed for it (or of code nested in / '
    'exec-ed by it) is on the Python stack when the audit event fires; effects are blocked after being recorded',
    'generator/frame introspection attributes (gi_frame, f_globals...) are not dunder attributes: counted, not judged',
    'the import of a submodule of the stdlib package encodings made by the interpreter\'s own codec lookup (str.encode(name), '
    'bytes.decode(name)) is not an import performed by the expression: counted (expr_audit_unjudged:import:codec-lookup), not judged',
    'a non-ParseException exception escaping model.parse from a constant (TypeError from ast.literal_eval of `{[1]: 2}`) is '
    'counted, not judged; SystemExit/KeyboardInterrupt escaping is judged (exits the process)',
    'look-alike names: a field name that is not itself an introspection attribute, format/format_map, a dunder (or any name '
    'starting with __) or a builtin name is an ordinary name bound in the AST, whatever it starts or ends with; reading it '
    '(attribute, subscript, plain name) and using the value with pure builtins, methods of str/int/list, operators and list '
    'comprehensions over bound names is a safe expression; names that are attributes of dict (stored by the AST under '
    'another key) are left out; expressions with braces of their own (f-strings) are not part of this class on the '
    'parser routes (a constant is an interpolation template first)',
    'string results that constant() would evaluate again are compared only when plain Python says the re-evaluation is inert '
    '(not a literal, and either not an expression or one with an unbound name)',
    'reach: a callable reached as an attribute of an AST value (method, static method, class kept in a field) is a method of '
    'a value, not a name outside the set: calling it is counted, the audit effects it causes below the expression frame '
    '(open, import, exec, compile, os.*, subprocess.*, socket.* ...) are judged; sys._getframe*/object.__getattr__/gc.* events '
    'raised by library or package code below the frame are introspection by that code: counted (reach_unjudged:*), not '
    'blocked, not judged; calls that move or rewrite parser state (cursor, input text, configuration, registries) are not '
    'judged; quick tier: a mechanism (chain of type.attribute, action) reached in several configurations is evaluated in '
    'one of them (chosen by hash), thorough: in all',
]
EXHAUSTIVE = {
    'quick': f'every name in vars(builtins) ({len(X.BUILTIN_NAMES)}) x {len(X.CALL_ARGS)} argument lists and x '
             f'{len(X.PLACEMENTS)} placements, each through the 4 routes',
    'thorough': f'every name in vars(builtins) ({len(X.BUILTIN_NAMES)}) x {len(X.CALL_ARGS)} argument lists and x '
                f'{len(X.PLACEMENTS)} placements, each through the 4 routes',
}
FLOORS = {
    'quick': {'evaluations': 30000, 'distinct_nontrivial': 9000, 'roots_executed': 35000, 'call_events': 7000,
              'name_reads': 18000, 'instructions_observed': 100000, 'builtins_swept': len(X.BUILTIN_NAMES),
              'sweep_cases': len(X.BUILTIN_NAMES) * (len(X.CALL_ARGS) + len(X.PLACEMENTS)),
              'route:eval': 8000, 'route:const': 8000, 'route:alert': 8000, 'route:input': 8000, 'route:const-text': 400,
              'transparency_compared': 4000, 'rejected_outcome_checked': 5000, 'child_runs': 10,
              'child_control_ok': 1, 'kind:attr': 1000, 'kind:compose': 2000, 'kind:strbuild': 800, 'kind:shadow': 600,
              'kind:fmt': 400, 'nfkc_variants': 1200, 'nfkc_builtins_swept': len(X.BUILTIN_NAMES),
              'nfkc_dunder_without_ascii_pair': 200, 'nfkc_touching_evaluations': 900, 'nfkc_transparency_compared': 500,
              'scope_shadow_cases': len(X.SCOPE_SHADOWED) * len(X.SCOPE_FORMS), 'kind:shadow-scope': 900,
              'look_names_swept': len(X.LOOK_VOCAB), 'look_direct_checked': 8 * len(X.LOOK_VOCAB),
              'look_direct_safe_true': 8 * len(X.LOOK_VOCAB), 'look_direct_value_equal': 8 * len(X.LOOK_VOCAB),
              'look_direct_access:attr': 3 * len(X.LOOK_VOCAB), 'look_direct_access:sub': len(X.LOOK_VOCAB),
              'look_direct_access:top': len(X.LOOK_VOCAB), 'look_direct_access:nested-attr': len(X.LOOK_VOCAB),
              'look_direct_use:template': 2 * len(X.LOOK_VOCAB), 'look_cases': 450, 'look_transparency_compared': 2600,
              'look_compared:eval': 400, 'look_compared:const': 600, 'look_compared:alert': 600, 'look_compared:input': 400,
              'look_compared:const-text': 200, 'look_compared_access:attr': 1000, 'look_compared_access:nested-attr': 400,
              'look_compared_access:sub-attr': 400, 'look_compared_access:sub': 60, 'look_compared_access:top': 60,
              'look_compared_use:template': 600, 'look_compared_use:call': 500, 'look_is_eval_safe_true': 400,
              # reach: what a tree that binds nothing but plain values would still give (the floors must not need the defect)
              'reach_configurations': 14, 'reach_objects': 1400, 'reach_types': 110, 'reach_paths_generated': 12000,
              'reach_mechanisms': 800, 'reach_evaluations': 800, 'reach_callables_called': 70, 'reach_calls': 800,
              'reach_calls_executed': 400, 'route:reach-const': 900, 'route:reach-alert': 100, 'reach_control_ok': 14,
              'reach_attribution_control_ok': 4},
    'thorough': {'evaluations': 330000, 'distinct_nontrivial': 110000, 'roots_executed': 600000, 'call_events': 150000,
                 'name_reads': 350000, 'builtins_swept': len(X.BUILTIN_NAMES),
                 'sweep_cases': len(X.BUILTIN_NAMES) * (len(X.CALL_ARGS) + len(X.PLACEMENTS)),
                 'route:const-text': 5000, 'transparency_compared': 80000, 'rejected_outcome_checked': 40000,
                 'child_runs': 10, 'child_control_ok': 1, 'nfkc_variants': 24000,
                 'nfkc_builtins_swept': len(X.BUILTIN_NAMES), 'nfkc_dunder_without_ascii_pair': 5000,
                 'nfkc_touching_evaluations': 22000, 'nfkc_transparency_compared': 12000,
                 'scope_shadow_cases': len(X.SCOPE_SHADOWED) * len(X.SCOPE_FORMS), 'kind:shadow-scope': 900,
                 'look_names_swept': len(X.LOOK_VOCAB), 'look_direct_checked': 8 * len(X.LOOK_VOCAB),
                 'look_direct_safe_true': 8 * len(X.LOOK_VOCAB), 'look_direct_value_equal': 8 * len(X.LOOK_VOCAB),
                 'look_direct_access:attr': 3 * len(X.LOOK_VOCAB), 'look_cases': 23900, 'look_transparency_compared': 60000,
                 'look_compared:eval': 18000, 'look_compared:const': 18000, 'look_compared:alert': 18000,
                 'look_compared:input': 10000, 'look_compared_access:attr': 25000, 'look_compared_use:template': 15000,
                 'look_is_eval_safe_true': 20000,
                 'reach_configurations': 18, 'reach_objects': 1800, 'reach_types': 140, 'reach_paths_generated': 40000,
                 'reach_mechanisms': 2500, 'reach_evaluations': 60000, 'reach_callables_called': 1000, 'reach_calls': 50000,
                 'reach_calls_executed': 45000, 'route:reach-const': 30000, 'route:reach-alert': 30000,
                 'reach_control_ok': 18, 'reach_attribution_control_ok': 16},
}
PEAK_COUNTERS = ('reach_depth_max',)
SHARD_TIMEOUT = {'quick': 900, 'thorough': 5400}

N_RANDOM = {'quick': 2400, 'thorough': 120000}
N_T = {'quick': 1600, 'thorough': 40000}
N_NFKC = {'quick': 1800, 'thorough': 45000}
N_LOOK = {'quick': 450, 'thorough': 24000}
N_SHARDS = {'quick': 15, 'thorough': 47}
TEXT_EVERY = 16
ROUTES = ('eval', 'const', 'alert', 'input')
BASE_NAMES = ('a', 'n', 't', 'p')
WATCHDOG_S = 2          # CPU seconds of this process (ITIMER_VIRTUAL); a normal evaluation takes ~5 ms
WATCHDOG_REPEAT_S = 0.25
INPUT_NAME = 'src_'
REC_NAME = 'r'
N_REACH_SHARDS = {'quick': 4, 'thorough': 16}


def plan(tier, seed):
    k = N_SHARDS[tier]
    shards = [{'mode': 'mix', 'seed': seed, 'shard': i, 'of': k, 'n_random': N_RANDOM[tier] // k,
               'n_t': N_T[tier] // k, 'n_nfkc': N_NFKC[tier] // k, 'n_look': N_LOOK[tier] // k} for i in range(k)]
    shards.append({'mode': 'child', 'seed': seed})
    r = N_REACH_SHARDS[tier]
    shards += [{'mode': 'reach', 'seed': seed, 'shard': i, 'of': r, 'tier': tier} for i in range(r)]
    return shards


# ------------------------------------------------------------------------------ harness side
class Sem:
    def __init__(self, probe, ctx=None):
        self._probe = probe
        if ctx is not None:
            self.safe_context = lambda: dict(ctx)

    def probe(self, ast):
        return self._probe


def double(x):
    return x * 2


def grammar(case, route):
    bind = case.get('bind') or {}
    if route == 'input':
        items = [L.Named('n', L.Const('3')), L.Named('t', L.Const('[1, 2, 3]')), L.Named('p', L.Call('probe')),
                 L.Named('a', L.Const("'xyz'"))]
    else:
        items = [L.Named('a', L.Pat('[a-z]+')), L.Named('n', L.Const('3')), L.Named('t', L.Const('[1, 2, 3]')),
                 L.Named('p', L.Call('probe'))]
    rules = []
    if case.get('rec'):
        # r: a nested AST whose fields (and those of r.sub) are named by the case
        items.append(L.Named(REC_NAME, L.Call('rec')))
        rules = rec_rules('rec', case['rec'])
    for k, v in bind.items():
        items.append(L.Named(k, L.Const(v)))
    if route == 'input':
        items += [L.Named(INPUT_NAME, L.Pat('(?s).+')), L.Over(L.Const('{' + INPUT_NAME + '}'))]
    elif route == 'alert':
        items += [L.Alert(case['expr'], 2)]
    else:
        items += [L.Over(L.Const(case['expr']))]
    return L.Grammar([L.Rule('start', L.Seq(tuple(items))), L.Rule('probe', L.Void())] + rules)


def rec_rules(name, fields):
    """rec = f_name:`'Ada'` year:`1815` sub:rec_sub ;  rec_sub = ... ;  (a dict value is a nested rule)"""
    items, rules = [], []
    for k, v in fields.items():
        if isinstance(v, dict):
            items.append(L.Named(k, L.Call(f'{name}_{k}')))
            rules += rec_rules(f'{name}_{k}', v)
        else:
            items.append(L.Named(k, L.Const(v)))
    return [L.Rule(name, L.Seq(tuple(items)))] + rules


def grammar_source(case, route):
    """the same grammar as text, with the expression between triple back-quotes"""
    g = grammar(case, route)
    out = []
    for rule in g.rules:
        if isinstance(rule.body, L.Void):
            out.append(f'{rule.name} = () ;\n')
            continue
        parts = []
        for it in rule.body.items:
            if isinstance(it, L.Over) and isinstance(it.e, L.Const):
                parts.append('@:```' + it.e.text + '```')
            elif isinstance(it, L.Alert):
                parts.append('^' * it.level + '```' + it.text + '```')
            elif isinstance(it, L.Named) and isinstance(it.e, L.Const):
                parts.append(f'{it.n}:```{it.e.text}```')
            else:
                parts.append(L.txt_item(it))
        out.append(f'{rule.name} = ' + ' '.join(parts) + ' ;\n')
    return ''.join(out)


class Rec(dict):
    """harness-side reference value of a nested AST: the fields read as attributes and by subscript"""

    def __getattr__(self, name):
        try:
            return self[name]
        except KeyError:
            raise AttributeError(name) from None


def rec_value(fields, cls=Rec):
    return cls({k: rec_value(v, cls) if isinstance(v, dict) else pyast.literal_eval(v) for k, v in fields.items()})


AST_CLASS = []


def real_ast(fields):
    """the same record as the value the real parser binds (its AST class, taken from a parse)"""
    if not AST_CLASS:
        import tatsu
        AST_CLASS.append(type(tatsu.compile('start = x:() y:() ;').parse('')))
    return rec_value(fields, AST_CLASS[0])


def user_names(case, route, probe):
    u = {'a': 'xyz', 'n': 3, 't': [1, 2, 3], 'p': probe}
    if case.get('rec'):
        u[REC_NAME] = rec_value(case['rec'])
    for k, v in (case.get('bind') or {}).items():
        try:
            u[k] = pyast.literal_eval(v)
        except (ValueError, SyntaxError):
            u[k] = v
    if route == 'input':
        u[INPUT_NAME] = case['expr']
    if case.get('ctx'):
        u['double'] = double
    return u


class _Stdin(io.StringIO):
    def close(self):       # site.Quitter closes sys.stdin
        pass


WD = {'armed': False, 'fired': 0}


def on_alarm(signum, frame):
    # periodic: a Hang raised inside a weakref callback or __del__ is swallowed by the interpreter
    if WD['armed']:
        WD['fired'] += 1
        raise S.Hang()


def observe(fn):
    """one call into the real code under all monitors -> (obs, outcome)"""
    from tatsu.exceptions import ParseException
    real_stdin = sys.stdin
    sys.stdin = _Stdin('')
    win = S.window()
    obs = win.__enter__()
    out = ('hang', f'{WATCHDOG_S}s')
    WD['fired'] = 0
    try:
        try:
            WD['armed'] = True
            signal.setitimer(signal.ITIMER_VIRTUAL, WATCHDOG_S, WATCHDOG_REPEAT_S)
            try:
                out = ('ok', fn())
            except ParseException as e:
                out = ('fail', type(e).__name__, str(e).split('\n')[0][:200])
            except S.Blocked as e:
                out = ('blocked', str(e))
            except S.Hang:
                out = ('hang', f'{WATCHDOG_S}s')
            except Exception as e:  # noqa: BLE001 - the class is the observation
                out = ('exc', type(e).__name__, str(e)[:200])
            except BaseException as e:  # noqa: BLE001
                out = ('base', type(e).__name__, str(e)[:100])
        finally:
            WD['armed'] = False
            signal.setitimer(signal.ITIMER_VIRTUAL, 0)
    except S.Hang:
        out = ('hang', f'{WATCHDOG_S}s')
    finally:
        WD['armed'] = False
        signal.setitimer(signal.ITIMER_VIRTUAL, 0)
        win.__exit__(None, None, None)
        sys.stdin = real_stdin
    if WD['fired']:
        out = ('hang', f'{WATCHDOG_S}s')      # whatever the real code made of the watchdog exception
    return obs, out


def expected_value(case, env):
    """plain Python over the allowed names"""
    expr = case.get('ascii', case['expr'])      # NFKC variants: the value of the plain spelling
    if case['kind'] == 'interp':
        expr = 'f' + repr(expr)
    ns = {k: getattr(builtins, k) for k in S.PURE}
    ns.update(env)
    try:
        return ('ok', eval(expr, {'__builtins__': {}}, ns))  # noqa: S307 - the reference evaluation
    except Exception as e:  # noqa: BLE001
        return ('exc', type(e).__name__)


def fixpoint(v, env, fuel=5):
    """what constant()'s documented loop does to a value: -> ('exact', v) | ('text-or-fail', s) | None (not decided)"""
    while isinstance(v, str):
        fuel -= 1
        if fuel < 0 or v != v.strip() or any(c in v for c in '{}\n\t\r\\') or not v:
            return None
        try:
            v = pyast.literal_eval(v)
            continue
        except (ValueError, SyntaxError):
            pass
        except Exception:  # noqa: BLE001
            return None
        try:
            tree = pyast.parse(v, mode='eval')
        except (SyntaxError, ValueError):
            return ('exact', v)
        except Exception:  # noqa: BLE001
            return None
        for node in pyast.walk(tree):
            if isinstance(node, pyast.Name) and node.id not in env and node.id not in vars(builtins):
                return ('text-or-fail', v)
        return None
    return ('exact', v)


def same_value(x, y, probe):
    if x is probe or y is probe:
        return x is y
    if type(x) is not type(y):
        return False
    if isinstance(x, (list, tuple)):
        return len(x) == len(y) and all(same_value(i, j, probe) for i, j in zip(x, y))
    if isinstance(x, float) and x != x:
        return y != y
    try:
        return bool(x == y)
    except Exception:  # noqa: BLE001
        return False


def plain_text(expr):
    return expr == expr.strip() and '\n' not in expr and '\t' not in expr and '{' not in expr and '}' not in expr and '\\' not in expr


# ------------------------------------------------------------------------------ one case, one route
def run_route(case, route, textroute=False):
    """-> (obs, outcome, user names, extra violations [(sig, what)])"""
    from tatsu.util.safeeval import SecurityError, is_eval_safe, safe_builtins, safe_eval
    probe = S.Probe()
    user = user_names(case, route, probe)
    extra = []
    if route == 'eval':
        expr = case['expr']
        if case['kind'] == 'interp':
            expr = 'f' + repr(expr)
        ctx = dict(safe_builtins())
        ctx.update(user)
        if case.get('rec'):
            ctx[REC_NAME] = real_ast(case['rec'])     # what a parse binds; ``user`` keeps the plain reference value
        o1, safe = observe(lambda: is_eval_safe(expr, dict(ctx)))
        if [c for c in o1.roots]:
            extra.append(('check-executes', 'is_eval_safe executed the expression'))
        obs, out = observe(lambda: safe_eval(expr, ctx))
        obs.ambient['is_eval_safe:' + (repr(safe[1]) if safe[0] == 'ok' else 'raised')] = 1
        if safe == ('ok', False):
            if obs.roots:
                extra.append(('rejected-but-executed', 'is_eval_safe said False, safe_eval executed the expression'))
            elif not (out[0] == 'exc' and out[1] == SecurityError.__name__):
                extra.append(('rejected-but-no-error', f'is_eval_safe said False, safe_eval gave {out[:2]}'))
        return obs, out, user, extra

    sem = Sem(probe, {'double': double} if case.get('ctx') else None)
    if textroute:
        import tatsu
        try:
            model = tatsu.compile(grammar_source(case, route))
        except Exception as e:  # noqa: BLE001
            return None, ('build', type(e).__name__, str(e).split('\n')[0][:160]), user, extra
    else:
        model = L.to_model(grammar(case, route))
    text = case['expr'] if route == 'input' else 'xyz'
    kw = {'parseinfo': True} if route == 'alert' else {}
    obs, out = observe(lambda: model.parse(text, semantics=sem, **kw))
    return obs, out, user, extra


def alert_message(result):
    try:
        return ('ok', result['parseinfo'].alerts[-1].message)
    except Exception:  # noqa: BLE001
        return None


def check_route(acc, case, route, textroute=False, run=None):
    """``run``: another way to take the case through the real code (the reach sweep: one model per
    configuration, the expression arrives in the input); the judging is the same"""
    obs, out, user, extra = (run or run_route)(case, route, textroute)
    acc.evaluations += 1
    rname = case.get('rname') or route + ('-text' if textroute else '')
    acc.count('route:' + rname)
    acc.count('kind:' + case['kind'])
    if obs is None:
        acc.count('unbuildable:' + rname)
        return None
    wit = {'case': {k: case[k] for k in ('expr', 'kind', 'bind', 'T', 'ascii', 'nfkc', 'rec', 'look') if k in case}
                   | ({'ctx': 1} if case.get('ctx') else {}),
           'route': route, 'textroute': textroute}
    where = f'[{rname}] {case["expr"]!r}' + (f' with AST keys {case["bind"]}' if case.get('bind') else '')
    if case.get('nfkc'):
        where += f' (NFKC spelling of {case["ascii"]!r})'
        acc.count('nfkc_evaluations')
    look = case.get('look')
    if look:
        where += f' with {REC_NAME} = the nested AST {case["rec"]}'
        acc.count('look_evaluations')
        acc.count('look_route:' + rname)

    # ---- what the monitors saw
    nroots = len(obs.roots)
    acc.count('roots_executed', nroots)
    acc.count('instructions_observed', obs.instr)
    acc.count('call_events', len(obs.calls))
    acc.count('name_reads', len(obs.names))
    acc.count('attr_ops', len(obs.attrs))
    acc.count('walrus_stores', len(obs.stores))
    acc.count('probe_dunder_lookups', len(obs.probe))
    acc.count('expr_effects_blocked', obs.blocked)
    acc.count('expr_stdout_chars', obs.writes)
    for e, _ in obs.effects:
        acc.count('expr_audit:' + e)
    amb = 0
    for k, v in obs.ambient.items():
        if k.startswith('expr:'):
            acc.count('expr_audit_unjudged:' + k[5:], v)
        elif not k.startswith('is_eval_safe:'):
            amb += v
    acc.count('ambient_audit_events', amb)
    for c in obs.calls:
        kind, n = S.classify_callable(c, obs, list(user.values()))
        acc.count('callable:' + kind)
        if kind in ('builtin', 'forbidden'):
            acc.count('called_builtin:' + n)
    if route == 'eval':
        acc.count('eval_outcome:' + out[0] + (':' + out[1] if out[0] in ('exc', 'base') else ''))
    else:
        acc.count('parse_outcome:' + out[0] + (':' + out[1] if out[0] in ('exc', 'base') else ''))
    touched = bool(obs.names or obs.calls or obs.attrs)
    if touched:
        acc.count('touching_evaluations')
        if case.get('nfkc'):
            acc.count('nfkc_touching_evaluations')
        acc.nontriv(route, case['expr'], case.get('bind'))
    else:
        acc.count('untouching_evaluations')   # rejected, literal, or constant-only
    if out[0] == 'hang':
        # neither "left as uninterpreted text" nor "reported as a semantic failure": the call never returns
        ids = obs.ambient.get('builtins.id', 0)
        acc.violation('evaluation-never-returns',
                      f'{where}: the evaluation did not return within {WATCHDOG_S} CPU-seconds ({ids} id() audit events from the '
                      f'safety check, {nroots} code objects executed: the evaluator is looping)', wit)
        return obs
    if out[0] == 'exc' and route != 'eval':
        acc.note(f'non-ParseException escaped parse: {out[1]} e.g. {case["expr"]!r}')
    if os.path.exists(X.TARGET):
        os.unlink(X.TARGET)
        acc.violation('effect:file-created', f'{where}: the target file exists after the evaluation', wit)

    # ---- sandbox verdict
    for sig, what in S.judge(obs, user) + extra:
        acc.violation(sig, f'{where}: {what}', wit)
    if out[0] == 'base' and out[1] in ('SystemExit', 'KeyboardInterrupt', 'GeneratorExit'):
        acc.violation('process-exit', f'{where}: {out[1]} propagated out of the evaluation', wit)

    # ---- value transparency
    if case.get('T'):
        exp = expected_value(case, user)
        got = out
        if route == 'alert' and out[0] == 'ok':
            got = alert_message(out[1])
            if got is None:
                acc.count('alert_message_unobserved')
                return obs
        if exp[0] == 'ok' and route == 'input' and case['kind'] == 'interp':
            # a template that arrives in the input text: whether constant() interpolates text it has just
            # interpolated is not part of the statement
            acc.count('transparency_skipped_input_template')
        elif exp[0] == 'ok':
            want = ('exact', exp[1]) if route == 'eval' else fixpoint(exp[1], user)
            if want is None:
                acc.count('transparency_skipped_reevaluable')
            else:
                acc.count('transparency_compared')
                if case.get('nfkc'):
                    acc.count('nfkc_transparency_compared')
                if look:
                    acc.count('look_transparency_compared')
                    acc.count('look_compared:' + rname)
                    acc.count('look_compared_access:' + look['access'])
                    acc.count('look_compared_use:' + look['wrap'])
                    if route == 'eval' and 'is_eval_safe:True' in obs.ambient:
                        acc.count('look_is_eval_safe_true')
                ok = got[0] == 'ok' and same_value(got[1], want[1], user['p'])
                if not ok and want[0] == 'text-or-fail' and got[0] == 'fail':
                    ok = True
                if not ok:
                    if got[0] != 'ok':
                        sig = 'transparency:safe-expression-' + ('rejected' if not nroots else 'failed')
                        if 'maximum recursion depth' in str(got[-1]):
                            sig = 'transparency:safe-expression-failed:RecursionError'
                    elif route != 'eval' and isinstance(got[1], str) and got[1].strip() == case['expr'].strip():
                        sig = 'transparency:safe-expression-rejected'
                    else:
                        sig = 'transparency:value'
                    said = ' (is_eval_safe said False)' if route == 'eval' and 'is_eval_safe:False' in obs.ambient else ''
                    acc.violation(sig, f'{where}: plain Python gives {want[1]!r}, the evaluator gave {got[:2]!r:.200}{said}', wit)
        else:
            acc.count('transparency_compared_raising')
            if got[0] == 'ok' and not (route != 'eval' and isinstance(got[1], str)):
                acc.violation('transparency:value', f'{where}: plain Python raises {exp[1]}, the evaluator gave {got[1]!r:.120}', wit)
    elif route in ('const', 'alert') and case.get('_rejected') and plain_text(case['expr']):
        # "a rejected expression is left as uninterpreted text or reported as a semantic failure"
        try:
            pyast.literal_eval(case['expr'].strip())
            lit = True
        except Exception:  # noqa: BLE001
            lit = False
        got = out
        if route == 'alert' and out[0] == 'ok':
            got = alert_message(out[1])
        if not lit and got is not None and got[0] in ('ok', 'fail'):
            acc.count('rejected_outcome_checked')
            if got[0] == 'ok':
                if isinstance(got[1], str) and got[1].strip() == case['expr'].strip():
                    acc.count('rejected_left_as_text')
                else:
                    acc.violation('rejected-not-text', f'{where}: is_eval_safe rejects the expression, yet the value is '
                                                       f'{got[1]!r:.120}', wit)
            else:
                acc.count('rejected_reported_as_failure')
    return obs


def check_case(acc, case, index):
    case = dict(case)
    for route in ROUTES:
        obs = check_route(acc, case, route)
        if route == 'eval' and obs is not None:
            # the helper's own verdict on this expression over the same names (used for the
            # "rejected => text or failure" relation on the parser routes)
            case['_rejected'] = 'is_eval_safe:False' in obs.ambient
            acc.count('is_eval_safe:' + ('rejected' if case['_rejected'] else 'accepted-or-error'))
    if index % TEXT_EVERY == 0 and '```' not in case['expr'] and not case['expr'].endswith('`'):
        check_route(acc, case, 'const', textroute=True)


# ------------------------------------------------------------------------------ look-alike field names
LOOK_SWEEP_ACCESS = ('attr', 'attr', 'nested-attr', 'sub-attr')
LOOK_SWEEP_ROUTES = (('const', False), ('alert', False), ('input', False), ('const', True))


def look_collides(*names):
    """the class of the real AST has an attribute of that name (an attribute read finds it before the field): such a
    field is not part of the class; counted, which leaves the floors unreached"""
    real_ast({})
    return any(hasattr(AST_CLASS[0], nm) for nm in names)


def look_sweep_case(name, seed):
    """the case of the per-name sweep: the field read with attribute syntax, the value used bare / in a use of its type /
    in an interpolation template; (route, textroute) rotates with the seed"""
    h = h64('C17', 'look-sweep', seed, name)
    route, text = LOOK_SWEEP_ROUTES[h % len(LOOK_SWEEP_ROUTES)]
    access = LOOK_SWEEP_ACCESS[(h >> 8) % len(LOOK_SWEEP_ACCESS)]
    k = (h >> 16) % 10
    if k < 2:
        wrap = ''
    elif k < 6 and route != 'input':
        wrap = X.LOOK_TEMPLATES[(h >> 24) % len(X.LOOK_TEMPLATES)]
    else:
        ws = X.look_wraps(name)
        wrap = ws[(h >> 24) % len(ws)]
    return X.look_case(name, access, wrap), route, text


def look_direct(acc, name, access, wrap):
    """the helper called as a client calls it (no monitors: the expression is safe by construction): is_eval_safe says
    True and safe_eval gives the value plain Python gives over the same names"""
    from tatsu.util.safeeval import is_eval_safe, safe_builtins, safe_eval
    case = X.look_case(name, access, wrap)
    user = user_names(case, 'eval', S.Probe())
    exp = expected_value(case, user)
    expr = 'f' + repr(case['expr']) if case['kind'] == 'interp' else case['expr']
    ctx = dict(safe_builtins())
    ctx.update(user)
    ctx[REC_NAME] = real_ast(case['rec'])
    acc.evaluations += 1
    acc.count('look_direct_checked')
    acc.count('look_direct_access:' + access)
    acc.count('look_direct_use:' + case['look']['wrap'])
    wit = {'look_direct': {'name': name, 'access': access, 'wrap': wrap}}
    where = f'[eval-direct] {expr!r} with {name} bound in the nested AST {REC_NAME}, in {REC_NAME}.sub and at the top level'
    try:
        safe = is_eval_safe(expr, dict(ctx))
    except Exception as e:  # noqa: BLE001 - the class is the observation
        safe = f'raised {type(e).__name__}'
    try:
        got = ('ok', safe_eval(expr, ctx))
    except Exception as e:  # noqa: BLE001
        got = ('exc', type(e).__name__, str(e)[:160])
    if exp[0] != 'ok':
        acc.count('look_direct_raising')
        if got[0] == 'ok':
            acc.violation('transparency:value', f'{where}: plain Python raises {exp[1]}, safe_eval gave {got[1]!r:.120}', wit)
        return
    if safe is True:
        acc.count('look_direct_safe_true')
    else:
        acc.violation('transparency:safe-expression-rejected',
                      f'{where}: is_eval_safe gave {safe!r} for an expression over AST names, literals and pure builtins '
                      f'(plain Python gives {exp[1]!r}, safe_eval gave {got[:2]!r:.160})', wit)
        return
    if got[0] == 'ok' and same_value(got[1], exp[1], user['p']):
        acc.count('look_direct_value_equal')
    else:
        sig = 'transparency:safe-expression-rejected' if got[0] != 'ok' and got[1] == 'SecurityError' else 'transparency:value'
        acc.violation(sig, f'{where}: plain Python gives {exp[1]!r}, safe_eval gave {got[:2]!r:.200}', wit)


def run_look(desc, acc):
    """look-alike names: (1) every name of the vocabulary x every access form (bare, one use, one template) through the
    helper; (2) every name once through a real parse with attribute syntax; (3) random cases through the four routes"""
    shard, of, seed = desc['shard'], desc['of'], desc['seed']
    for i, v in enumerate(X.LOOK_VOCAB):
        if i % of != shard:
            continue
        if look_collides(v['name']):
            acc.count('look_name_is_attribute_of_the_ast_class')
            acc.note(f'look: {v["name"]} is an attribute of the AST class: not swept')
            continue
        for access, wrap in X.look_direct_forms(v['name']):
            look_direct(acc, v['name'], access, wrap)
        case, route, text = look_sweep_case(v['name'], seed)
        if text and ('```' in case['expr'] or case['expr'].endswith('`')):
            text = False
        check_route(acc, case, route, textroute=text)
        acc.count('look_names_swept')
        acc.count('look_like:' + v['how'].split(':')[0])
    # forbidden builtin names shadowed by AST keys, read in nested scopes (generator expressions, lambda bodies)
    for i, case in enumerate(X.scope_cases()):
        if i % of == shard:
            check_case(acc, case, i // of)
            acc.count('scope_shadow_cases')
    for i in range(desc.get('n_look', 0)):
        rng = random.Random(h64('C17', seed, 'look', shard, i))
        case = X.look_random_case(rng)
        if look_collides(*case['bind']):
            acc.count('look_name_is_attribute_of_the_ast_class')
            continue
        check_case(acc, case, i)
        acc.count('look_cases')
        if i == 3:
            acc.sample({'kind': 'look', 'expr': case['expr'], 'rec': case['rec'], 'bind': case['bind'],
                        'expected': repr(expected_value(case, user_names(case, 'const', S.Probe())))[:120]})


# ------------------------------------------------------------------------------ shards
def setup_process():
    warnings.simplefilter('ignore')
    os.environ['PYTHONBREAKPOINT'] = '0'
    scratch = os.environ.get('VT_SCRATCH')
    if scratch:
        os.makedirs(scratch, exist_ok=True)
        os.chdir(scratch)
    try:
        import resource
        resource.setrlimit(resource.RLIMIT_FSIZE, (1 << 26, 1 << 26))
    except Exception:  # noqa: BLE001
        pass
    S.install()
    signal.signal(signal.SIGVTALRM, on_alarm)


def run_shard(desc, acc):
    cwd = os.getcwd()
    try:
        setup_process()
        if desc['mode'] == 'child':
            run_children(desc, acc)
        elif desc['mode'] == 'reach':
            run_reach(desc, acc)
        else:
            run_mix(desc, acc)
    finally:
        os.chdir(cwd)


def warm_up():
    """lazy imports and caches of the real code are filled before anything is observed"""
    case = {'expr': 'len(a) + n', 'kind': 'T', 'bind': {}, 'T': True}
    for route in ROUTES:
        run_route(case, route)


def run_mix(desc, acc):
    warm_up()
    shard, of = desc['shard'], desc['of']
    sweep = X.sweep_cases()
    per_name = len(X.CALL_ARGS) + len(X.PLACEMENTS)
    for i, case in enumerate(sweep):
        if i % of != shard:
            continue
        check_case(acc, case, i // of)
        acc.count('sweep_cases')
        if i % per_name == 0:
            acc.count('builtins_swept')      # the shard that ran the first form of a name counts the name
            # the same name spelled in NFKC-equivalent code points (ｅｖａｌ(a), 𝐨𝐩𝐞𝐧(a), ...)
            rng = random.Random(h64('C17', 'nfkc-sweep', case['b']))
            v = X.nfkc_variant(rng, case['b'] + '(a)', mode='all')
            if v:
                check_case(acc, {'expr': v[0], 'ascii': case['b'] + '(a)', 'nfkc': f'{v[1]}/{v[2]}', 'kind': 'sweep-call',
                                 'bind': {}, 'T': False}, i // of)
                acc.count('nfkc_variants')
                acc.count('nfkc_builtins_swept')
    for i in range(desc['n_random']):
        rng = random.Random(h64('C17', desc['seed'], 'random', shard, i))
        case = X.random_case(rng)
        check_case(acc, case, i)
        if i == 0:
            acc.sample({'kind': case['kind'], 'expr': case['expr'], 'bind': case['bind'], 'routes': list(ROUTES)})
    for i in range(desc.get('n_nfkc', 0)):
        rng = random.Random(h64('C17', desc['seed'], 'nfkc', shard, i))
        case = X.nfkc_case(rng)
        if not case.get('nfkc'):
            acc.count('nfkc_unspellable')
            continue
        check_case(acc, case, i)
        acc.count('nfkc_variants')
        acc.count('nfkc_mode:' + case['nfkc'].split('/')[0])
        acc.count('nfkc_style:' + case['nfkc'].split('/')[1])
        acc.count('nfkc_base:' + case['kind'])
        if '__' in case['ascii'] and '__' not in case['expr']:
            acc.count('nfkc_dunder_without_ascii_pair')
        if i == 2:
            acc.sample({'kind': case['kind'], 'nfkc': case['nfkc'], 'expr': case['expr'], 'ascii': case['ascii']})
    for i in range(desc['n_t']):
        rng = random.Random(h64('C17', desc['seed'], 'T', shard, i))
        case = X.t_case(rng)
        if i % 40 == 7:
            case = {'expr': f'double({X.t_int(rng, 1)})', 'kind': 'T', 'bind': {}, 'T': True, 'ctx': 1}
        check_case(acc, case, i)
        if i == 1:
            acc.sample({'kind': case['kind'], 'expr': case['expr'], 'expected': repr(expected_value(
                case, user_names(case, 'const', S.Probe())))[:120]})
    run_look(desc, acc)


# ------------------------------------------------------------------------------ attribute-reachability sweep
# The values TatSu itself binds in the AST are live objects (AST / Node -> parseinfo -> cursor -> input -> config ...).
# Whatever an expression can reach from a bound name along attribute names the evaluator's checker lets through
# (anything not starting with '__') is read and, if callable, called - through a real parse, under the same monitors
# and the same verdict as every other case.
REACH_DEPTH = {'quick': 10, 'thorough': 12}       # the graph reached on the tree of 2026-09 is complete at depth 10
REACH_CAP = {'quick': 4000, 'thorough': 40000}           # paths per configuration
REACH_ALERT_EVERY = {'quick': 8, 'thorough': 1}
REACH_ITER_DEPTH = {'quick': 1, 'thorough': 8}
REACH_CONTROL_EVERY = 200
REACH_INPUTS = ('str', 'buffer', 'textlines')
REACH_INPUT_CLASSES = {'buffer': ('tatsu.input.buffer', 'Buffer'), 'textlines': ('tatsu.input.textlines', 'TextLines')}
REACH_HEAD = '42,69 7 10 11 1 2 (4,5) 6,7 | '
REACH_CONTROL = ('len(l) * 100 + len(k) * 10 + len(b) + n', 214)
REACH_F, REACH_T = 'vt_c17_reach_F.txt', 'vt_c17_reach_T.txt'
REACH_MARK = 'VT-C17-REACH-MARKER\n'
# §F: the scratch file that exists and holds the marker; §T: a path in the scratch directory that does not exist
REACH_ARGS = ['', '§F', '§T', "§F, 'r'", "§T, 'w'", "'/', §F", '§F, §F', '0', "'x'", "'x', 'y'", "§F, 'x', 'y'"]
REACH_ARGS_THOROUGH = REACH_ARGS + ['§F, 0', '§F, §T', '§T, §F', 'None', '-1', '0, 0', "'x', 0", '[§F]', 'b', 'l', 'a',
                                    "§F, 'rb'", "§T, 'x'", "'.', §F", '§F, None', '0, §F']
REACH_FORMS = [('len(§)', '|len'), ('sorted(§)', '|sorted'), ('[b for b in §]', '|iter')]
# audit events raised by code of the real package (or the library) BELOW the expression's frame that are introspection by
# that code, not the expression opening/importing/running/reaching anything: recorded, not blocked, counted, not judged
REACH_UNJUDGED_EVENTS = ('sys._getframe', 'sys._current_', 'object.__getattr__', 'object.__setattr__', 'object.__delattr__',
                         'gc.', 'array.__new__')


def reach_configs(tier):
    out = [{'input': inp, 'parseinfo': pi, 'typed': typed, 'text': False}
           for typed in (False, True) for inp in REACH_INPUTS for pi in (False, True)]
    # the same grammar as text through tatsu.compile (`pair::Pair = x:num y:num ;`)
    texts = [('buffer', True), ('str', False)] if tier == 'quick' else [(i, t) for t in (False, True) for i in REACH_INPUTS]
    out += [{'input': inp, 'parseinfo': True, 'typed': typed, 'text': True} for inp, typed in texts]
    for c in out:
        c['id'] = '/'.join([c['input'], 'parseinfo' if c['parseinfo'] else 'noparseinfo', 'model' if c['typed'] else 'ast']
                           + (['text'] if c['text'] else []))
    return out


def reach_grammar(typed, place):
    """start = a:pair b:num g:(num num) l:{num} o:over k:{pair} n:`3` '|' src_:/(?s).+/ X $ ;  X evaluates the text bound to
    src_ with every name of the rule in the AST; pair is a typed rule in the model configurations (few rule calls: the
    model builder semantics is the expensive part of a parse)"""
    tail = L.Alert('{' + INPUT_NAME + '}', 2) if place == 'alert' else L.Over(L.Const('{' + INPUT_NAME + '}'))
    d, num = L.Pat(r'\d+'), L.Call('num')
    items = [L.Named('a', L.Call('pair')), L.Named('b', num), L.Named('g', L.Seq((num, num))), L.Named('l', L.Clo(num)),
             L.Named('o', L.Call('over')), L.Named('k', L.Clo(L.Call('pair'))), L.Named('n', L.Const('3')), L.Tok('|'),
             L.Named(INPUT_NAME, L.Pat('(?s).+')), tail, L.EOF()]
    return L.Grammar([L.Rule('start', L.Seq(tuple(items))),
                      L.Rule('pair', L.Seq((L.Named('x', d), L.Tok(','), L.Named('y', d))), params=('Pair',) if typed else ()),
                      L.Rule('over', L.Seq((L.Tok('('), L.Over(L.Call('pair')), L.Tok(')')))),
                      L.Rule('num', d)])


def reach_grammar_text(typed, place):
    tail = ('^^`{%s}`' if place == 'alert' else '@:`{%s}`') % INPUT_NAME
    return (f"start = a:pair b:num g:(num num) l:{{num}}* o:over k:{{pair}}* n:`3` '|' {INPUT_NAME}:/(?s).+/ {tail} $ ;\n"
            f"pair{'::Pair' if typed else ''} = x:/\\d+/ ',' y:/\\d+/ ;\nover = '(' @:pair ')' ;\nnum = /\\d+/ ;\n")


def vt_peek(path):
    """harness callable for the attribution control: it opens the file several frames below the expression"""
    import pathlib
    return pathlib.Path(path).read_text()


class ReachSem:
    def safe_context(self):
        return {'vt_peek': vt_peek}


def reach_arity(obj):
    """number of positional parameters without default (None: not known)"""
    import inspect
    try:
        ps = list(inspect.signature(obj).parameters.values())
    except Exception:  # noqa: BLE001
        return None
    return sum(1 for q in ps if q.default is q.empty and q.kind in (q.POSITIONAL_ONLY, q.POSITIONAL_OR_KEYWORD))


def reach_walk(user, maxdepth, cap):
    """breadth-first from every bound value along the attribute names the checker allows and into items of
    lists/tuples/dicts; de-duplicated on (type of the object, attribute) - classes and modules on (object, attribute).
    -> (entries, stats); an entry: expr, chain (type names and attribute names only), depth, callable, iterable, obj"""
    import collections
    import types
    seen, entries, stats = set(), [], collections.Counter()
    queue = collections.deque()

    def add(expr, chain, obj, depth):
        entries.append({'expr': expr, 'chain': '>'.join(chain) if chain else type(obj).__name__, 'depth': depth, 'obj': obj,
                        'callable': callable(obj), 'iterable': hasattr(obj, '__iter__') or hasattr(obj, '__len__'),
                        'type': type(obj).__name__, 'arity': reach_arity(obj) if callable(obj) else None})
        queue.append((expr, chain, obj, depth))

    for name in sorted(user):
        add(name, (), user[name], 0)
    while queue:
        expr, chain, obj, depth = queue.popleft()
        if depth >= maxdepth:
            stats['at_depth_limit'] += 1
            continue
        if isinstance(obj, type):
            base, tname = ('is', id(obj)), 'type:' + obj.__name__
        elif isinstance(obj, types.ModuleType):
            base, tname = ('is', id(obj)), 'module:' + obj.__name__
        else:
            base, tname = ('type', type(obj)), type(obj).__name__
        steps = []
        try:
            names = sorted(n for n in dir(obj) if isinstance(n, str) and not n.startswith('__'))
        except BaseException:  # noqa: BLE001 - a live object of the real code: anything may happen
            names = []
            stats['dir_raises'] += 1
        for n in names:
            if (base, n) in seen:
                continue
            seen.add((base, n))
            if not n.isidentifier():
                continue
            try:
                child = getattr(obj, n)
            except BaseException:  # noqa: BLE001
                stats['getattr_raises'] += 1
                continue
            steps.append((f'{expr}.{n}', f'{tname}.{n}', child))
        try:
            if isinstance(obj, (list, tuple)) and len(obj):
                k = (base, '[0]', type(obj[0]))
                if k not in seen:
                    seen.add(k)
                    steps.append((f'{expr}[0]', f'{tname}[0]', obj[0]))
            elif isinstance(obj, dict):
                for key in sorted(k for k in obj if isinstance(k, str))[:8]:
                    k = (base, '[k]', key)
                    if k not in seen:
                        seen.add(k)
                        steps.append((f'{expr}[{key!r}]', f'{tname}[{key!r}]', obj[key]))
        except BaseException:  # noqa: BLE001
            stats['subscript_raises'] += 1
        for e, c, child in steps:
            if len(entries) >= cap:
                stats['capped'] += 1
                continue
            add(e, chain + (c,), child, depth + 1)
    return entries, stats


def reach_expressions(entries, tier):
    """-> [(entry, expression template, chain of the mechanism, form, key)]; key = (chain, what is done to the reached
    object): the same mechanism whatever the configuration and the name the chain starts from"""
    pool = REACH_ARGS if tier == 'quick' else REACH_ARGS_THOROUGH
    out = []
    for e in entries:
        out.append((e, e['expr'], e['chain'], 'read', (e['chain'], '')))
        if e['callable']:
            args = list(pool)
            n = e['arity']
            if n is not None and 3 <= n <= 12:
                # argument lists of the callable's own arity (the pool stops at three)
                fitted = [', '.join(['§F'] * n), ', '.join(['0'] * n), ', '.join(['§F', '§F'] + ['0'] * (n - 2)),
                          ', '.join(['0', '0'] + ['§F'] * (n - 2))]
                args += [a for a in fitted if a not in args]
            out += [(e, f'{e["expr"]}({a})', e['chain'] + '()', 'call', (e['chain'], f'({a})')) for a in args]
        if e['iterable'] and e['depth'] <= REACH_ITER_DEPTH[tier]:
            out += [(e, form.replace('§', e['expr']), e['chain'] + tag, 'iter', (e['chain'], tag))
                    for form, tag in REACH_FORMS]
    return out


def reach_owners(plans):
    """quick tier: a mechanism (chain, what is done) reached in several configurations is evaluated in one of them,
    chosen by hash among the configurations that reach it -> {key: configuration id}"""
    where = {}
    for cfg, _entries, exprs in plans:
        for x in exprs:
            where.setdefault(x[4], []).append(cfg['id'])
    return {k: ids[h64('C17', 'reach-owner', k) % len(ids)] for k, ids in where.items()}


class ReachAcc:
    """the accumulator check_route writes to for one reach case: the same counters; violations are re-signed by
    mechanism (effect + chain of type and attribute names) and kept once per signature and shard"""

    def __init__(self, acc):
        self.acc = acc
        self.seen = set()
        self.cfg = self.chain = self.wit = None
        self.sigs = []

    def begin(self, cfg, chain, wit):
        self.cfg, self.chain, self.wit, self.sigs = cfg, chain, wit, []

    @property
    def evaluations(self):
        return self.acc.evaluations

    @evaluations.setter
    def evaluations(self, v):
        self.acc.evaluations = v

    def count(self, name, n=1):
        self.acc.count(name, n)

    def peak(self, name, v):
        self.acc.peak(name, v)

    def nontriv(self, *parts):
        self.acc.nontriv('reach', self.cfg, *parts)

    def sample(self, s):
        self.acc.sample(s)

    def note(self, s):
        self.acc.note(s)

    def violation(self, sig, what, _wit):
        eff = sig.removeprefix('effect:')
        if sig == 'call-outside-set' or (sig.startswith('effect:') and eff.startswith(REACH_UNJUDGED_EVENTS)):
            # the callable is an attribute of an AST value (a static method of a builtin type has no __self__ to tell);
            # REACH_UNJUDGED_EVENTS: see there
            self.acc.count(f'reach_unjudged:{eff}:{self.chain}')
            return
        rsig = f'reach/{eff}/{self.chain}'
        self.sigs.append(rsig)
        self.acc.count('reach_violations')
        self.acc.count('reach_violations_cfg:' + self.cfg)
        if rsig in self.seen:
            self.acc.violation_count += 1           # counted; one witness per mechanism is kept
            self.acc.count('violations:' + rsig)
            return
        self.seen.add(rsig)
        also = [c for c in self.wit['reach']['reached_in'] if c != self.cfg]
        more = f' (the same chain is reached in {", ".join(also)})' if also else ''
        self.acc.violation(rsig, f'[reach {self.cfg}] {what}{more}', self.wit)


class Reach:
    """harness side of the sweep: configurations, one model per (configuration, placement), discovery"""

    def __init__(self, tier, acc):
        import importlib
        self.tier, self.acc = tier, acc
        self.models, self.user, self.entries, self.unavailable, self.chain_cfgs = {}, {}, {}, {}, {}
        self.tmp = None
        base = os.getcwd()
        if not os.environ.get('VT_SCRATCH'):
            import tempfile
            base = self.tmp = tempfile.mkdtemp(prefix='vt-c17-reach-')
        self.F, self.T = os.path.join(base, REACH_F), os.path.join(base, REACH_T)
        with open(self.F, 'w') as f:
            f.write(REACH_MARK)
        self.classes = {}
        for kind, (mod, name) in REACH_INPUT_CLASSES.items():
            try:
                self.classes[kind] = getattr(importlib.import_module(mod), name)
            except Exception as e:  # noqa: BLE001 - an internal name: unobserved, never an alarm
                acc.note(f'reach: {mod}.{name} is not there ({type(e).__name__}): configurations with that input are not run')
        self.cfgs = {c['id']: c for c in reach_configs(tier)}

    def close(self):
        if self.tmp:
            import shutil
            shutil.rmtree(self.tmp, ignore_errors=True)

    def fill(self, template):
        return template.replace('§F', repr(self.F)).replace('§T', repr(self.T))

    def model(self, cfg, place):
        key = (cfg['id'], place)
        if key not in self.models:
            if cfg['text']:
                import tatsu
                self.models[key] = tatsu.compile(reach_grammar_text(cfg['typed'], place))
            else:
                self.models[key] = L.to_model(reach_grammar(cfg['typed'], place))
        return self.models[key]

    def make_input(self, cfg, text):
        return text if cfg['input'] == 'str' else self.classes[cfg['input']](text)

    def kwargs(self, cfg):
        return {'parseinfo': cfg['parseinfo']} | ({'asmodel': True} if cfg['typed'] else {})

    def capture(self, cfg):
        """the names bound when the constant is evaluated = the locals of the frame of the expression's code, taken
        by a profile function during one parse of the control expression (harness side, outside the monitors)"""
        got = []

        def prof(frame, event, arg):
            if event == 'call' and not got and frame.f_code.co_filename.startswith('<') and INPUT_NAME in frame.f_locals:
                got.append(dict(frame.f_locals))

        model = self.model(cfg, 'const')
        inp = self.make_input(cfg, REACH_HEAD + REACH_CONTROL[0])
        sys.setprofile(prof)
        try:
            value = model.parse(inp, **self.kwargs(cfg))
        finally:
            sys.setprofile(None)
        if value != REACH_CONTROL[1] or not got:
            raise LookupError(f'control expression gave {value!r:.60}, {len(got)} expression frames seen')
        return {k: v for k, v in got[0].items() if not (k in vars(builtins) and vars(builtins)[k] is v)}

    def discover(self, cfg):
        """-> entries of the configuration, or None (with a note) when the configuration cannot be run here"""
        cid = cfg['id']
        if cid in self.entries or cid in self.unavailable:
            return self.entries.get(cid)
        try:
            if cfg['input'] != 'str' and cfg['input'] not in self.classes:
                raise LookupError(f'no input class {cfg["input"]}')
            user = self.capture(cfg)
        except Exception as e:  # noqa: BLE001
            self.unavailable[cid] = f'{type(e).__name__}: {e}'
            self.acc.note(f'reach: configuration {cid} not run: {type(e).__name__}: {str(e)[:120]}')
            return None
        entries, stats = reach_walk(user, REACH_DEPTH[self.tier], REACH_CAP[self.tier])
        # the expression reaches these callables as attributes of AST values (methods - the CALL event of `v.m()` shows
        # the plain function with v as first argument -, static methods, classes kept in fields), so calling them is
        # not "calling a name outside the set": the call is counted, what it does is judged
        names = dict(user)
        for e in entries:
            if e['callable'] and e['depth']:
                names[f'<{e["chain"]}>'] = e['obj']
                f = getattr(e['obj'], '__func__', None)
                if f is not None:
                    names[f'<{e["chain"]}:function>'] = f
        self.user[cid], self.entries[cid] = names, entries
        self.stats = stats
        return entries

    def run(self, case, route, _textroute=False):
        cfg = self.cfgs[case['cfg']]
        model = self.model(cfg, route)
        inp = self.make_input(cfg, REACH_HEAD + case['actual'])
        kw = self.kwargs(cfg) | (case.get('kw') or {})
        obs, out = observe(lambda: model.parse(inp, **kw))
        self.out = out
        return obs, out, self.user.get(cfg['id']) or {}, []

    def control(self, cfg):
        """the state shared by the evaluations of this process still evaluates a safe expression to its value"""
        case = {'actual': REACH_CONTROL[0], 'cfg': cfg['id']}
        for _attempt in (0, 1):
            _obs, out, _u, _x = self.run(case, 'const')
            if out[:2] == ('ok', REACH_CONTROL[1]):
                self.acc.count('reach_control_ok')
                return
            self.acc.count('reach_control_failed')
            self.acc.note(f'reach: control expression gave {out[:3]!r:.160} in {cfg["id"]}: models rebuilt')
            self.models.clear()
        raise RuntimeError(f'reach: the control expression no longer evaluates in {cfg["id"]}: {out[:3]!r:.200}')

    def attribution_control(self):
        """an `open` several frames below the expression's frame (harness callable bound by safe_context) is attributed
        to the expression by the monitors"""
        model = L.to_model(reach_grammar(False, 'const'))
        text = REACH_HEAD + f'vt_peek({self.F!r})'
        sem = ReachSem()
        obs, out = observe(lambda: model.parse(text, semantics=sem))
        if any(e == 'open' for e, _ in obs.effects):
            self.acc.count('reach_attribution_control_ok')
        else:
            self.acc.note(f'reach: attribution control: no open event attributed to the expression, outcome {out[:3]!r:.120}')


def reach_outcome(obs, out):
    if obs is None:
        return 'unobserved'
    if obs.blocked:
        return 'blocked'
    if out[0] == 'fail':
        # the evaluator reports a failed expression as a semantic failure; any other failure of the parse after a
        # call means the call moved the parser (cursor, input, configuration)
        return 'fail' if 'Error evaluating constant' in out[-1] else 'fail-parse-derailed'
    if out[0] in ('exc', 'base'):
        return f'{out[0]}:{out[1]}'
    return out[0]


def reach_one(R, racc, cfg, chain, template, form, place):
    acc = R.acc
    case = {'expr': template, 'kind': 'reach', 'bind': {}, 'T': False, 'rname': 'reach-' + place, 'actual': R.fill(template),
            'cfg': cfg['id']}
    base = chain.split('|')[0].removesuffix('()')
    racc.begin(cfg['id'], chain, {'reach': {'cfg': cfg['id'], 'expr': template, 'chain': chain, 'form': form, 'place': place,
                                          'tier': R.tier, 'reached_in': R.chain_cfgs.get(base, [cfg['id']])}})
    R.out = None
    obs = check_route(racc, case, place, run=R.run)
    acc.count('reach_evaluations')
    acc.count('reach_form:' + form)
    res = reach_outcome(obs, R.out or ('unobserved',))
    acc.count(f'reach_outcome:{form}:{res}')
    if obs is not None:
        acc.count('reach_effects_attributed', len(obs.effects))
        for e, _ in obs.effects:
            acc.count('reach_effect:' + e)
        if form == 'call':
            acc.count('reach_calls')
            acc.count('reach_calls_executed', 1 if obs.calls else 0)
        if res == 'fail-parse-derailed':
            acc.count('reach_unjudged:parse-derailed:' + chain)
    where = f'[reach-{place}] {template!r}'
    if os.path.exists(R.T):
        os.unlink(R.T)
        racc.violation('effect:file-created', f'{where}: the path §T exists after the evaluation', None)
    try:
        with open(R.F) as f:
            intact = f.read() == REACH_MARK
    except OSError:
        intact = False
    if not intact:
        racc.violation('effect:file-modified', f'{where}: the scratch file §F was changed or removed by the evaluation', None)
        with open(R.F, 'w') as f:
            f.write(REACH_MARK)
    return obs


def run_reach(desc, acc):
    warm_up()
    S.ST.unblocked = REACH_UNJUDGED_EVENTS
    tier, shard, of = desc.get('tier', 'quick'), desc['shard'], desc['of']
    R = Reach(tier, acc)
    racc = ReachAcc(acc)
    try:
        R.attribution_control()
        plans = []
        for ci, cfg in enumerate(R.cfgs.values()):
            entries = R.discover(cfg)
            mine = ci % of == shard            # the shard that owns the configuration counts what discovery found
            if entries is None:
                if mine:
                    acc.count('reach_configurations_unavailable')
                continue
            exprs = reach_expressions(entries, tier)
            plans.append((cfg, entries, exprs))
            for e in entries:
                R.chain_cfgs.setdefault(e['chain'], []).append(cfg['id'])
            if mine:
                cid = cfg['id']
                acc.count('reach_configurations')
                acc.count('reach_objects', len(entries))
                acc.count('reach_callables', sum(1 for e in entries if e['callable']))
                acc.count('reach_paths_generated', len(exprs))
                tnames = sorted({e['type'] for e in entries})
                acc.count('reach_types', len(tnames))
                for t in tnames:
                    acc.count('reach_type:' + t)
                acc.count(f'reach_cfg:{cid}:objects', len(entries))
                acc.count(f'reach_cfg:{cid}:types', len(tnames))
                acc.count(f'reach_cfg:{cid}:expressions', len(exprs))
                acc.peak('reach_depth_max', max(e['depth'] for e in entries))
                for k, v in R.stats.items():
                    acc.count('reach_walk:' + k, v)
                if ci == 3:
                    deep = max(entries, key=lambda e: (e['depth'], e['callable']))
                    acc.sample({'kind': 'reach', 'configuration': cid, 'names': sorted(R.user[cid])[:12],
                                'deepest': deep['expr'], 'chain': deep['chain']})
        owners = reach_owners(plans) if tier == 'quick' else None
        index = 0
        for cfg, _entries, exprs in plans:
            ran = 0
            for _e, template, chain, form, key in exprs:
                if owners is not None and owners[key] != cfg['id']:
                    continue            # evaluated in another configuration that reaches the same mechanism
                index += 1
                if index % of != shard:
                    continue
                reach_one(R, racc, cfg, chain, template, form, 'const')
                if (index // of) % REACH_ALERT_EVERY[tier] == 0:
                    reach_one(R, racc, cfg, chain, template, form, 'alert')
                acc.count(f'reach_cfg:{cfg["id"]}:evaluated')
                if form == 'call' and template.endswith('()'):
                    acc.count('reach_callables_called')
                ran += 1
                if ran % REACH_CONTROL_EVERY == 0:
                    R.control(cfg)
            if ran:
                R.control(cfg)
        if shard == 0:
            acc.count('reach_mechanisms', len(owners) if owners is not None else len({x[4] for p in plans for x in p[2]}))
    finally:
        R.close()


# ------------------------------------------------------------------------------ unmonitored ground truth
CHILD = r'''
import sys
sys.path[:0] = [%(repo)r]
import tatsu
src = sys.argv[1]
try:
    model = tatsu.compile(src)
    r = model.parse('xyz')
    print('RESULT', repr(r))
except Exception as e:
    print('EXC', type(e).__name__)
print('SURVIVED')
'''

CHILD_CASES = [
    # (name, rule body, forbidden builtin involved, what would prove the effect)
    ('exit', "a:/[a-z]+/ @:```exit(7)```", 'exit', 'exit'),
    ('quit', "a:/[a-z]+/ @:```{quit(7)}```", 'quit', 'exit'),
    ('alert-exit', "a:/[a-z]+/ ^```{exit(7)}```", 'exit', 'exit'),
    ('open-write', "a:/[a-z]+/ @:```open('vt_c17_child.txt', 'w').write(a)```", 'open', 'file'),
    ('open-by-input', "f:`'vt_c17_child.txt'` a:/[a-z]+/ @:```{'op' 'en'}(f, 'w').write(a)```", 'open', 'file'),
    ('print', "a:/[a-z]+/ @:```print('VT-MARK-' + a)```", 'print', 'stdout'),
    ('input', "a:/[a-z]+/ @:```input()```", 'input', 'stdin'),
    ('eval', "a:/[a-z]+/ @:```eval('6 * 7')```", 'eval', 'value'),
    ('exec', "a:/[a-z]+/ @:```exec('a = 1')```", 'exec', 'none'),
    ('safe', "a:/[a-z]+/ @:```len(a) + 39```", None, 'control'),
]


def run_children(desc, acc):
    script = CHILD % {'repo': os.environ.get('VERIF_REPO', REPO)}
    for name, body, builtin_name, proof in CHILD_CASES:
        src = f'start = {body} ;\n'
        target = 'vt_c17_child.txt'
        if os.path.exists(target):
            os.unlink(target)
        try:
            p = subprocess.run([sys.executable, '-c', script, src], input='FROM-STDIN\n', capture_output=True,
                               text=True, timeout=120, cwd=os.getcwd())
        except subprocess.TimeoutExpired:
            acc.note(f'child {name} timed out')
            continue
        acc.evaluations += 1
        acc.count('child_runs')
        out = p.stdout
        wit = {'child': name, 'grammar': src}
        if 'SURVIVED' not in out:
            acc.violation('process-exit', f'[child {name}] {src.strip()!r}: the process ended with code {p.returncode} '
                                          f'during the parse; stderr {p.stderr[-200:]!r}', wit)
            continue
        acc.count('child_survived')
        fact = None
        if proof == 'file' and os.path.exists(target):
            fact = 'created and wrote the file ' + target
            os.unlink(target)
        elif proof == 'stdout' and 'VT-MARK-xyz' in out:
            fact = 'wrote to the process stdout'
        elif proof == 'stdin' and 'FROM-STDIN' in out:
            fact = 'read a line from the process stdin'
        elif proof == 'value' and 'RESULT 42' in out:
            fact = 'ran code given as a string (eval) and returned its value'
        elif proof == 'control':
            if 'RESULT 42' not in out:
                acc.violation('transparency:value', f'[child {name}] {src.strip()!r} did not give 42: {out[:200]!r}', wit)
            else:
                acc.count('child_control_ok')
        if fact:
            acc.count('child_effect_confirmed')
            acc.violation(f'exposed-builtin:{builtin_name}',
                          f'[child {name}, no monitors] {src.strip()!r}: the expression {fact}', wit)
    acc.sample({'child_cases': [c[0] for c in CHILD_CASES]})


def replay(w, acc):
    cwd = os.getcwd()
    try:
        setup_process()
        if 'child' in w:
            global CHILD_CASES
            keep = CHILD_CASES
            CHILD_CASES = [c for c in keep if c[0] == w['child']]
            try:
                run_children({'seed': 0}, acc)
            finally:
                CHILD_CASES = keep
            return
        warm_up()
        if 'look_direct' in w:
            d = w['look_direct']
            look_direct(acc, d['name'], d['access'], d['wrap'])
            return
        if 'reach' in w:
            r = w['reach']
            S.ST.unblocked = REACH_UNJUDGED_EVENTS
            R = Reach('thorough' if r.get('tier') == 'thorough' else 'quick', acc)
            try:
                cfg = R.cfgs.get(r['cfg']) or {c['id']: c for c in reach_configs('thorough')}[r['cfg']]
                R.cfgs[cfg['id']] = cfg
                if R.discover(cfg) is not None:
                    R.chain_cfgs[r['chain'].split('|')[0].removesuffix('()')] = list(r.get('reached_in') or [cfg['id']])
                    reach_one(R, ReachAcc(acc), cfg, r['chain'], r['expr'], r.get('form', 'call'), r.get('place', 'const'))
            finally:
                R.close()
            return
        case = dict(w['case'])
        if w['route'] != 'eval':
            from ..common import Acc
            obs = check_route(Acc(), case, 'eval')
            case['_rejected'] = obs is not None and 'is_eval_safe:False' in obs.ambient
        check_route(acc, case, w['route'], w.get('textroute', False))
    finally:
        os.chdir(cwd)


MANIFEST = {
    'technique': 'runtime monitoring: sys.addaudithook + PEP 669 CALL/INSTRUCTION events on the code objects the real evaluator '
                 'executes for a constant, a probe AST value and a recording stdout; value transparency against plain Python',
    'level_text': 'every name of vars(builtins) in 41 call/placement forms (complete) plus seeded random expressions (attribute '
                  'chains, comprehensions, lambdas, walrus, starred calls, nested f-strings, interpolation, string-built texts, '
                  'shadowing AST keys, format-field traversals) are evaluated by the real code through four routes (safe_eval, '
                  '`constant`, ^`alert`, input text re-evaluated by constant()); for each execution the monitors list the callables '
                  'called, the names read with the objects they resolved to, the attribute instructions executed and the audit '
                  'events caused, and the verdict is the statement read over that list; exploration is the right level because the '
                  'quantifier ranges over all expression strings; an attribute-reachability sweep walks the live objects the '
                  'parser binds in the AST (parseinfo, cursor, input, configuration, semantics, typed nodes) for 14 '
                  'configurations of input kind x parseinfo x result kind and reads/calls/iterates everything reached, '
                  'signatures = effect + chain of type.attribute names; value transparency also over nested ASTs whose field '
                  'names look like denied names (prefix/suffix/substring of introspection attributes, format, dunders, '
                  'builtin names): the vocabulary is complete through the helper and through one parse route per name',
    'level_note': 'trusted: CPython audit events and sys.monitoring, the classification of builtins in vt/monitors/sandbox.py; '
                  'effects are blocked after being recorded, so values of violating expressions are not meaningful; a few '
                  'unmonitored child processes confirm the effects end to end; held = no forbidden callable/name/attribute/effect in '
                  'the executions listed in the evidence, not a proof',
}
