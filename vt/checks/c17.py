"""C17 - constant expressions in grammars are evaluated in a sandbox.

Oracle: interpreter-level monitors (vt/monitors/sandbox.py) around every call into the real
evaluator: the audit hook (effects), PEP 669 CALL/INSTRUCTION events restricted to the code
objects the evaluator executes for the expression (callables, name reads, attribute ops), a
probe value (dunder lookups from C code) and a recording stdout.  Plus value transparency of
safe expressions against plain Python, and a few unmonitored child processes as ground truth.
DESIGN.md section 3/C17.
"""
from __future__ import annotations

import ast as pyast
import builtins
import io
import os
import random
import signal
import subprocess
import sys
import warnings

from .. import lang as L
from ..common import REPO, VERIF, h64
from ..monitors import sandbox as S
from ..monitors import sandbox_exprs as X

ID = 'C17'
LEVEL = 'exploration'
RULE = ('cases = (expression text, extra AST bindings, route); routes: eval = tatsu.util.safeeval.is_eval_safe + safe_eval with '
        'safe_builtins() | AST names; const = `expr` in a rule evaluated by a real parse (object route; every 16th case also '
        'through tatsu.compile of the grammar text); alert = ^`expr`; input = the expression is the INPUT text, bound to a name '
        'and interpolated by `{e}` (constant() re-evaluates string results). Expressions: finite sweep = every name in '
        'vars(builtins) x 27 argument lists x 14 placements (bare, subscripted, as key=, in f-strings, in comprehensions, '
        'interpolated); random = attribute chains with/without dunders, 90 composers (comprehensions, lambdas, walrus, starred '
        'calls, nested f-strings, interpolation braces, layout) over safe/risky atoms to depth 3, string-built expression '
        'texts, AST keys shadowing builtins, str.format field traversals; T = typed safe expressions with known value (AST text also beyond '
        'ASCII/Latin-1/BMP); nfkc = cases of every family with identifiers (dunder chains, builtin and method names, shadowed '
        'keys) re-spelled in NFKC-equivalent code points (fullwidth, mathematical, modifier/sub/superscript letters, roman '
        'numerals, ligatures, U+FF3F/FE33/FE4D.. low lines; all identifiers, one, all but one; never two adjacent ASCII '
        'underscores in a re-spelled name), value compared with the ASCII spelling. '
        'non-trivial = the evaluator executed at least one code object for the expression under the monitors; distinct by '
        '(route, expression, bindings)')
ASSUMPTIONS = [
    'forbidden builtins are fixed from the clauses of the statement (vt/monitors/sandbox.py FORBIDDEN_WHY): open, __import__, '
    'eval, exec, compile, breakpoint, __build_class__, input, help, license, exit, quit, getattr/setattr/delattr/hasattr, vars, dir, '
    'globals, locals, type, object, super, print, copyright, credits and dunder-named builtins; every other builtin is not judged',
    'PURE = abs all any ascii bin chr divmod format hex len max min oct ord pow repr round sorted sum are the pure builtin '
    'functions a safe expression may use; value transparency is asserted only for expressions over these, AST names, literals, '
    'operators, subscripts, comprehensions over AST names and methods of str/int/list values',
    'an effect is attributed to the expression iff a frame of a code object the evaluator executed for it (or of code nested in / '
    'exec-ed by it) is on the Python stack when the audit event fires; effects are blocked after being recorded',
    'generator/frame introspection attributes (gi_frame, f_globals...) are not dunder attributes: counted, not judged',
    'a non-ParseException exception escaping model.parse from a constant (TypeError from ast.literal_eval of `{[1]: 2}`) is '
    'counted, not judged; SystemExit/KeyboardInterrupt escaping is judged (exits the process)',
    'string results that constant() would evaluate again are compared only when plain Python says the re-evaluation is inert '
    '(not a literal, and either not an expression or one with an unbound name)',
]
EXHAUSTIVE = {
    'quick': f'every name in vars(builtins) ({len(X.BUILTIN_NAMES)}) x {len(X.CALL_ARGS)} argument lists and x '
             f'{len(X.PLACEMENTS)} placements, each through the 4 routes',
    'thorough': f'every name in vars(builtins) ({len(X.BUILTIN_NAMES)}) x {len(X.CALL_ARGS)} argument lists and x '
                f'{len(X.PLACEMENTS)} placements, each through the 4 routes',
}
FLOORS = {
    'quick': {'evaluations': 30000, 'distinct_nontrivial': 9000, 'roots_executed': 35000, 'call_events': 7000,
              'name_reads': 18000, 'instructions_observed': 100000, 'builtins_swept': len(X.BUILTIN_NAMES),
              'sweep_cases': len(X.BUILTIN_NAMES) * (len(X.CALL_ARGS) + len(X.PLACEMENTS)),
              'route:eval': 8000, 'route:const': 8000, 'route:alert': 8000, 'route:input': 8000, 'route:const-text': 400,
              'transparency_compared': 4000, 'rejected_outcome_checked': 5000, 'child_runs': 10,
              'child_control_ok': 1, 'kind:attr': 1000, 'kind:compose': 2000, 'kind:strbuild': 800, 'kind:shadow': 600,
              'kind:fmt': 400, 'nfkc_variants': 1200, 'nfkc_builtins_swept': len(X.BUILTIN_NAMES),
              'nfkc_dunder_without_ascii_pair': 200, 'nfkc_touching_evaluations': 900, 'nfkc_transparency_compared': 500},
    'thorough': {'evaluations': 330000, 'distinct_nontrivial': 110000, 'roots_executed': 600000, 'call_events': 150000,
                 'name_reads': 350000, 'builtins_swept': len(X.BUILTIN_NAMES),
                 'sweep_cases': len(X.BUILTIN_NAMES) * (len(X.CALL_ARGS) + len(X.PLACEMENTS)),
                 'route:const-text': 5000, 'transparency_compared': 80000, 'rejected_outcome_checked': 40000,
                 'child_runs': 10, 'child_control_ok': 1, 'nfkc_variants': 24000,
                 'nfkc_builtins_swept': len(X.BUILTIN_NAMES), 'nfkc_dunder_without_ascii_pair': 5000,
                 'nfkc_touching_evaluations': 22000, 'nfkc_transparency_compared': 12000},
}
SHARD_TIMEOUT = {'quick': 900, 'thorough': 5400}

N_RANDOM = {'quick': 2400, 'thorough': 120000}
N_T = {'quick': 1600, 'thorough': 40000}
N_NFKC = {'quick': 1800, 'thorough': 45000}
N_SHARDS = {'quick': 15, 'thorough': 47}
TEXT_EVERY = 16
ROUTES = ('eval', 'const', 'alert', 'input')
BASE_NAMES = ('a', 'n', 't', 'p')
WATCHDOG_S = 2          # CPU seconds of this process (ITIMER_VIRTUAL); a normal evaluation takes ~5 ms
WATCHDOG_REPEAT_S = 0.25
INPUT_NAME = 'src_'


def plan(tier, seed):
    k = N_SHARDS[tier]
    shards = [{'mode': 'mix', 'seed': seed, 'shard': i, 'of': k, 'n_random': N_RANDOM[tier] // k,
               'n_t': N_T[tier] // k, 'n_nfkc': N_NFKC[tier] // k} for i in range(k)]
    shards.append({'mode': 'child', 'seed': seed})
    return shards


# ------------------------------------------------------------------------------ harness side
class Sem:
    def __init__(self, probe, ctx=None):
        self._probe = probe
        if ctx is not None:
            self.safe_context = lambda: dict(ctx)

    def probe(self, ast):
        return self._probe


def double(x):
    return x * 2


def grammar(case, route):
    bind = case.get('bind') or {}
    if route == 'input':
        items = [L.Named('n', L.Const('3')), L.Named('t', L.Const('[1, 2, 3]')), L.Named('p', L.Call('probe')),
                 L.Named('a', L.Const("'xyz'"))]
    else:
        items = [L.Named('a', L.Pat('[a-z]+')), L.Named('n', L.Const('3')), L.Named('t', L.Const('[1, 2, 3]')),
                 L.Named('p', L.Call('probe'))]
    for k, v in bind.items():
        items.append(L.Named(k, L.Const(v)))
    if route == 'input':
        items += [L.Named(INPUT_NAME, L.Pat('(?s).+')), L.Over(L.Const('{' + INPUT_NAME + '}'))]
    elif route == 'alert':
        items += [L.Alert(case['expr'], 2)]
    else:
        items += [L.Over(L.Const(case['expr']))]
    return L.Grammar([L.Rule('start', L.Seq(tuple(items))), L.Rule('probe', L.Void())])


def grammar_source(case, route):
    """the same grammar as text, with the expression between triple back-quotes"""
    g = grammar(case, route)
    body = g.rules[0].body
    parts = []
    for it in body.items:
        if isinstance(it, L.Over) and isinstance(it.e, L.Const):
            parts.append('@:```' + it.e.text + '```')
        elif isinstance(it, L.Alert):
            parts.append('^' * it.level + '```' + it.text + '```')
        elif isinstance(it, L.Named) and isinstance(it.e, L.Const):
            parts.append(f'{it.n}:```{it.e.text}```')
        else:
            parts.append(L.txt_item(it))
    return 'start = ' + ' '.join(parts) + ' ;\nprobe = () ;\n'


def user_names(case, route, probe):
    u = {'a': 'xyz', 'n': 3, 't': [1, 2, 3], 'p': probe}
    for k, v in (case.get('bind') or {}).items():
        try:
            u[k] = pyast.literal_eval(v)
        except (ValueError, SyntaxError):
            u[k] = v
    if route == 'input':
        u[INPUT_NAME] = case['expr']
    if case.get('ctx'):
        u['double'] = double
    return u


class _Stdin(io.StringIO):
    def close(self):       # site.Quitter closes sys.stdin
        pass


WD = {'armed': False, 'fired': 0}


def on_alarm(signum, frame):
    # periodic: a Hang raised inside a weakref callback or __del__ is swallowed by the interpreter
    if WD['armed']:
        WD['fired'] += 1
        raise S.Hang()


def observe(fn):
    """one call into the real code under all monitors -> (obs, outcome)"""
    from tatsu.exceptions import ParseException
    real_stdin = sys.stdin
    sys.stdin = _Stdin('')
    win = S.window()
    obs = win.__enter__()
    out = ('hang', f'{WATCHDOG_S}s')
    WD['fired'] = 0
    try:
        try:
            WD['armed'] = True
            signal.setitimer(signal.ITIMER_VIRTUAL, WATCHDOG_S, WATCHDOG_REPEAT_S)
            try:
                out = ('ok', fn())
            except ParseException as e:
                out = ('fail', type(e).__name__, str(e).split('\n')[0][:200])
            except S.Blocked as e:
                out = ('blocked', str(e))
            except S.Hang:
                out = ('hang', f'{WATCHDOG_S}s')
            except Exception as e:  # noqa: BLE001 - the class is the observation
                out = ('exc', type(e).__name__, str(e)[:200])
            except BaseException as e:  # noqa: BLE001
                out = ('base', type(e).__name__, str(e)[:100])
        finally:
            WD['armed'] = False
            signal.setitimer(signal.ITIMER_VIRTUAL, 0)
    except S.Hang:
        out = ('hang', f'{WATCHDOG_S}s')
    finally:
        WD['armed'] = False
        signal.setitimer(signal.ITIMER_VIRTUAL, 0)
        win.__exit__(None, None, None)
        sys.stdin = real_stdin
    if WD['fired']:
        out = ('hang', f'{WATCHDOG_S}s')      # whatever the real code made of the watchdog exception
    return obs, out


def expected_value(case, env):
    """plain Python over the allowed names"""
    expr = case.get('ascii', case['expr'])      # NFKC variants: the value of the plain spelling
    if case['kind'] == 'interp':
        expr = 'f' + repr(expr)
    ns = {k: getattr(builtins, k) for k in S.PURE}
    ns.update(env)
    try:
        return ('ok', eval(expr, {'__builtins__': {}}, ns))  # noqa: S307 - the reference evaluation
    except Exception as e:  # noqa: BLE001
        return ('exc', type(e).__name__)


def fixpoint(v, env, fuel=5):
    """what constant()'s documented loop does to a value: -> ('exact', v) | ('text-or-fail', s) | None (not decided)"""
    while isinstance(v, str):
        fuel -= 1
        if fuel < 0 or v != v.strip() or any(c in v for c in '{}\n\t\r\\') or not v:
            return None
        try:
            v = pyast.literal_eval(v)
            continue
        except (ValueError, SyntaxError):
            pass
        except Exception:  # noqa: BLE001
            return None
        try:
            tree = pyast.parse(v, mode='eval')
        except (SyntaxError, ValueError):
            return ('exact', v)
        except Exception:  # noqa: BLE001
            return None
        for node in pyast.walk(tree):
            if isinstance(node, pyast.Name) and node.id not in env and node.id not in vars(builtins):
                return ('text-or-fail', v)
        return None
    return ('exact', v)


def same_value(x, y, probe):
    if x is probe or y is probe:
        return x is y
    if type(x) is not type(y):
        return False
    if isinstance(x, (list, tuple)):
        return len(x) == len(y) and all(same_value(i, j, probe) for i, j in zip(x, y))
    if isinstance(x, float) and x != x:
        return y != y
    try:
        return bool(x == y)
    except Exception:  # noqa: BLE001
        return False


def plain_text(expr):
    return expr == expr.strip() and '\n' not in expr and '\t' not in expr and '{' not in expr and '}' not in expr and '\\' not in expr


# ------------------------------------------------------------------------------ one case, one route
def run_route(case, route, textroute=False):
    """-> (obs, outcome, user names, extra violations [(sig, what)])"""
    from tatsu.util.safeeval import SecurityError, is_eval_safe, safe_builtins, safe_eval
    probe = S.Probe()
    user = user_names(case, route, probe)
    extra = []
    if route == 'eval':
        expr = case['expr']
        if case['kind'] == 'interp':
            expr = 'f' + repr(expr)
        ctx = dict(safe_builtins())
        ctx.update(user)
        o1, safe = observe(lambda: is_eval_safe(expr, dict(ctx)))
        if [c for c in o1.roots]:
            extra.append(('check-executes', 'is_eval_safe executed the expression'))
        obs, out = observe(lambda: safe_eval(expr, ctx))
        obs.ambient['is_eval_safe:' + (repr(safe[1]) if safe[0] == 'ok' else 'raised')] = 1
        if safe == ('ok', False):
            if obs.roots:
                extra.append(('rejected-but-executed', 'is_eval_safe said False, safe_eval executed the expression'))
            elif not (out[0] == 'exc' and out[1] == SecurityError.__name__):
                extra.append(('rejected-but-no-error', f'is_eval_safe said False, safe_eval gave {out[:2]}'))
        return obs, out, user, extra

    sem = Sem(probe, {'double': double} if case.get('ctx') else None)
    if textroute:
        import tatsu
        try:
            model = tatsu.compile(grammar_source(case, route))
        except Exception as e:  # noqa: BLE001
            return None, ('build', type(e).__name__, str(e).split('\n')[0][:160]), user, extra
    else:
        model = L.to_model(grammar(case, route))
    text = case['expr'] if route == 'input' else 'xyz'
    kw = {'parseinfo': True} if route == 'alert' else {}
    obs, out = observe(lambda: model.parse(text, semantics=sem, **kw))
    return obs, out, user, extra


def alert_message(result):
    try:
        return ('ok', result['parseinfo'].alerts[-1].message)
    except Exception:  # noqa: BLE001
        return None


def check_route(acc, case, route, textroute=False):
    obs, out, user, extra = run_route(case, route, textroute)
    acc.evaluations += 1
    rname = route + ('-text' if textroute else '')
    acc.count('route:' + rname)
    acc.count('kind:' + case['kind'])
    if obs is None:
        acc.count('unbuildable:' + rname)
        return None
    wit = {'case': {k: case[k] for k in ('expr', 'kind', 'bind', 'T', 'ascii', 'nfkc') if k in case}
                   | ({'ctx': 1} if case.get('ctx') else {}),
           'route': route, 'textroute': textroute}
    where = f'[{rname}] {case["expr"]!r}' + (f' with AST keys {case["bind"]}' if case.get('bind') else '')
    if case.get('nfkc'):
        where += f' (NFKC spelling of {case["ascii"]!r})'
        acc.count('nfkc_evaluations')

    # ---- what the monitors saw
    nroots = len(obs.roots)
    acc.count('roots_executed', nroots)
    acc.count('instructions_observed', obs.instr)
    acc.count('call_events', len(obs.calls))
    acc.count('name_reads', len(obs.names))
    acc.count('attr_ops', len(obs.attrs))
    acc.count('walrus_stores', len(obs.stores))
    acc.count('probe_dunder_lookups', len(obs.probe))
    acc.count('expr_effects_blocked', obs.blocked)
    acc.count('expr_stdout_chars', obs.writes)
    for e, _ in obs.effects:
        acc.count('expr_audit:' + e)
    amb = 0
    for k, v in obs.ambient.items():
        if k.startswith('expr:'):
            acc.count('expr_audit_unjudged:' + k[5:], v)
        elif not k.startswith('is_eval_safe:'):
            amb += v
    acc.count('ambient_audit_events', amb)
    for c in obs.calls:
        kind, n = S.classify_callable(c, obs, list(user.values()))
        acc.count('callable:' + kind)
        if kind in ('builtin', 'forbidden'):
            acc.count('called_builtin:' + n)
    if route == 'eval':
        acc.count('eval_outcome:' + out[0] + (':' + out[1] if out[0] in ('exc', 'base') else ''))
    else:
        acc.count('parse_outcome:' + out[0] + (':' + out[1] if out[0] in ('exc', 'base') else ''))
    touched = bool(obs.names or obs.calls or obs.attrs)
    if touched:
        acc.count('touching_evaluations')
        if case.get('nfkc'):
            acc.count('nfkc_touching_evaluations')
        acc.nontriv(route, case['expr'], case.get('bind'))
    else:
        acc.count('untouching_evaluations')   # rejected, literal, or constant-only
    if out[0] == 'hang':
        # neither "left as uninterpreted text" nor "reported as a semantic failure": the call never returns
        ids = obs.ambient.get('builtins.id', 0)
        acc.violation('evaluation-never-returns',
                      f'{where}: the evaluation did not return within {WATCHDOG_S} CPU-seconds ({ids} id() audit events from the '
                      f'safety check, {nroots} code objects executed: the evaluator is looping)', wit)
        return obs
    if out[0] == 'exc' and route != 'eval':
        acc.note(f'non-ParseException escaped parse: {out[1]} e.g. {case["expr"]!r}')
    if os.path.exists(X.TARGET):
        os.unlink(X.TARGET)
        acc.violation('effect:file-created', f'{where}: the target file exists after the evaluation', wit)

    # ---- sandbox verdict
    for sig, what in S.judge(obs, user) + extra:
        acc.violation(sig, f'{where}: {what}', wit)
    if out[0] == 'base' and out[1] in ('SystemExit', 'KeyboardInterrupt', 'GeneratorExit'):
        acc.violation('process-exit', f'{where}: {out[1]} propagated out of the evaluation', wit)

    # ---- value transparency
    if case.get('T'):
        exp = expected_value(case, user)
        got = out
        if route == 'alert' and out[0] == 'ok':
            got = alert_message(out[1])
            if got is None:
                acc.count('alert_message_unobserved')
                return obs
        if exp[0] == 'ok' and route == 'input' and case['kind'] == 'interp':
            # a template that arrives in the input text: whether constant() interpolates text it has just
            # interpolated is not part of the statement
            acc.count('transparency_skipped_input_template')
        elif exp[0] == 'ok':
            want = ('exact', exp[1]) if route == 'eval' else fixpoint(exp[1], user)
            if want is None:
                acc.count('transparency_skipped_reevaluable')
            else:
                acc.count('transparency_compared')
                if case.get('nfkc'):
                    acc.count('nfkc_transparency_compared')
                ok = got[0] == 'ok' and same_value(got[1], want[1], user['p'])
                if not ok and want[0] == 'text-or-fail' and got[0] == 'fail':
                    ok = True
                if not ok:
                    if got[0] != 'ok':
                        sig = 'transparency:safe-expression-' + ('rejected' if not nroots else 'failed')
                        if 'maximum recursion depth' in str(got[-1]):
                            sig = 'transparency:safe-expression-failed:RecursionError'
                    elif route != 'eval' and isinstance(got[1], str) and got[1].strip() == case['expr'].strip():
                        sig = 'transparency:safe-expression-rejected'
                    else:
                        sig = 'transparency:value'
                    acc.violation(sig, f'{where}: plain Python gives {want[1]!r}, the evaluator gave {got[:2]!r:.200}', wit)
        else:
            acc.count('transparency_compared_raising')
            if got[0] == 'ok' and not (route != 'eval' and isinstance(got[1], str)):
                acc.violation('transparency:value', f'{where}: plain Python raises {exp[1]}, the evaluator gave {got[1]!r:.120}', wit)
    elif route in ('const', 'alert') and case.get('_rejected') and plain_text(case['expr']):
        # "a rejected expression is left as uninterpreted text or reported as a semantic failure"
        try:
            pyast.literal_eval(case['expr'].strip())
            lit = True
        except Exception:  # noqa: BLE001
            lit = False
        got = out
        if route == 'alert' and out[0] == 'ok':
            got = alert_message(out[1])
        if not lit and got is not None and got[0] in ('ok', 'fail'):
            acc.count('rejected_outcome_checked')
            if got[0] == 'ok':
                if isinstance(got[1], str) and got[1].strip() == case['expr'].strip():
                    acc.count('rejected_left_as_text')
                else:
                    acc.violation('rejected-not-text', f'{where}: is_eval_safe rejects the expression, yet the value is '
                                                       f'{got[1]!r:.120}', wit)
            else:
                acc.count('rejected_reported_as_failure')
    return obs


def check_case(acc, case, index):
    case = dict(case)
    for route in ROUTES:
        obs = check_route(acc, case, route)
        if route == 'eval' and obs is not None:
            # the helper's own verdict on this expression over the same names (used for the
            # "rejected => text or failure" relation on the parser routes)
            case['_rejected'] = 'is_eval_safe:False' in obs.ambient
            acc.count('is_eval_safe:' + ('rejected' if case['_rejected'] else 'accepted-or-error'))
    if index % TEXT_EVERY == 0 and '```' not in case['expr'] and not case['expr'].endswith('`'):
        check_route(acc, case, 'const', textroute=True)


# ------------------------------------------------------------------------------ shards
def setup_process():
    warnings.simplefilter('ignore')
    os.environ['PYTHONBREAKPOINT'] = '0'
    scratch = os.environ.get('VT_SCRATCH')
    if scratch:
        os.makedirs(scratch, exist_ok=True)
        os.chdir(scratch)
    try:
        import resource
        resource.setrlimit(resource.RLIMIT_FSIZE, (1 << 26, 1 << 26))
    except Exception:  # noqa: BLE001
        pass
    S.install()
    signal.signal(signal.SIGVTALRM, on_alarm)


def run_shard(desc, acc):
    cwd = os.getcwd()
    try:
        setup_process()
        if desc['mode'] == 'child':
            run_children(desc, acc)
        else:
            run_mix(desc, acc)
    finally:
        os.chdir(cwd)


def warm_up():
    """lazy imports and caches of the real code are filled before anything is observed"""
    case = {'expr': 'len(a) + n', 'kind': 'T', 'bind': {}, 'T': True}
    for route in ROUTES:
        run_route(case, route)


def run_mix(desc, acc):
    warm_up()
    shard, of = desc['shard'], desc['of']
    sweep = X.sweep_cases()
    per_name = len(X.CALL_ARGS) + len(X.PLACEMENTS)
    for i, case in enumerate(sweep):
        if i % of != shard:
            continue
        check_case(acc, case, i // of)
        acc.count('sweep_cases')
        if i % per_name == 0:
            acc.count('builtins_swept')      # the shard that ran the first form of a name counts the name
            # the same name spelled in NFKC-equivalent code points (ｅｖａｌ(a), 𝐨𝐩𝐞𝐧(a), ...)
            rng = random.Random(h64('C17', 'nfkc-sweep', case['b']))
            v = X.nfkc_variant(rng, case['b'] + '(a)', mode='all')
            if v:
                check_case(acc, {'expr': v[0], 'ascii': case['b'] + '(a)', 'nfkc': f'{v[1]}/{v[2]}', 'kind': 'sweep-call',
                                 'bind': {}, 'T': False}, i // of)
                acc.count('nfkc_variants')
                acc.count('nfkc_builtins_swept')
    for i in range(desc['n_random']):
        rng = random.Random(h64('C17', desc['seed'], 'random', shard, i))
        case = X.random_case(rng)
        check_case(acc, case, i)
        if i == 0:
            acc.sample({'kind': case['kind'], 'expr': case['expr'], 'bind': case['bind'], 'routes': list(ROUTES)})
    for i in range(desc.get('n_nfkc', 0)):
        rng = random.Random(h64('C17', desc['seed'], 'nfkc', shard, i))
        case = X.nfkc_case(rng)
        if not case.get('nfkc'):
            acc.count('nfkc_unspellable')
            continue
        check_case(acc, case, i)
        acc.count('nfkc_variants')
        acc.count('nfkc_mode:' + case['nfkc'].split('/')[0])
        acc.count('nfkc_style:' + case['nfkc'].split('/')[1])
        acc.count('nfkc_base:' + case['kind'])
        if '__' in case['ascii'] and '__' not in case['expr']:
            acc.count('nfkc_dunder_without_ascii_pair')
        if i == 2:
            acc.sample({'kind': case['kind'], 'nfkc': case['nfkc'], 'expr': case['expr'], 'ascii': case['ascii']})
    for i in range(desc['n_t']):
        rng = random.Random(h64('C17', desc['seed'], 'T', shard, i))
        case = X.t_case(rng)
        if i % 40 == 7:
            case = {'expr': f'double({X.t_int(rng, 1)})', 'kind': 'T', 'bind': {}, 'T': True, 'ctx': 1}
        check_case(acc, case, i)
        if i == 1:
            acc.sample({'kind': case['kind'], 'expr': case['expr'], 'expected': repr(expected_value(
                case, user_names(case, 'const', S.Probe())))[:120]})


# ------------------------------------------------------------------------------ unmonitored ground truth
CHILD = r'''
import sys
sys.path[:0] = [%(repo)r]
import tatsu
src = sys.argv[1]
try:
    model = tatsu.compile(src)
    r = model.parse('xyz')
    print('RESULT', repr(r))
except Exception as e:
    print('EXC', type(e).__name__)
print('SURVIVED')
'''

CHILD_CASES = [
    # (name, rule body, forbidden builtin involved, what would prove the effect)
    ('exit', "a:/[a-z]+/ @:```exit(7)```", 'exit', 'exit'),
    ('quit', "a:/[a-z]+/ @:```{quit(7)}```", 'quit', 'exit'),
    ('alert-exit', "a:/[a-z]+/ ^```{exit(7)}```", 'exit', 'exit'),
    ('open-write', "a:/[a-z]+/ @:```open('vt_c17_child.txt', 'w').write(a)```", 'open', 'file'),
    ('open-by-input', "f:`'vt_c17_child.txt'` a:/[a-z]+/ @:```{'op' 'en'}(f, 'w').write(a)```", 'open', 'file'),
    ('print', "a:/[a-z]+/ @:```print('VT-MARK-' + a)```", 'print', 'stdout'),
    ('input', "a:/[a-z]+/ @:```input()```", 'input', 'stdin'),
    ('eval', "a:/[a-z]+/ @:```eval('6 * 7')```", 'eval', 'value'),
    ('exec', "a:/[a-z]+/ @:```exec('a = 1')```", 'exec', 'none'),
    ('safe', "a:/[a-z]+/ @:```len(a) + 39```", None, 'control'),
]


def run_children(desc, acc):
    script = CHILD % {'repo': os.environ.get('VERIF_REPO', REPO)}
    for name, body, builtin_name, proof in CHILD_CASES:
        src = f'start = {body} ;\n'
        target = 'vt_c17_child.txt'
        if os.path.exists(target):
            os.unlink(target)
        try:
            p = subprocess.run([sys.executable, '-c', script, src], input='FROM-STDIN\n', capture_output=True,
                               text=True, timeout=120, cwd=os.getcwd())
        except subprocess.TimeoutExpired:
            acc.note(f'child {name} timed out')
            continue
        acc.evaluations += 1
        acc.count('child_runs')
        out = p.stdout
        wit = {'child': name, 'grammar': src}
        if 'SURVIVED' not in out:
            acc.violation('process-exit', f'[child {name}] {src.strip()!r}: the process ended with code {p.returncode} '
                                          f'during the parse; stderr {p.stderr[-200:]!r}', wit)
            continue
        acc.count('child_survived')
        fact = None
        if proof == 'file' and os.path.exists(target):
            fact = 'created and wrote the file ' + target
            os.unlink(target)
        elif proof == 'stdout' and 'VT-MARK-xyz' in out:
            fact = 'wrote to the process stdout'
        elif proof == 'stdin' and 'FROM-STDIN' in out:
            fact = 'read a line from the process stdin'
        elif proof == 'value' and 'RESULT 42' in out:
            fact = 'ran code given as a string (eval) and returned its value'
        elif proof == 'control':
            if 'RESULT 42' not in out:
                acc.violation('transparency:value', f'[child {name}] {src.strip()!r} did not give 42: {out[:200]!r}', wit)
            else:
                acc.count('child_control_ok')
        if fact:
            acc.count('child_effect_confirmed')
            acc.violation(f'exposed-builtin:{builtin_name}',
                          f'[child {name}, no monitors] {src.strip()!r}: the expression {fact}', wit)
    acc.sample({'child_cases': [c[0] for c in CHILD_CASES]})


def replay(w, acc):
    cwd = os.getcwd()
    try:
        setup_process()
        if 'child' in w:
            global CHILD_CASES
            keep = CHILD_CASES
            CHILD_CASES = [c for c in keep if c[0] == w['child']]
            try:
                run_children({'seed': 0}, acc)
            finally:
                CHILD_CASES = keep
            return
        warm_up()
        case = dict(w['case'])
        if w['route'] != 'eval':
            from ..common import Acc
            obs = check_route(Acc(), case, 'eval')
            case['_rejected'] = obs is not None and 'is_eval_safe:False' in obs.ambient
        check_route(acc, case, w['route'], w.get('textroute', False))
    finally:
        os.chdir(cwd)


MANIFEST = {
    'technique': 'runtime monitoring: sys.addaudithook + PEP 669 CALL/INSTRUCTION events on the code objects the real evaluator '
                 'executes for a constant, a probe AST value and a recording stdout; value transparency against plain Python',
    'level_text': 'every name of vars(builtins) in 41 call/placement forms (complete) plus seeded random expressions (attribute '
                  'chains, comprehensions, lambdas, walrus, starred calls, nested f-strings, interpolation, string-built texts, '
                  'shadowing AST keys, format-field traversals) are evaluated by the real code through four routes (safe_eval, '
                  '`constant`, ^`alert`, input text re-evaluated by constant()); for each execution the monitors list the callables '
                  'called, the names read with the objects they resolved to, the attribute instructions executed and the audit '
                  'events caused, and the verdict is the statement read over that list; exploration is the right level because the '
                  'quantifier ranges over all expression strings',
    'level_note': 'trusted: CPython audit events and sys.monitoring, the classification of builtins in vt/monitors/sandbox.py; '
                  'effects are blocked after being recorded, so values of violating expressions are not meaningful; a few '
                  'unmonitored child processes confirm the effects end to end; held = no forbidden callable/name/attribute/effect in '
                  'the executions listed in the evidence, not a proof',
}
