"""C18 — parallel processing yields exactly one result per payload.

Oracle: offline checker over the history of results the real loop yields (vt/monitors/c18_sched.py
`check_history`): every payload carries an id the checker reads back from result.payload; exactly one result
per list position (an id listed k times: exactly k results), carrying the task function's outcome or the
exception it raised, and multiset equality with the sequential mode (`parallel=False`) on
(payload id, outcome, type(exception), exception.args).

Workloads: (a) the real `parproc()`/`parallel_proc()` generator driven under a deterministic executor
whose completion schedule is a decision sequence, enumerated depth-first to exhaustion per
(payload count, workers, raising subset); (b) real ProcessPoolExecutor runs in a child process.
(b') in both: the captured exception ranges over the builtin exception hierarchy (c18_sched.EXC_KIND_NAMES: every
builtin Exception class outside the RuntimeError family, errno-built OSErrors, standard-library and user-defined
classes incl. multiple inheritance), and payload lists in which different positions compare equal: the same object
listed again, equal twins, payload classes whose ==/hash ignore the id, unhashable payloads.
(c) disturbed runs in both: the consumer abandons a run (stop event of a Result / close), or a payload
cannot be carried to a captured result (not picklable, undeclared exception); judged by the relaxed
oracle `check_disturbed`, and - the point of them - followed in the same process by ordinary runs that
are judged completely (call sequences), and checked for duplicates (a loop that starts over).
DESIGN.md section 3/C18.
"""
from __future__ import annotations

import json
import os
import random
import signal
import subprocess
import sys

from ..common import h64

ID = 'C18'
LEVEL = 'fault_enumeration'
RULE = ('cases = one run of the real parallel loop (tatsu.parproc.parproc / parallel_proc, parallel=True) over a list of '
        'payloads with unique ids, a subset of which raise an exception the loop is asked to capture (reraise=False and '
        'raises() empty or matching), judged against the sequential mode on the same payload specs. '
        'deterministic slice: for every (n payloads, workers, raising subset) the decision tree of the scheduler '
        '(at every submit, yield and wait: complete one more running future - at most `workers` run, FIFO start - or '
        'stop; a blocked wait forces a completion) is enumerated depth-first to exhaustion, each leaf one single-threaded '
        'run of the real generator with the real taskproc and the real concurrent.futures.as_completed; payload class, '
        'raises() declaration, entry point, pickable, extra args and as_completed hand-out order rotate with the '
        'configuration index. exception kinds: every builtin Exception class that is not a RuntimeError (OSError family '
        'with every errno subclass, EOFError, Lookup/Arithmetic/Value/Unicode/Import/Name/Syntax families, AttributeError, '
        'AssertionError, BufferError, MemoryError, ReferenceError, SystemError, StopIteration, StopAsyncIteration, '
        'ExceptionGroup, the Warning classes), OSError(errno, text) for nine errnos (the constructor picks the subclass), '
        'io.UnsupportedOperation, json.JSONDecodeError, subprocess.CalledProcessError, pickle.UnpicklingError and seven '
        'user-defined classes (subclasses of KeyError / ConnectionError / EOFError, two bases, own constructor), each '
        'built with arguments its constructor takes and admitted only if an instance survives a pickle round trip with '
        'type and args; the kinds rotate over the raising slots of the plan, largest trees first, so that every kind is '
        'raised in the n>=4 trees, and every real-pool shard has one case that raises every kind once. '
        'equal payloads: every fourth deterministic configuration uses a payload class whose == and hash ignore the id '
        '(class with __eq__/__hash__ on a group key, the same without __hash__, a list subclass, a dataclass comparing one '
        'content field, its frozen form, a class with a constant hash) with all payloads in one or two groups; further '
        'trees over lists that name a payload more than once (the same object / a separately built equal twin; adjacent, '
        'first-and-last = the repetition arrives as a refill, all positions, two interleaved pairs; nothing / the repeated '
        'payload / everything raising); a quarter of the sampled schedules and a quarter of the real-pool cases repeat '
        'payloads, another quarter of the real-pool cases uses the id-blind classes. A repeated payload has the id of its '
        'first occurrence: the checker wants k results for an id listed k times. sampled slice: seeded random decision sequences for n=5..10, workers 1..4. '
        'real slice: seeded (n<=200, workers 1..16|None, sleeps, raising probability) with real process pools. '
        'disturbed runs (all three slices): a run whose consumer abandons it after k results (sets the stop event that every '
        'Result carries and goes on iterating, sets it and closes the generator, or only closes it), and a run in which one '
        'or two payloads cannot be carried to a captured result (payload or outcome that cannot be pickled - a lock, a local '
        'function - or an exception its raises() does not declare), placed inside and beyond the submission window of '
        '1+workers; such a run is judged by the relaxed oracle (never two results for a payload, nothing foreign, every '
        'delivered result of an ordinary payload correct, complete if it ends normally and was not abandoned; how it ends is '
        'counted, not judged). call sequences: every deterministic tree is enumerated after a run of the same process that '
        'its consumer stopped, every fifth sampled schedule is preceded by a disturbed run, and each real-pool child process '
        'interleaves disturbed cases (kind rotating with shard and position) with ordinary cases and 0..2-payload cases, '
        'all judged completely. '
        'non-trivial = the run went through the executor (n>=2); distinct by (configuration, completion order, yield order) '
        'in the deterministic slices and by case in the real slice')
ASSUMPTIONS = [
    'the deterministic executor models a process pool as: tasks start in submission order, at most max_workers run at '
    'once, a running task may complete at any point where the loop can observe it (submit, yield to the consumer, '
    'wait inside concurrent.futures); arguments and results are not pickled in this slice (the real-pool slice does)',
    'the blocking point of concurrent.futures (threading.Event.wait looked up through concurrent.futures._base.threading) '
    'and multiprocessing.Manager (in-process Event) are replaced in the deterministic slice only; futures hash by '
    'submission number so that as_completed is replayable (both hand-out orders are exercised)',
    'exceptions the loop is not asked to capture are outside the statement: reraise=True and RuntimeError/RecursionError, '
    'which taskproc always re-raises, are not generated; an exception raises() does not declare, and payloads / outcomes '
    'that cannot cross the process boundary, are generated only in disturbed runs, where the statement is applied to the '
    'other payloads only (no duplicate, no wrong result; whether the run ends with an exception to the caller, and which '
    'of the others still get a result when it does, is counted and not judged; StopIteration is not used there)',
    'what the stop event does to the run it is set in is not part of the statement: after the stop request results '
    'carrying InterruptedError and missing results are left open (counted); runs that FOLLOW in the same process are '
    'ordinary runs and judged completely',
    'deterministic slice, poison configurations only: the executor models the process boundary by pickling the call '
    'before it runs and the result after it ran (a failure completes the future with that exception, as the queue feeder / '
    'the worker of a real pool do); concurrent.futures.ThreadPoolExecutor is replaced by the same deterministic executor '
    '(without that boundary) so that a loop falling back to threads stays single-threaded',
    'a VisualPayload whose function raises TypeError (or a subclass) is called a second time with the path (documented '
    'HACK); that combination is not generated (the payload class is switched, not the exception)',
    'which exception classes: all builtin subclasses of Exception except RuntimeError and its subclasses (taskproc always '
    're-raises those), plus the listed standard-library / user-defined ones; KeyboardInterrupt, SystemExit and GeneratorExit '
    'are not Exceptions and not generated; a class is used only if an instance built by the workload survives '
    'pickle.loads(pickle.dumps()) with its type and args (checked at import; the list of rejected kinds is '
    'c18_sched.EXC_KINDS_SKIPPED, empty on CPython 3.12); exceptions are compared by type name and args',
    'payloads that compare equal: the statement promises one result per payload *in the list*; the checker reads the id '
    'from result.payload.payload, so results of different payloads that compare equal stay distinguishable; list '
    'positions holding the same payload (same object or equal twin from one spec) are indistinguishable by design and '
    'counted: an id listed k times must get exactly k results, each carrying what the function does for it, and the '
    'multiset comparison with the sequential mode counts multiplicities',
    'the sequential mode is itself checked against the workload specification (what the task function returns/raises), '
    'so agreement of two wrong modes is not accepted',
]
EXHAUSTIVE = {
    'quick': 'every completion schedule (scheduler decision tree) for n=0..4 payloads x workers 1..3 x every subset of '
             'payloads raising a captured exception',
    'thorough': 'every completion schedule (scheduler decision tree) for n=0..5 payloads x workers 1..3 x every subset of '
                'payloads raising a captured exception, plus n=6 x workers 1 x every subset and n=6 x workers 2 x 8 subsets',
}
PEAK_COUNTERS = ('det_max_pending', 'real_max_n', 'real_max_distinct_worker_pids', 'real_max_overlap')
SHARD_TIMEOUT = {'quick': 900, 'thorough': 5400}

# measured sizes of the decision tree per (n, workers): shard balancing only
TREE = {(2, 1): 9, (2, 2): 15, (2, 3): 15, (3, 1): 48, (3, 2): 166, (3, 3): 210, (4, 1): 216, (4, 2): 1681,
        (4, 3): 3753, (5, 1): 1104, (5, 2): 16788, (5, 3): 55410, (6, 1): 4968, (6, 2): 154124}

FLOORS = {
    'quick': {'det_schedules': 45000, 'det_trees_complete': 80, 'det_refill_schedules': 7000,
              'det_schedules_with_captured_exception': 40000, 'det_out_of_order_schedules': 40000,
              'det_completed_outside_wait': 150000, 'det_forced_in_wait': 40000, 'det_sampled_schedules': 2000,
              'real_runs_complete': 16, 'real_results_checked': 500, 'real_out_of_order_runs': 8,
              'distinct_nontrivial': 2500,
              # disturbed runs and call sequences
              'det_poison_trees_complete': 24, 'det_poison_schedules': 5000, 'det_poison_end_after_results': 4000,
              'det_transport_failures': 3000, 'det_stopped_runs': 150, 'det_full_runs_after_stopped_run': 45000,
              'det_sampled_disturbed_schedules': 400,
              'real_stopped_runs': 3, 'real_stopped_sequential_runs': 3, 'real_full_runs_after_stopped_run': 8,
              'real_shortcut_runs_after_stopped_run': 1, 'real_poison_runs': 5, 'real_poison_end_after_results': 2,
              'real_full_runs_after_poison_end': 10,
              # payload lists with equal / repeated payloads
              'det_equal_trees_complete': 28, 'det_schedules_equal_payloads': 25000,
              'det_schedules_distinct_equal_payloads': 20000, 'det_schedules_same_payload_listed_twice': 3000,
              'det_results_of_repeated_payloads': 15000, 'det_schedules_unhashable_payloads': 80000,
              'det_schedules_hash_equal_unequal_payloads': 1000,
              'real_runs_equal_payloads': 8, 'real_runs_distinct_equal_payloads': 4,
              'real_runs_same_payload_listed_twice': 4, 'real_results_of_repeated_payloads': 16},
    'thorough': {'det_schedules': 2000000, 'det_trees_complete': 250, 'det_refill_schedules': 1400000,
                 'det_schedules_with_captured_exception': 2000000, 'det_out_of_order_schedules': 1800000,
                 'det_completed_outside_wait': 9000000, 'det_forced_in_wait': 2000000,
                 'det_sampled_schedules': 180000, 'real_runs_complete': 190, 'real_results_checked': 7000,
                 'real_out_of_order_runs': 100, 'distinct_nontrivial': 180000,
                 'det_poison_trees_complete': 130, 'det_poison_schedules': 100000, 'det_poison_end_after_results': 80000,
                 'det_transport_failures': 60000, 'det_stopped_runs': 2000, 'det_full_runs_after_stopped_run': 2000000,
                 'det_sampled_disturbed_schedules': 36000,
                 'real_stopped_runs': 24, 'real_stopped_sequential_runs': 24, 'real_full_runs_after_stopped_run': 150,
                 'real_shortcut_runs_after_stopped_run': 10, 'real_poison_runs': 50, 'real_poison_end_after_results': 20,
                 'real_full_runs_after_poison_end': 150,
                 'det_equal_trees_complete': 150, 'det_schedules_equal_payloads': 500000,
                 'det_schedules_distinct_equal_payloads': 400000, 'det_schedules_same_payload_listed_twice': 60000,
                 'det_results_of_repeated_payloads': 300000, 'det_schedules_unhashable_payloads': 1500000,
                 'det_schedules_hash_equal_unequal_payloads': 20000,
                 'real_runs_equal_payloads': 100, 'real_runs_distinct_equal_payloads': 48,
                 'real_runs_same_payload_listed_twice': 48, 'real_results_of_repeated_payloads': 200},
}


def _exception_floors():
    """every exception class of the matrix must have been seen captured in a yielded Result, in both slices"""
    from ..monitors import c18_sched as S
    for tier, det, real in (('quick', 200, 3), ('thorough', 50000, 40)):
        for name in S.EXC_CLASS_NAMES:
            FLOORS[tier]['det_captured:' + name] = det
            FLOORS[tier]['real_captured:' + name] = real


_exception_floors()

ARGSETS = [([], {}), ([7], {}), (['x', 2], {'k': 'v'})]
N6_MASKS = [0, 63, 1, 32, 21, 42, 7, 56]


EQUAL_LAYOUTS = ('adjacent', 'ends', 'all', 'pairs')
TWIN_CLASSES = ('visual', 'group', 'data', 'listy', 'datafrozen', 'groupnohash')      # compare by value
SAME_CLASSES = ('plain', 'visual', 'proto', 'group', 'data', 'consthash', 'listy')


def equal_pairs(layout, n):
    """-> [[j, i], ...]: list position i holds the payload of position j once more"""
    if layout == 'adjacent':
        return [[0, 1]]
    if layout == 'ends':
        return [[0, n - 1]]
    if layout == 'all':
        return [[0, i] for i in range(1, n)]
    return [[0, 2], [1, 3]] if n >= 4 else [[0, n - 1]]


def apply_equal(specs, how, pairs, rot):
    """list some payloads a second time: the same object ('same') or a separately built payload from the same spec
    ('twin', in a class that compares by value, so that the two are equal).  The repeated position takes the spec of
    the first (uid, behaviour): the checker counts results per uid."""
    from ..monitors import c18_sched as S
    for j, i in pairs:
        if any(k in specs[j] for k in S.LIST_KEYS) or specs[j].get('poison') or specs[i].get('poison'):
            continue
        if any(sp.get(k) == i for sp in specs for k in S.LIST_KEYS):      # i is itself repeated elsewhere: stays
            continue
        pool = TWIN_CLASSES if how == 'twin' else SAME_CLASSES
        cls = pool[(rot + j) % len(pool)]                # (a function of j: every repetition of j sees the same class)
        if cls == 'visual' and S.is_type_error(specs[j]['exc']):
            cls = 'group'
        specs[j]['cls'] = cls
        if cls == 'visual':
            specs[j]['raises'] = 'none'
        if cls in S.EQ_CLASS_NAMES:
            specs[j].setdefault('group', 'g')
        specs[i] = dict(specs[j], **{'same_as' if how == 'same' else 'twin_of': j})


def det_config(idx, n, workers, mask, extra=None):
    from ..monitors import c18_sched as S
    extra = extra or {}
    nk = len(S.EXC_KIND_NAMES)
    kbase = extra.get('kbase', 3 * idx)
    # every fourth configuration: payloads of a class whose == / hash do not look at the id (all of one group, or of
    # two groups alternating), so that different tasks compare equal
    eqcls = S.EQ_CLASS_NAMES[(idx // 4) % len(S.EQ_CLASS_NAMES)] if idx % 4 == 2 and not extra.get('poison') else None
    specs = []
    rank = 0
    for i in range(n):
        cls = eqcls or ('plain', 'proto', 'visual')[(idx + i) % 3]
        exc = None
        if mask >> i & 1:
            exc = S.EXC_KIND_NAMES[(kbase + rank) % nk]          # the kinds rotate over the raising slots
            rank += 1
            if cls == 'visual' and S.is_type_error(exc):
                cls = 'plain'
        sp = {'uid': 100 + i, 'exc': exc, 'cls': cls,
              'raises': 'none' if cls == 'visual' else S.RAISES_NAMES[(idx + i) % len(S.RAISES_NAMES)]}
        if eqcls:
            sp['group'] = 'g' if idx % 8 == 2 else f'g{i % 2}'
        specs.append(sp)
    args, kwargs = ARGSETS[idx % len(ARGSETS)]
    cfg = {'idx': idx, 'n': n, 'workers': workers, 'mask': mask, 'specs': specs, 'args': list(args), 'kwargs': dict(kwargs),
           'entry': 'legacy' if idx % 5 == 3 else 'parproc', 'pickable': idx % 4 == 1, 'hash_rev': idx % 2 == 1}
    if extra.get('poison'):
        # one payload that cannot be carried to a captured result (c18_sched.POISON_KINDS); the executor models the
        # process boundary for this configuration (a call / result that cannot be pickled fails its future)
        pos, kind = extra['poison']
        sp = specs[pos]
        sp['poison'] = kind
        if kind == 'undeclared':
            if sp['cls'] == 'visual':
                sp['cls'] = 'plain'
            names = [k for k in S.EXC_KIND_NAMES if k != 'stopiter']
            sp['exc'] = names[(idx * 7 + pos) % len(names)]
            sp['raises'] = 'exact'
        cfg['transport'] = True
        cfg['disturbed'] = kind
        cfg['extra'] = extra
    if extra.get('equal'):
        how, pairs = extra['equal']
        apply_equal(specs, how, pairs, idx)
        cfg['extra'] = extra
    cfg['equal'] = S.equal_facts(specs)
    return cfg


def det_plan(tier):
    """-> list of (weight, idx, n, workers, mask, extra)"""
    from ..monitors import c18_sched as S
    out = []
    idx = 0
    nmax = 4 if tier == 'quick' else 5
    for n in range(0, nmax + 1):
        for w in (1, 2, 3):
            for mask in range(2 ** n):
                out.append((TREE.get((n, w), 1), idx, n, w, mask, {}))
                idx += 1
    if tier == 'thorough':
        for mask in range(64):
            out.append((TREE[(6, 1)], idx, 6, 1, mask, {}))
            idx += 1
        for mask in N6_MASKS:
            out.append((TREE[(6, 2)], idx, 6, 2, mask, {}))
            idx += 1
    # the exception kinds rotate over the raising slots of the whole plan, largest trees first: every kind is raised
    # (and must be captured) in trees with n >= 4
    slot = 0
    for item in sorted(out, key=lambda t: (-t[2], t[1])):
        item[5]['kbase'] = slot
        slot += bin(item[4]).count('1')
    # poison trees: every position of one payload that cannot be carried to a captured result, inside and beyond the
    # submission window of 1 + workers, with none / some of the others raising captured exceptions
    idx = 10000
    for n in ((3, 4) if tier == 'quick' else (2, 3, 4, 5)):
        for w in ((1, 2) if tier == 'quick' else (1, 2, 3)):
            for pos in range(n):
                for m in range(2 if tier == 'quick' or n == 5 else 4):
                    mask = 0 if m == 0 else (idx * 5 + 3) % (2 ** n)
                    kind = S.POISON_KINDS[idx % len(S.POISON_KINDS)]
                    out.append((max(1, TREE.get((n, w), 1) // 2), idx, n, w, mask, {'poison': [pos, kind], 'kbase': idx * 3}))
                    idx += 1
    # trees over lists that name a payload more than once: the same object again, or an equal twin; next to each other
    # (both inside the first submission window), first and last (the repetition arrives as a refill), all positions
    # the same payload, two interleaved pairs; nothing / the first payload / everything raising
    idx = 20000
    if tier == 'quick':
        shapes = [(2, w, ('adjacent',), ('same', 'twin'), (0, 1)) for w in (1, 2)]
        shapes += [(3, w, EQUAL_LAYOUTS[:3], ('same', 'twin'), None) for w in (1, 2)]
        shapes += [(4, 1, EQUAL_LAYOUTS, ('same', 'twin'), None), (4, 2, ('ends',), ('same',), (0,)),
                   (4, 2, ('pairs',), ('twin',), (1,))]
    else:
        shapes = [(n, w, EQUAL_LAYOUTS[:1 if n == 2 else 3 if n == 3 else 4], ('same', 'twin'), (0, 1, 2 ** n - 1))
                  for n in (2, 3, 4) for w in (1, 2, 3)]
        shapes += [(5, 1, EQUAL_LAYOUTS, ('same', 'twin'), None), (5, 2, ('ends',), ('same',), (0,)),
                   (5, 2, ('pairs',), ('twin',), (1,))]
    for n, w, layouts, hows, masks in shapes:
        for layout in layouts:
            for how in hows:
                for mask in (masks if masks is not None else ((0, 1, 2 ** n - 1)[idx % 3],)):
                    out.append((TREE.get((n, w), 1), idx, n, w, mask,
                                {'equal': [how, equal_pairs(layout, n)], 'kbase': idx * 3}))
                    idx += 1
    return out


def plan(tier, seed):
    items = sorted(det_plan(tier), key=lambda t: (-t[0], t[1]))
    k = 11 if tier == 'quick' else 56
    bins = [[0, []] for _ in range(k)]
    for wt, idx, n, w, mask, *extra in items:          # longest-processing-time-first
        b = min(bins, key=lambda x: x[0])
        b[0] += wt
        b[1].append([idx, n, w, mask, *extra])
    shards = [{'mode': 'det', 'seed': seed, 'shard': i, 'configs': sorted(b[1])} for i, b in enumerate(bins) if b[1]]
    shards.sort(key=lambda d: -sum(TREE.get((c[1], c[2]), 1) for c in d['configs']))
    ns, per = (1, 4000) if tier == 'quick' else (12, 30000)
    for i in range(ns):
        shards.append({'mode': 'sampled', 'seed': seed, 'shard': i, 'n': per})
    nr, per = (4, 8) if tier == 'quick' else (16, 24)
    for i in range(nr):
        shards.append({'mode': 'real', 'seed': seed, 'shard': i, 'n': per, 'heavy': tier == 'thorough'})
    return shards


def run_shard(desc, acc):
    if desc['mode'] == 'det':
        run_det(desc, acc)
    elif desc['mode'] == 'sampled':
        run_sampled(desc, acc)
    else:
        run_real(desc, acc)


# ------------------------------------------------------------------------------------ deterministic

def hook_reached(acc):
    """the deterministic executor must be the one the real loop instantiates"""
    from ..monitors import c18_sched as S
    try:
        h = S.run_scheduled(det_config(0, 3, 1, 0))
    except S.HookMissing as e:
        acc.note(f'deterministic executor not installable: {e}')
        acc.count('det_hook_missing')
        return False
    if h['executors'] == 0:
        acc.note('the real loop did not instantiate concurrent.futures.ProcessPoolExecutor as looked up at call time: '
                 'deterministic slice unobserved')
        acc.count('det_hook_missing')
        return False
    return True


def judge_det(acc, cfg, h, seq, seq_end, origin, abandon=None, before=None):
    """fold one scheduled run into the evidence; -> number of violations"""
    from ..monitors import c18_sched as S
    acc.evaluations += 1
    ev = h['events']
    order = S.completion_order(ev)
    yielded = tuple(r.get('uid') for r in h['records'])
    acc.count('det_schedules')
    acc.count('det_completions', h['completions'])
    acc.count('det_waits', h['waits'])
    acc.count('det_forced_in_wait', h['forced_in_wait'])
    acc.count('det_completed_outside_wait', h['completed_while_busy'])
    acc.count('det_results_checked', len(h['records']))
    ncap = 0
    for r in h['records']:
        if r.get('exc'):
            ncap += 1
            acc.count('det_captured:' + r['exc'])
    acc.count('det_captured_exceptions_yielded', ncap)
    if ncap:
        acc.count('det_schedules_with_captured_exception')
    eq = cfg.get('equal') or {}
    eqwhat = ''
    if eq.get('equal_pairs') or eq.get('same_object_pairs'):
        acc.count('det_schedules_equal_payloads')
        eqwhat = (f' payload list: {eq.get("same_object_pairs", 0)} pairs of positions hold the same object, '
                  f'{eq.get("equal_pairs", 0)} pairs distinct objects that compare equal;')
    if eq.get('equal_pairs'):
        acc.count('det_schedules_distinct_equal_payloads')
    if eq.get('same_object_pairs'):
        acc.count('det_schedules_same_payload_listed_twice')
    if eq.get('repeated_uids'):
        rep_uids = {u for u, m in S._listed(cfg['specs']).items() if m > 1}
        acc.count('det_results_of_repeated_payloads', sum(1 for r in h['records'] if r.get('uid') in rep_uids))
    if eq.get('unhashable'):
        acc.count('det_schedules_unhashable_payloads')
    if eq.get('hash_equal_unequal_pairs'):
        acc.count('det_schedules_hash_equal_unequal_payloads')
    if h['blocked_in_result']:
        acc.count('det_blocked_in_result', h['blocked_in_result'])
    if h['ran_at_shutdown']:
        acc.count('det_ran_at_shutdown', h['ran_at_shutdown'])
    if h['polls']:
        acc.count('det_polls', h['polls'])
    acc.peak('det_max_pending', h['max_pending'])
    seen_obs = False
    refills = 0
    for e in ev:
        if e[0] in ('wait', 'yield'):
            seen_obs = True
        elif e[0] == 'submit' and seen_obs:
            refills += 1
    if refills:
        acc.count('det_refill_schedules')
        acc.count('det_refill_submits', refills)
    if list(order) != sorted(order):
        acc.count('det_out_of_order_schedules')
    if h['executors']:
        acc.nontriv(cfg['idx'], cfg['n'], cfg['workers'], cfg['mask'], order, yielded, json.dumps(abandon, sort_keys=True))
    what = eqwhat
    if cfg.get('disturbed') or abandon:
        # a run the statement does not determine completely: relaxed oracle, the open parts are counted
        stop_after = abandon['after'] if abandon else None
        viol, facts = S.check_disturbed(cfg['specs'], tuple(cfg['args']), cfg['kwargs'], h['records'], h['end'], seq, seq_end,
                                        cfg['pickable'], stop_after=stop_after)
        acc.count('det_disturbed_runs')
        if abandon:
            what += f' consumer: {abandon["how"]} after {abandon["after"]} results;'
            acc.count('det_abandoned_runs:' + abandon['how'])
            if h['abandon'].get('stop_set'):
                acc.count('det_stopped_runs')
            elif 'stop_unobserved' in h['abandon']:
                acc.count('det_stop_unobserved')
                acc.note('Result.stop could not be set by the consumer: ' + h['abandon']['stop_unobserved'])
            acc.count('det_results_interrupted_after_stop', facts.get('par_interrupted_after_stop', 0))
        if cfg.get('disturbed'):
            what += f' payload {[s["uid"] for s in cfg["specs"] if s.get("poison")]} is {cfg["disturbed"]};'
            acc.count('det_poison_schedules')
            acc.count('det_poison_kind:' + cfg['disturbed'])
            acc.count('det_transport_failures', h['transport_failures'])
            if 'par_open_end_exception' in facts:
                acc.count('det_poison_end:' + facts['par_open_end_exception'])
                if facts.get('par_results_before_open_end'):
                    acc.count('det_poison_end_after_results')
            elif h['end'] == 'exhausted':
                acc.count('det_poison_end:exhausted')
            if facts.get('par_poison_results'):
                acc.count('det_poison_payload_got_result', facts['par_poison_results'])
        if h['thread_executors']:
            acc.count('det_runs_with_thread_executor')
    else:
        viol = S.check_history(cfg['specs'], tuple(cfg['args']), cfg['kwargs'], h['records'], h['end'], seq, seq_end,
                               cfg['pickable'])
        if origin.get('after_stop'):
            acc.count('det_full_runs_after_stopped_run')
    for sig, text in viol:
        w = {'mode': 'det', 'cfg': cfg, 'prefix': [c for _, c in h['trace']], 'origin': origin}
        if abandon:
            w['abandon'] = abandon
        if before:
            w['before'] = before
        acc.violation('det:' + sig,
                      f'deterministic executor, n={cfg["n"]} workers={cfg["workers"]} raising='
                      f'{[s["uid"] for s in cfg["specs"] if s["exc"]]} entry={cfg["entry"]} completion order {list(order)} '
                      f'yielded {list(yielded)}:{what}{" (after an earlier run the consumer stopped)" if origin.get("after_stop") else ""} {text}',
                      w)
    return len(viol)


def stopped_prelude(acc, idx, n, w, mask, shard):
    """one run of the loop that its consumer stops through the stop event of the first results (public field
    Result.stop), before the runs that are judged completely; -> (stop was set, witness part)"""
    from ..monitors import c18_sched as S
    cfg = det_config(idx, max(n, 3), w, mask % (2 ** max(n, 3)))
    abandon = {'after': 1 + idx % 2, 'how': ('stop', 'stop-close')[(idx // 2) % 2]}
    seq, seq_end = S.run_sequential(cfg)
    h = S.run_scheduled(cfg, (), abandon=abandon)
    judge_det(acc, cfg, h, seq, seq_end, {'shard': shard, 'prelude': True}, abandon=abandon)
    return bool(h['abandon'].get('stop_set')), [{'cfg': cfg, 'abandon': abandon}]


def run_det(desc, acc):
    from ..monitors import c18_sched as S
    if not hook_reached(acc):
        return
    for idx, n, w, mask, *extra in desc['configs']:
        extra = extra[0] if extra else {}
        cfg = det_config(idx, n, w, mask, extra)
        # call sequences: every tree is enumerated in a process in which the consumer of an earlier run has stopped
        # that run; nothing of it may leak into the runs that follow
        after_stop, before = stopped_prelude(acc, idx, n, w, mask, desc['shard'])
        origin = {'shard': desc['shard']}
        if after_stop:
            origin['after_stop'] = True
        seq, seq_end = S.run_sequential(cfg)
        acc.count('det_configs')
        prefix, expect = [], None
        bad = 0
        runs = 0
        orders = set()
        while True:
            h = S.run_scheduled(cfg, prefix, expect=expect)
            runs += 1
            orders.add(S.completion_order(h['events']))
            bad += 1 if judge_det(acc, cfg, h, seq, seq_end, origin, before=before if after_stop else None) else 0
            prefix, expect = S.next_prefix(h['trace'])
            if prefix is None:
                acc.count('det_poison_trees_complete' if extra.get('poison') else
                          'det_equal_trees_complete' if extra.get('equal') else 'det_trees_complete')
                break
            if bad >= 5:
                acc.count('det_trees_abandoned_after_violations')
                break
        acc.count('det_distinct_completion_orders', len(orders))
        acc.count(f'det_schedules_n{n}', runs)
        if extra.get('poison') and n >= 4 and w == 2 and extra['poison'][0] == n - 1:
            acc.sample({'slice': 'deterministic, one payload that cannot be carried to a captured result', 'n': n, 'workers': w,
                        'poison': extra['poison'], 'schedules_enumerated': runs, 'last_end': h['end'],
                        'last_schedule_events': [list(e) for e in h['events']][:60],
                        'last_yielded': [[r.get('uid'), r.get('exc')] for r in h['records']]})
        if extra.get('equal') and n >= 4 and w == 2:
            acc.sample({'slice': 'deterministic, payloads listed more than once', 'n': n, 'workers': w, 'equal': extra['equal'],
                        'payload_list': cfg['equal'], 'specs': cfg['specs'], 'schedules_enumerated': runs,
                        'last_yielded': [[r.get('uid'), r.get('exc')] for r in h['records']]})
        if n >= 4 and mask == 5 and w == 2 and not extra.get('poison') and not extra.get('equal'):
            acc.sample({'slice': 'deterministic', 'n': n, 'workers': w, 'raising_uids': [s['uid'] for s in cfg['specs'] if s['exc']],
                        'entry': cfg['entry'], 'schedules_enumerated': runs, 'distinct_completion_orders': len(orders),
                        'last_schedule_events': [list(e) for e in h['events']][:60],
                        'last_yielded': [[r.get('uid'), r.get('exc')] for r in h['records']]})


def sampled_config(rng, i):
    n = rng.choice([5, 6, 6, 7, 8, 9, 10])
    w = rng.choice([1, 2, 3, 4])
    style = rng.random()
    if style < 0.15:
        mask = 0
    elif style < 0.3:
        mask = 2 ** n - 1
    else:
        mask = rng.getrandbits(n)
    from ..monitors import c18_sched as S
    extra = {'kbase': rng.randrange(len(S.EXC_KIND_NAMES))}
    if rng.random() < 0.25:
        # some payloads are listed again (the same object or an equal twin); first occurrences are never repetitions
        first = sorted(rng.sample(range(n - 1), rng.randint(1, 2)))
        later = [i for i in range(1, n) if i not in first]
        rng.shuffle(later)
        pairs = sorted([rng.choice([j for j in first if j < i]), i] for i in later[:rng.randint(1, max(1, n // 3))] if i > first[0])
        extra['equal'] = [rng.choice(['same', 'twin']), pairs]
    cfg = det_config(rng.randrange(60), n, w, mask, extra)
    cfg['idx'] = 100000 + i
    cfg['p_stop'] = rng.choice([0.2, 0.5, 0.8])
    return cfg


def sampled_disturbed(acc, desc, i):
    """-> witness part if the run was stopped through the stop event, else None"""
    from ..monitors import c18_sched as S
    rng = random.Random(h64(ID, 'sampled-disturbed', desc['seed'], desc['shard'], i))
    cfg = sampled_config(rng, i)
    cfg['idx'] = 200000 + i
    kind = rng.choice(('stop', 'stop-close', 'close') + S.POISON_KINDS)
    abandon = None
    if kind in S.POISON_KINDS:
        window = 1 + cfg['workers']
        pos = rng.randrange(window, cfg['n']) if cfg['n'] > window and rng.random() < 0.7 else rng.randrange(cfg['n'])
        cfg = dict(det_config(rng.randrange(60), cfg['n'], cfg['workers'], cfg['mask'], {'poison': [pos, kind]}),
                   idx=cfg['idx'], p_stop=cfg['p_stop'])
    else:
        abandon = {'after': rng.randint(1, cfg['n'] - 1), 'how': kind}
    seq, seq_end = S.run_sequential(cfg)
    h = S.run_scheduled(cfg, (), rng=rng, abandon=abandon)
    acc.count('det_sampled_disturbed_schedules')
    judge_det(acc, cfg, h, seq, seq_end, {'shard': desc['shard'], 'i': i, 'sampled': True, 'disturbed': kind}, abandon=abandon)
    if abandon and h['abandon'].get('stop_set'):
        return [{'cfg': cfg, 'abandon': abandon}]
    return None


def run_sampled(desc, acc):
    from ..monitors import c18_sched as S
    if not hook_reached(acc):
        return
    seqs = {}
    before = None                                        # the last run of this process that its consumer stopped
    for i in range(desc['n']):
        rng = random.Random(h64(ID, 'sampled', desc['seed'], desc['shard'], i))
        cfg = sampled_config(rng, i)
        key = json.dumps([cfg['specs'], cfg['args'], cfg['kwargs'], cfg['entry'], cfg['pickable']], sort_keys=True)
        if key not in seqs:
            if len(seqs) > 5000:
                seqs.clear()
            seqs[key] = S.run_sequential(cfg)
        seq, seq_end = seqs[key]
        if i % 5 == 2:
            # a disturbed run first (sampled schedule): abandoned by its consumer, or with a poison payload
            last_before = sampled_disturbed(acc, desc, i)
            if last_before:
                before = last_before
        origin = {'shard': desc['shard'], 'i': i, 'sampled': True}
        if before:
            origin['after_stop'] = True
        h = S.run_scheduled(cfg, (), rng=rng)
        acc.count('det_sampled_schedules')
        judge_det(acc, cfg, h, seq, seq_end, origin, before=before)
        if i == 0:
            acc.sample({'slice': 'sampled schedule', 'n': cfg['n'], 'workers': cfg['workers'],
                        'events': [list(e) for e in h['events']][:80]})


# ------------------------------------------------------------------------------------ real pools

def run_child(cases, scratch, tag, timeout):
    """-> (log records, timed_out)"""
    casefile = os.path.join(scratch, f'cases-{tag}.json')
    logfile = os.path.join(scratch, f'log-{tag}.jsonl')
    with open(casefile, 'w') as f:
        json.dump(cases, f)
    if os.path.exists(logfile):
        os.remove(logfile)
    timed_out = False
    stderr = ''
    try:
        p = subprocess.run([sys.executable, '-m', 'vt.monitors.c18_real', casefile, logfile], timeout=timeout,
                           capture_output=True, text=True, env=dict(os.environ), start_new_session=True)
        stderr = (p.stderr or '')[-1500:]
    except subprocess.TimeoutExpired:
        timed_out = True
    recs = []
    if os.path.exists(logfile):
        with open(logfile) as f:
            for line in f:
                line = line.strip()
                if line:
                    try:
                        recs.append(json.loads(line))
                    except ValueError:
                        pass
    if timed_out:
        for r in recs:                                   # pool workers / manager of the hung run
            if 'pgid' in r:
                try:
                    os.killpg(r['pgid'], signal.SIGKILL)
                except (ProcessLookupError, PermissionError):
                    pass
    return recs, timed_out, stderr


def real_cases(desc):
    """the cases of one child process, in the order they run: ordinary cases, and after every third of them a
    disturbed case (abandoned by its consumer / with a payload that cannot be carried to a captured result; the kind
    rotates) followed by a small ordinary case (0..2 payloads: the shortcuts).  Everything after a disturbed case is a
    run in a process with that history."""
    from ..monitors import c18_real as R
    out = []
    heavy = desc.get('heavy', False)
    j = 0
    for i in range(desc['n']):
        idx = desc['shard'] * 1000 + i
        rng = random.Random(h64(ID, 'real', desc['seed'], desc['shard'], i))
        out.append(R.gen_case(rng, idx, heavy))
        if i % 3 == 0:
            kind = R.DISTURBANCES[(desc['shard'] * 3 + j) % len(R.DISTURBANCES)]
            rng = random.Random(h64(ID, 'real-disturbed', desc['seed'], desc['shard'], j))
            out.append(R.gen_disturbed(rng, desc['shard'] * 1000 + 500 + j, kind, heavy))
            out.append(R.gen_case(rng, desc['shard'] * 1000 + 800 + 8 * j, heavy))      # idx % 8 == 0: n in 0..2
            j += 1
    return out


def max_overlap(metas):
    pts = []
    for m in metas:
        pts.append((m['t0'], 1))
        pts.append((m['t1'], -1))
    cur = best = 0
    for _, d in sorted(pts, key=lambda p: (p[0], p[1])):
        cur += d
        best = max(best, cur)
    return best


def judge_real(acc, case, rec, state=None):
    """state: what happened earlier in the same child process ({'stopped': [...cases], 'poison_end': bool})"""
    from ..monitors import c18_sched as S
    state = state if state is not None else {}
    acc.evaluations += 1
    acc.count('real_runs')
    specs = case['specs']
    n = len(specs)
    par = rec['par']
    acc.peak('real_max_n', n)
    acc.count('real_workers:' + str(case['workers']))
    disturbed = case.get('disturbed')
    if n <= 1:
        acc.count('real_shortcut_runs')
    if rec['par_end'] == 'exhausted' and not disturbed:
        acc.count('real_runs_complete')
    acc.count('real_results_checked', sum(1 for r in par if r.get('uid') is not None))
    acc.count('real_captured_exceptions_yielded', sum(1 for r in par if r.get('exc')))
    for r in par:
        if r.get('exc'):
            acc.count('real_captured:' + r['exc'])
    eq = S.equal_facts(specs)
    eqwhat = ''
    if n >= 2 and (eq['equal_pairs'] or eq['same_object_pairs']):
        acc.count('real_runs_equal_payloads')
        eqwhat = (f' payload list: {eq["same_object_pairs"]} pairs of positions hold the same object, {eq["equal_pairs"]} pairs '
                  f'distinct objects that compare equal;')
        if eq['equal_pairs']:
            acc.count('real_runs_distinct_equal_payloads')
        if eq['same_object_pairs']:
            acc.count('real_runs_same_payload_listed_twice')
        if eq['repeated_uids']:
            rep_uids = {u for u, m in S._listed(specs).items() if m > 1}
            acc.count('real_results_of_repeated_payloads', sum(1 for r in par if r.get('uid') in rep_uids))
    if n >= 2 and eq['unhashable']:
        acc.count('real_runs_unhashable_payloads')
    if n >= 2 and eq['hash_equal_unequal_pairs']:
        acc.count('real_runs_hash_equal_unequal_payloads')
    metas = [r['meta'] for r in par if r.get('meta')]
    if metas:
        pids = {m['pid'] for m in metas}
        acc.peak('real_max_distinct_worker_pids', len(pids))
        acc.peak('real_max_overlap', max_overlap(metas))
        if n >= 2 and rec.get('main_pid') in pids:
            acc.count('real_runs_task_ran_in_main_process')
    order = [r['uid'] for r in par if r.get('uid') is not None]
    if order != sorted(order) and not disturbed:
        acc.count('real_out_of_order_runs')
    if n >= 2 and (rec['par_end'] == 'exhausted' or disturbed):
        acc.nontriv('real', case['idx'], n, case['workers'], [s['exc'] for s in specs], disturbed)
    what = ''
    before = [c for c in state.get('stopped', [])][-2:]
    if disturbed:
        abandon = case.get('abandon')
        viol, facts = S.check_disturbed(specs, tuple(case['args']), case['kwargs'], par, rec['par_end'], rec['seq'],
                                        rec['seq_end'], case['pickable'], stop_after=abandon['after'] if abandon else None)
        acc.count('real_disturbed_runs')
        acc.count('real_disturbed:' + disturbed)
        what = f' [{disturbed}'
        if abandon:
            what += f' after {abandon["after"]} results]'
            af = rec.get('abandon', {})
            if af.get('stop_set'):
                acc.count('real_stopped_runs')
                state.setdefault('stopped', []).append(case)
            elif 'stop_unobserved' in af:
                acc.count('real_stop_unobserved')
                acc.note('Result.stop could not be set by the consumer: ' + af['stop_unobserved'])
            if abandon['how'] != 'stop':
                acc.count('real_closed_runs')
            acc.count('real_results_interrupted_after_stop', facts.get('par_interrupted_after_stop', 0))
            if 'seq_abandoned' in rec:
                v2, f2 = S.check_stopped_sequential(specs, tuple(case['args']), case['kwargs'], rec['seq_abandoned'],
                                                    rec['seq_abandoned_end'], case['pickable'], abandon['after'])
                viol = viol + [(sig, 'stopped sequential run: ' + t) for sig, t in v2 if sig not in {x for x, _ in viol}]
                if rec.get('seq_abandon', {}).get('stop_set'):
                    acc.count('real_stopped_sequential_runs')
                acc.count('real_sequential_results_interrupted_after_stop', f2.get('seq_interrupted_after_stop', 0))
        else:
            what += f' payloads {[s["uid"] for s in specs if s.get("poison")]}]'
            acc.count('real_poison_runs')
            if 'par_open_end_exception' in facts:
                acc.count('real_poison_end:' + facts['par_open_end_exception'])
                state['poison_end'] = True
                if facts.get('par_results_before_open_end'):
                    acc.count('real_poison_end_after_results')
            elif rec['par_end'] == 'exhausted':
                acc.count('real_poison_end:exhausted')
            if facts.get('par_poison_results'):
                acc.count('real_poison_payload_got_result', facts['par_poison_results'])
            if 'seq_open_end_exception' in facts:
                acc.count('real_poison_sequential_end:' + facts['seq_open_end_exception'])
    else:
        viol = S.check_history(specs, tuple(case['args']), case['kwargs'], par, rec['par_end'], rec['seq'], rec['seq_end'],
                               case['pickable'])
        if state.get('stopped') and rec['par_end'] == 'exhausted':
            acc.count('real_full_runs_after_stopped_run')
            if n <= 1:
                acc.count('real_shortcut_runs_after_stopped_run')
        if state.get('poison_end') and rec['par_end'] == 'exhausted':
            acc.count('real_full_runs_after_poison_end')
        if state.get('stopped'):
            what = ' (after an earlier run in the same process that its consumer stopped)'
    for sig, text in viol:
        w = {'mode': 'real', 'case': case}
        if before and not (disturbed and case in before):
            w['before'] = before
        acc.violation('real:' + sig,
                      f'real process pool, n={n} max_workers={case["workers"]} raising={sum(1 for s in specs if s["exc"])} '
                      f'entry={case["entry"]}{what}:{eqwhat} {text}', w)
    return viol


def run_real_cases(acc, cases, tag):
    """run the cases in child processes; a child that does not finish names the case it hung in"""
    scratch = os.environ.get('VT_SCRATCH')
    if not scratch:                                      # replay: no per-shard scratch directory
        import shutil
        import tempfile
        scratch = tempfile.mkdtemp(prefix='vt-C18-replay-')
        try:
            os.environ['VT_SCRATCH'] = scratch
            return run_real_cases(acc, cases, tag)
        finally:
            del os.environ['VT_SCRATCH']
            shutil.rmtree(scratch, ignore_errors=True)
    os.makedirs(scratch, exist_ok=True)
    pending = list(cases)
    round_ = 0
    while pending:
        round_ += 1
        recs, timed_out, stderr = run_child(pending, scratch, f'{tag}-{round_}', 180 + 30 * len(pending))
        bycase = {c['idx']: c for c in pending}
        done = set()
        started = None
        state = {}                                       # history of this child process
        for r in recs:
            if 'start' in r:
                started = r['start']
            elif 'done' in r:
                done.add(r['done'])
                judge_real(acc, bycase[r['done']], r, state)
            elif 'crash' in r:
                done.add(r['crash'])
                raise RuntimeError(f'real-pool child crashed in case {r["crash"]}: {r["error"]}')
        if not timed_out:
            missing = [c['idx'] for c in pending if c['idx'] not in done]
            if missing:
                raise RuntimeError(f'real-pool child ended without finishing cases {missing}: {stderr}')
            return
        # the child hung: in which case?
        hung = bycase.get(started) if started is not None and started not in done else None
        if hung is None:
            raise RuntimeError('real-pool child timed out outside a case')
        acc.count('real_child_timeouts')
        recs2, timed_out2, _ = run_child([hung], scratch, f'{tag}-{round_}-retry', 240)
        if timed_out2:
            acc.evaluations += 1
            acc.count('real_runs')
            acc.violation('real:deadlock',
                          f'real process pool, n={len(hung["specs"])} max_workers={hung["workers"]}: the loop did not finish '
                          f'(twice, 240 s on the retry)', {'mode': 'real', 'case': hung})
        else:
            for r in recs2:
                if 'done' in r:
                    judge_real(acc, hung, r)
            acc.count('real_hang_unreproduced')
            acc.note(f'a real-pool run (case {hung["idx"]}) did not finish within the batch timeout but finished when re-run alone')
            raise RuntimeError(f'real-pool case {hung["idx"]} hung once and finished on retry: inconclusive')
        pos = [c['idx'] for c in pending].index(hung['idx'])
        pending = pending[pos + 1:]


def run_real(desc, acc):
    cases = real_cases(desc)
    run_real_cases(acc, cases, f'r{desc["shard"]}')
    c = cases[min(1, len(cases) - 1)]
    acc.sample({'slice': 'real pool', 'n': len(c['specs']), 'max_workers': c['workers'], 'entry': c['entry'],
                'raising': sum(1 for s in c['specs'] if s['exc']), 'first_specs': c['specs'][:3]})


# ------------------------------------------------------------------------------------ replay

def replay(w, acc):
    from ..monitors import c18_sched as S
    if w.get('mode') == 'real':
        # the OS schedule of a real pool cannot be replayed: the case is re-run as recorded and under a sweep of
        # gc phases (allocation counter inherited by the forked workers), which reproduces gc-timing dependent aborts
        case = w['case']
        if w.get('before'):
            # the violation was seen after earlier runs of the same process that their consumer stopped: same sequence
            run_real_cases(acc, [dict(c, idx=-1 - k) for k, c in enumerate(w['before'])] + [dict(case, idx=0)], 'replay-seq')
            if acc.violations:
                return
        variants = [dict(case, idx=0)] + [dict(case, idx=k + 1, gc_phase=p) for k, p in enumerate(range(0, 700, 100))]
        run_real_cases(acc, variants, 'replay')
        return
    for b in w.get('before') or []:
        S.run_scheduled(b['cfg'], (), abandon=b['abandon'])
    cfg = w['cfg']
    seq, seq_end = S.run_sequential(cfg)
    h = S.run_scheduled(cfg, w.get('prefix', ()), abandon=w.get('abandon'))
    origin = {'replay': True}
    if w.get('before'):
        origin['after_stop'] = True
    judge_det(acc, cfg, h, seq, seq_end, origin, abandon=w.get('abandon'), before=w.get('before'))


MANIFEST = {
    'technique': 'runtime monitoring: offline history checker over the results yielded by the real parallel loop, driven under '
                 'a deterministic executor with exhaustively enumerated completion schedules and under real process pools',
    'level_text': 'the faults are completion schedules x subsets of payloads raising a captured exception: for every payload count '
                  'up to the bound, workers 1..3 and every raising subset the whole decision tree of the scheduler is enumerated '
                  '(each leaf a single-threaded, replayable run of the real generator, the real taskproc and the real '
                  'concurrent.futures.as_completed), every yielded history is checked for exactly-one-result-per-payload, the '
                  "function's outcome or exception, and multiset equality with the sequential mode; sampled schedules for larger n "
                  'and sampled real ProcessPoolExecutor runs (n<=200, workers 1..16) complete it. Further fault classes: a payload '
                  'that cannot be carried to a captured result at every position (trees enumerated with a pickling process '
                  'boundary in the executor model, and real pools), and call sequences in one process in which an earlier run '
                  'was stopped or closed by its consumer or ended with an exception to the caller. Input classes rotated '
                  'through all of it: the captured exception ranges over the builtin exception hierarchy (about 80 kinds, '
                  'every one raised in the n>=4 trees and once per real-pool shard), and payload lists whose positions '
                  'compare equal (id-blind ==/hash, unhashable payloads, the same payload listed several times: k positions '
                  '=> exactly k results)',
    'level_note': 'exhaustive only within the executor model stated in the assumptions (FIFO start, <=max_workers running, '
                  'completions observable at submit/yield/wait) and the payload-count bound; the real-pool slice is a sample and '
                  'its schedules are whatever the OS produced (distinct worker pids, overlap and out-of-order completions are '
                  'counted). held = no history violated the checker on the executions listed in the evidence, not a proof',
}
