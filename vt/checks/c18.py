"""C18 — parallel processing yields exactly one result per payload.

Oracle: offline checker over the history of results the real loop yields (vt/monitors/c18_sched.py
`check_history`): every payload carries a unique id; exactly one result per id, carrying the task
function's outcome or the exception it raised, and multiset equality with the sequential mode
(`parallel=False`) on (payload id, outcome, type(exception), exception.args).

Workloads: (a) the real `parproc()`/`parallel_proc()` generator driven under a deterministic executor
whose completion schedule is a decision sequence, enumerated depth-first to exhaustion per
(payload count, workers, raising subset); (b) real ProcessPoolExecutor runs in a child process.
DESIGN.md section 3/C18.
"""
from __future__ import annotations

import json
import os
import random
import signal
import subprocess
import sys

from ..common import h64

ID = 'C18'
LEVEL = 'fault_enumeration'
RULE = ('cases = one run of the real parallel loop (tatsu.parproc.parproc / parallel_proc, parallel=True) over a list of '
        'payloads with unique ids, a subset of which raise an exception the loop is asked to capture (reraise=False and '
        'raises() empty or matching), judged against the sequential mode on the same payload specs. '
        'deterministic slice: for every (n payloads, workers, raising subset) the decision tree of the scheduler '
        '(at every submit, yield and wait: complete one more running future - at most `workers` run, FIFO start - or '
        'stop; a blocked wait forces a completion) is enumerated depth-first to exhaustion, each leaf one single-threaded '
        'run of the real generator with the real taskproc and the real concurrent.futures.as_completed; payload class, '
        'exception kind, raises() declaration, entry point, pickable, extra args and as_completed hand-out order rotate '
        'with the configuration index. sampled slice: seeded random decision sequences for n=5..10, workers 1..4. '
        'real slice: seeded (n<=200, workers 1..16|None, sleeps, raising probability) with real process pools. '
        'non-trivial = the run went through the executor (n>=2); distinct by (configuration, completion order, yield order) '
        'in the deterministic slices and by case in the real slice')
ASSUMPTIONS = [
    'the deterministic executor models a process pool as: tasks start in submission order, at most max_workers run at '
    'once, a running task may complete at any point where the loop can observe it (submit, yield to the consumer, '
    'wait inside concurrent.futures); arguments and results are not pickled in this slice (the real-pool slice does)',
    'the blocking point of concurrent.futures (threading.Event.wait looked up through concurrent.futures._base.threading) '
    'and multiprocessing.Manager (in-process Event) are replaced in the deterministic slice only; futures hash by '
    'submission number so that as_completed is replayable (both hand-out orders are exercised)',
    'exceptions the loop is not asked to capture (reraise=True, raises() not matching) and RuntimeError/RecursionError, '
    'which taskproc always re-raises, are outside the statement and not generated',
    'a VisualPayload whose function raises TypeError is called a second time with the path (documented HACK); that '
    'combination is not generated',
    'the sequential mode is itself checked against the workload specification (what the task function returns/raises), '
    'so agreement of two wrong modes is not accepted',
]
EXHAUSTIVE = {
    'quick': 'every completion schedule (scheduler decision tree) for n=0..4 payloads x workers 1..3 x every subset of '
             'payloads raising a captured exception',
    'thorough': 'every completion schedule (scheduler decision tree) for n=0..5 payloads x workers 1..3 x every subset of '
                'payloads raising a captured exception, plus n=6 x workers 1 x every subset and n=6 x workers 2 x 8 subsets',
}
PEAK_COUNTERS = ('det_max_pending', 'real_max_n', 'real_max_distinct_worker_pids', 'real_max_overlap')
SHARD_TIMEOUT = {'quick': 900, 'thorough': 5400}

# measured sizes of the decision tree per (n, workers): shard balancing only
TREE = {(2, 1): 9, (2, 2): 15, (2, 3): 15, (3, 1): 48, (3, 2): 166, (3, 3): 210, (4, 1): 216, (4, 2): 1681,
        (4, 3): 3753, (5, 1): 1104, (5, 2): 16788, (5, 3): 55410, (6, 1): 4968, (6, 2): 154124}

FLOORS = {
    'quick': {'det_schedules': 45000, 'det_trees_complete': 80, 'det_refill_schedules': 7000,
              'det_schedules_with_captured_exception': 40000, 'det_out_of_order_schedules': 40000,
              'det_completed_outside_wait': 150000, 'det_forced_in_wait': 40000, 'det_sampled_schedules': 2000,
              'real_runs_complete': 16, 'real_results_checked': 500, 'real_out_of_order_runs': 8,
              'distinct_nontrivial': 2500},
    'thorough': {'det_schedules': 2000000, 'det_trees_complete': 250, 'det_refill_schedules': 1400000,
                 'det_schedules_with_captured_exception': 2000000, 'det_out_of_order_schedules': 1800000,
                 'det_completed_outside_wait': 9000000, 'det_forced_in_wait': 2000000,
                 'det_sampled_schedules': 180000, 'real_runs_complete': 190, 'real_results_checked': 7000,
                 'real_out_of_order_runs': 100, 'distinct_nontrivial': 180000},
}

ARGSETS = [([], {}), ([7], {}), (['x', 2], {'k': 'v'})]
N6_MASKS = [0, 63, 1, 32, 21, 42, 7, 56]


def det_config(idx, n, workers, mask):
    from ..monitors import c18_sched as S
    specs = []
    for i in range(n):
        cls = ('plain', 'proto', 'visual')[(idx + i) % 3]
        exc = None
        if mask >> i & 1:
            k = (idx + 2 * i) % len(S.EXC_KIND_NAMES)
            exc = S.EXC_KIND_NAMES[k]
            if cls == 'visual' and exc == 'type':
                exc = 'custom'
        specs.append({'uid': 100 + i, 'exc': exc, 'cls': cls,
                      'raises': 'none' if cls == 'visual' else S.RAISES_NAMES[(idx + i) % len(S.RAISES_NAMES)]})
    args, kwargs = ARGSETS[idx % len(ARGSETS)]
    return {'idx': idx, 'n': n, 'workers': workers, 'mask': mask, 'specs': specs, 'args': list(args), 'kwargs': dict(kwargs),
            'entry': 'legacy' if idx % 5 == 3 else 'parproc', 'pickable': idx % 4 == 1, 'hash_rev': idx % 2 == 1}


def det_plan(tier):
    """-> list of (weight, idx, n, workers, mask)"""
    out = []
    idx = 0
    nmax = 4 if tier == 'quick' else 5
    for n in range(0, nmax + 1):
        for w in (1, 2, 3):
            for mask in range(2 ** n):
                out.append((TREE.get((n, w), 1), idx, n, w, mask))
                idx += 1
    if tier == 'thorough':
        for mask in range(64):
            out.append((TREE[(6, 1)], idx, 6, 1, mask))
            idx += 1
        for mask in N6_MASKS:
            out.append((TREE[(6, 2)], idx, 6, 2, mask))
            idx += 1
    return out


def plan(tier, seed):
    items = sorted(det_plan(tier), key=lambda t: (-t[0], t[1]))
    k = 11 if tier == 'quick' else 56
    bins = [[0, []] for _ in range(k)]
    for wt, idx, n, w, mask in items:                  # longest-processing-time-first
        b = min(bins, key=lambda x: x[0])
        b[0] += wt
        b[1].append([idx, n, w, mask])
    shards = [{'mode': 'det', 'seed': seed, 'shard': i, 'configs': sorted(b[1])} for i, b in enumerate(bins) if b[1]]
    shards.sort(key=lambda d: -sum(TREE.get((c[1], c[2]), 1) for c in d['configs']))
    ns, per = (1, 4000) if tier == 'quick' else (12, 30000)
    for i in range(ns):
        shards.append({'mode': 'sampled', 'seed': seed, 'shard': i, 'n': per})
    nr, per = (4, 8) if tier == 'quick' else (16, 24)
    for i in range(nr):
        shards.append({'mode': 'real', 'seed': seed, 'shard': i, 'n': per, 'heavy': tier == 'thorough'})
    return shards


def run_shard(desc, acc):
    if desc['mode'] == 'det':
        run_det(desc, acc)
    elif desc['mode'] == 'sampled':
        run_sampled(desc, acc)
    else:
        run_real(desc, acc)


# ------------------------------------------------------------------------------------ deterministic

def hook_reached(acc):
    """the deterministic executor must be the one the real loop instantiates"""
    from ..monitors import c18_sched as S
    try:
        h = S.run_scheduled(det_config(0, 3, 1, 0))
    except S.HookMissing as e:
        acc.note(f'deterministic executor not installable: {e}')
        acc.count('det_hook_missing')
        return False
    if h['executors'] == 0:
        acc.note('the real loop did not instantiate concurrent.futures.ProcessPoolExecutor as looked up at call time: '
                 'deterministic slice unobserved')
        acc.count('det_hook_missing')
        return False
    return True


def judge_det(acc, cfg, h, seq, seq_end, origin):
    """fold one scheduled run into the evidence; -> number of violations"""
    from ..monitors import c18_sched as S
    acc.evaluations += 1
    ev = h['events']
    order = S.completion_order(ev)
    yielded = tuple(r.get('uid') for r in h['records'])
    acc.count('det_schedules')
    acc.count('det_completions', h['completions'])
    acc.count('det_waits', h['waits'])
    acc.count('det_forced_in_wait', h['forced_in_wait'])
    acc.count('det_completed_outside_wait', h['completed_while_busy'])
    acc.count('det_results_checked', len(h['records']))
    ncap = sum(1 for r in h['records'] if r.get('exc'))
    acc.count('det_captured_exceptions_yielded', ncap)
    if ncap:
        acc.count('det_schedules_with_captured_exception')
    if h['blocked_in_result']:
        acc.count('det_blocked_in_result', h['blocked_in_result'])
    if h['ran_at_shutdown']:
        acc.count('det_ran_at_shutdown', h['ran_at_shutdown'])
    if h['polls']:
        acc.count('det_polls', h['polls'])
    acc.peak('det_max_pending', h['max_pending'])
    seen_obs = False
    refills = 0
    for e in ev:
        if e[0] in ('wait', 'yield'):
            seen_obs = True
        elif e[0] == 'submit' and seen_obs:
            refills += 1
    if refills:
        acc.count('det_refill_schedules')
        acc.count('det_refill_submits', refills)
    if list(order) != sorted(order):
        acc.count('det_out_of_order_schedules')
    if h['executors']:
        acc.nontriv(cfg['idx'], cfg['n'], cfg['workers'], cfg['mask'], order, yielded)
    viol = S.check_history(cfg['specs'], tuple(cfg['args']), cfg['kwargs'], h['records'], h['end'], seq, seq_end,
                           cfg['pickable'])
    for sig, text in viol:
        acc.violation('det:' + sig,
                      f'deterministic executor, n={cfg["n"]} workers={cfg["workers"]} raising='
                      f'{[s["uid"] for s in cfg["specs"] if s["exc"]]} entry={cfg["entry"]} completion order {list(order)} '
                      f'yielded {list(yielded)}: {text}',
                      {'mode': 'det', 'cfg': cfg, 'prefix': [c for _, c in h['trace']], 'origin': origin})
    return len(viol)


def run_det(desc, acc):
    from ..monitors import c18_sched as S
    if not hook_reached(acc):
        return
    for idx, n, w, mask in desc['configs']:
        cfg = det_config(idx, n, w, mask)
        seq, seq_end = S.run_sequential(cfg)
        acc.count('det_configs')
        prefix, expect = [], None
        bad = 0
        runs = 0
        orders = set()
        while True:
            h = S.run_scheduled(cfg, prefix, expect=expect)
            runs += 1
            orders.add(S.completion_order(h['events']))
            bad += 1 if judge_det(acc, cfg, h, seq, seq_end, {'shard': desc['shard']}) else 0
            prefix, expect = S.next_prefix(h['trace'])
            if prefix is None:
                acc.count('det_trees_complete')
                break
            if bad >= 5:
                acc.count('det_trees_abandoned_after_violations')
                break
        acc.count('det_distinct_completion_orders', len(orders))
        acc.count(f'det_schedules_n{n}', runs)
        if n >= 4 and mask == 5 and w == 2:
            acc.sample({'slice': 'deterministic', 'n': n, 'workers': w, 'raising_uids': [s['uid'] for s in cfg['specs'] if s['exc']],
                        'entry': cfg['entry'], 'schedules_enumerated': runs, 'distinct_completion_orders': len(orders),
                        'last_schedule_events': [list(e) for e in h['events']][:60],
                        'last_yielded': [[r.get('uid'), r.get('exc')] for r in h['records']]})


def sampled_config(rng, i):
    n = rng.choice([5, 6, 6, 7, 8, 9, 10])
    w = rng.choice([1, 2, 3, 4])
    style = rng.random()
    if style < 0.15:
        mask = 0
    elif style < 0.3:
        mask = 2 ** n - 1
    else:
        mask = rng.getrandbits(n)
    cfg = det_config(rng.randrange(60), n, w, mask)
    cfg['idx'] = 100000 + i
    cfg['p_stop'] = rng.choice([0.2, 0.5, 0.8])
    return cfg


def run_sampled(desc, acc):
    from ..monitors import c18_sched as S
    if not hook_reached(acc):
        return
    seqs = {}
    for i in range(desc['n']):
        rng = random.Random(h64(ID, 'sampled', desc['seed'], desc['shard'], i))
        cfg = sampled_config(rng, i)
        key = json.dumps([cfg['specs'], cfg['args'], cfg['kwargs'], cfg['entry'], cfg['pickable']], sort_keys=True)
        if key not in seqs:
            if len(seqs) > 5000:
                seqs.clear()
            seqs[key] = S.run_sequential(cfg)
        seq, seq_end = seqs[key]
        h = S.run_scheduled(cfg, (), rng=rng)
        acc.count('det_sampled_schedules')
        judge_det(acc, cfg, h, seq, seq_end, {'shard': desc['shard'], 'i': i, 'sampled': True})
        if i == 0:
            acc.sample({'slice': 'sampled schedule', 'n': cfg['n'], 'workers': cfg['workers'],
                        'events': [list(e) for e in h['events']][:80]})


# ------------------------------------------------------------------------------------ real pools

def run_child(cases, scratch, tag, timeout):
    """-> (log records, timed_out)"""
    casefile = os.path.join(scratch, f'cases-{tag}.json')
    logfile = os.path.join(scratch, f'log-{tag}.jsonl')
    with open(casefile, 'w') as f:
        json.dump(cases, f)
    if os.path.exists(logfile):
        os.remove(logfile)
    timed_out = False
    stderr = ''
    try:
        p = subprocess.run([sys.executable, '-m', 'vt.monitors.c18_real', casefile, logfile], timeout=timeout,
                           capture_output=True, text=True, env=dict(os.environ), start_new_session=True)
        stderr = (p.stderr or '')[-1500:]
    except subprocess.TimeoutExpired:
        timed_out = True
    recs = []
    if os.path.exists(logfile):
        with open(logfile) as f:
            for line in f:
                line = line.strip()
                if line:
                    try:
                        recs.append(json.loads(line))
                    except ValueError:
                        pass
    if timed_out:
        for r in recs:                                   # pool workers / manager of the hung run
            if 'pgid' in r:
                try:
                    os.killpg(r['pgid'], signal.SIGKILL)
                except (ProcessLookupError, PermissionError):
                    pass
    return recs, timed_out, stderr


def real_cases(desc):
    from ..monitors import c18_real as R
    out = []
    for i in range(desc['n']):
        idx = desc['shard'] * 1000 + i
        rng = random.Random(h64(ID, 'real', desc['seed'], desc['shard'], i))
        out.append(R.gen_case(rng, idx, desc.get('heavy', False)))
    return out


def max_overlap(metas):
    pts = []
    for m in metas:
        pts.append((m['t0'], 1))
        pts.append((m['t1'], -1))
    cur = best = 0
    for _, d in sorted(pts, key=lambda p: (p[0], p[1])):
        cur += d
        best = max(best, cur)
    return best


def judge_real(acc, case, rec):
    from ..monitors import c18_sched as S
    acc.evaluations += 1
    acc.count('real_runs')
    specs = case['specs']
    n = len(specs)
    par = rec['par']
    acc.peak('real_max_n', n)
    acc.count('real_workers:' + str(case['workers']))
    if n <= 1:
        acc.count('real_shortcut_runs')
    if rec['par_end'] == 'exhausted':
        acc.count('real_runs_complete')
    acc.count('real_results_checked', sum(1 for r in par if r.get('uid') is not None))
    acc.count('real_captured_exceptions_yielded', sum(1 for r in par if r.get('exc')))
    metas = [r['meta'] for r in par if r.get('meta')]
    if metas:
        pids = {m['pid'] for m in metas}
        acc.peak('real_max_distinct_worker_pids', len(pids))
        acc.peak('real_max_overlap', max_overlap(metas))
        if n >= 2 and rec.get('main_pid') in pids:
            acc.count('real_runs_task_ran_in_main_process')
    order = [r['uid'] for r in par if r.get('uid') is not None]
    if order != sorted(order):
        acc.count('real_out_of_order_runs')
    if n >= 2 and rec['par_end'] == 'exhausted':
        acc.nontriv('real', case['idx'], n, case['workers'], [s['exc'] for s in specs])
    viol = S.check_history(specs, tuple(case['args']), case['kwargs'], par, rec['par_end'], rec['seq'], rec['seq_end'],
                           case['pickable'])
    for sig, text in viol:
        acc.violation('real:' + sig,
                      f'real process pool, n={n} max_workers={case["workers"]} raising={sum(1 for s in specs if s["exc"])} '
                      f'entry={case["entry"]}: {text}',
                      {'mode': 'real', 'case': case})
    return viol


def run_real_cases(acc, cases, tag):
    """run the cases in child processes; a child that does not finish names the case it hung in"""
    scratch = os.environ.get('VT_SCRATCH')
    if not scratch:                                      # replay: no per-shard scratch directory
        import shutil
        import tempfile
        scratch = tempfile.mkdtemp(prefix='vt-C18-replay-')
        try:
            os.environ['VT_SCRATCH'] = scratch
            return run_real_cases(acc, cases, tag)
        finally:
            del os.environ['VT_SCRATCH']
            shutil.rmtree(scratch, ignore_errors=True)
    os.makedirs(scratch, exist_ok=True)
    pending = list(cases)
    round_ = 0
    while pending:
        round_ += 1
        recs, timed_out, stderr = run_child(pending, scratch, f'{tag}-{round_}', 180 + 30 * len(pending))
        bycase = {c['idx']: c for c in pending}
        done = set()
        started = None
        for r in recs:
            if 'start' in r:
                started = r['start']
            elif 'done' in r:
                done.add(r['done'])
                judge_real(acc, bycase[r['done']], r)
            elif 'crash' in r:
                done.add(r['crash'])
                raise RuntimeError(f'real-pool child crashed in case {r["crash"]}: {r["error"]}')
        if not timed_out:
            missing = [c['idx'] for c in pending if c['idx'] not in done]
            if missing:
                raise RuntimeError(f'real-pool child ended without finishing cases {missing}: {stderr}')
            return
        # the child hung: in which case?
        hung = bycase.get(started) if started is not None and started not in done else None
        if hung is None:
            raise RuntimeError('real-pool child timed out outside a case')
        acc.count('real_child_timeouts')
        recs2, timed_out2, _ = run_child([hung], scratch, f'{tag}-{round_}-retry', 240)
        if timed_out2:
            acc.evaluations += 1
            acc.count('real_runs')
            acc.violation('real:deadlock',
                          f'real process pool, n={len(hung["specs"])} max_workers={hung["workers"]}: the loop did not finish '
                          f'(twice, 240 s on the retry)', {'mode': 'real', 'case': hung})
        else:
            for r in recs2:
                if 'done' in r:
                    judge_real(acc, hung, r)
            acc.count('real_hang_unreproduced')
            acc.note(f'a real-pool run (case {hung["idx"]}) did not finish within the batch timeout but finished when re-run alone')
            raise RuntimeError(f'real-pool case {hung["idx"]} hung once and finished on retry: inconclusive')
        pos = [c['idx'] for c in pending].index(hung['idx'])
        pending = pending[pos + 1:]


def run_real(desc, acc):
    cases = real_cases(desc)
    run_real_cases(acc, cases, f'r{desc["shard"]}')
    c = cases[min(1, len(cases) - 1)]
    acc.sample({'slice': 'real pool', 'n': len(c['specs']), 'max_workers': c['workers'], 'entry': c['entry'],
                'raising': sum(1 for s in c['specs'] if s['exc']), 'first_specs': c['specs'][:3]})


# ------------------------------------------------------------------------------------ replay

def replay(w, acc):
    from ..monitors import c18_sched as S
    if w.get('mode') == 'real':
        # the OS schedule of a real pool cannot be replayed: the case is re-run as recorded and under a sweep of
        # gc phases (allocation counter inherited by the forked workers), which reproduces gc-timing dependent aborts
        case = w['case']
        variants = [dict(case, idx=0)] + [dict(case, idx=k + 1, gc_phase=p) for k, p in enumerate(range(0, 700, 100))]
        run_real_cases(acc, variants, 'replay')
        return
    cfg = w['cfg']
    seq, seq_end = S.run_sequential(cfg)
    h = S.run_scheduled(cfg, w.get('prefix', ()))
    judge_det(acc, cfg, h, seq, seq_end, {'replay': True})


MANIFEST = {
    'technique': 'runtime monitoring: offline history checker over the results yielded by the real parallel loop, driven under '
                 'a deterministic executor with exhaustively enumerated completion schedules and under real process pools',
    'level_text': 'the faults are completion schedules x subsets of payloads raising a captured exception: for every payload count '
                  'up to the bound, workers 1..3 and every raising subset the whole decision tree of the scheduler is enumerated '
                  '(each leaf a single-threaded, replayable run of the real generator, the real taskproc and the real '
                  'concurrent.futures.as_completed), every yielded history is checked for exactly-one-result-per-payload, the '
                  "function's outcome or exception, and multiset equality with the sequential mode; sampled schedules for larger n "
                  'and sampled real ProcessPoolExecutor runs (n<=200, workers 1..16) complete it',
    'level_note': 'exhaustive only within the executor model stated in the assumptions (FIFO start, <=max_workers running, '
                  'completions observable at submit/yield/wait) and the payload-count bound; the real-pool slice is a sample and '
                  'its schedules are whatever the OS produced (distinct worker pids, overlap and out-of-order completions are '
                  'counted). held = no history violated the checker on the executions listed in the evidence, not a proof',
}
