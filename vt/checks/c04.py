"""C04 — memoization and tracing never change what a parse returns.

Oracle: metamorphic, self-referential: the same real parser run under a baseline and under
variant configurations must give the same outcome triple (ok/fail, AST, error class); plus the
event log of a semantics-object probe: with memoization on, the multiset of action events is a
sub-multiset of the one with memoization off.  DESIGN.md section 3/C04.
"""
from __future__ import annotations

import collections
import os
import random
import sys

from .. import gen as G
from .. import lang as L
from ..common import h64
from ..ref import canon, crepr, left_recursive_rules
from ..refdiff import step_budget
from ..semprobe import Recorder
from ..shrink import kind_sig
from ..tsu import StepHeart

ID = 'C04'
LEVEL = 'exploration'
RULE = ('cases = (grammar, input, configuration): random grammars biased to retry shapes (options sharing a rule-call prefix, lookahead then '
        'consume, one rule reachable at a position through two callers, cuts before a later failure, @name + keywords, long single-line inputs) '
        'and layered left-recursive grammars; each input parsed by the real model under defaults and under {memoization off (non-left-recursive '
        'only), perlinememos 0.01 / 1, prune_memos_on_cut off, trace on (output discarded), trace+colorize, parseinfo on}; non-trivial = memoization '
        'observably mattered (fewer action events with memoization on than off) or the memo cache evicted/pruned; distinct by (grammar text, input)')
ASSUMPTIONS = [
    'the baseline configuration is the reference (self-referential relation); which answer is right is C01\'s business',
    'parseinfo on: ASTs are compared after deleting exactly the parseinfo entries',
    'trace output goes to sys.stderr (replaced by a counting sink during the parse)',
]
FLOORS = {
    'quick': {'cases': 12000, 'memo_mattered': 2500, 'cfg:memo_off': 8000, 'cfg:plm_0.01': 10000, 'cfg:trace': 10000,
              'cfg:trace_color': 10000, 'cfg:parseinfo': 10000, 'cfg:noprune': 10000, 'lrec_cases': 1000,
              'trace_chars': 100000, 'trace_escapes': 1000, 'accepted': 4000, 'failed': 3000, 'similar_rule_names': 500, 'nested_family': 150, 'error_class_family': 100, 'nested_family_with_nomemo_or_nostak': 80, 'failing_semantics_mattered': 2000, 'cfg_failing:memo_off': 8000},
    'thorough': {'cases': 250000, 'memo_mattered': 50000, 'lrec_cases': 20000},
}
PEAK_COUNTERS = ('max_memo_len_over_capacity',)
N = {'quick': 2600, 'thorough': 56000}


def plan(tier, seed):
    k = 16 if tier == 'quick' else 64
    return [{'seed': seed, 'shard': i, 'n': N[tier] // k, 'tier': tier} for i in range(k)]


class Sink:
    def __init__(self):
        self.chars = 0
        self.escapes = 0
        self.stack = []

    def write(self, s):
        self.chars += len(s)
        self.escapes += s.count('\x1b')
        return len(s)

    def flush(self):
        pass

    def isatty(self):
        return False


def retry_grammar(rng):
    """random grammar biased to shapes where a rule is tried twice at one position"""
    F = dict(G.FEATURES, cut=rng.random() < 0.4, skipto=False, dot=rng.random() < 0.2, const=rng.random() < 0.3)
    g = G.gen_grammar(rng, F, max_rules=4, pats=list(G.PATS)[:5])
    names = [r.name for r in g.rules]
    k = rng.random()
    if len(names) > 1:
        x = rng.choice(names[1:])
        C = L.Call
        if k < 0.3:
            extra = L.Choice((L.Seq((C(x), L.Tok('b'))), L.Seq((C(x), L.Tok('c'))), C(x)))
        elif k < 0.5:
            extra = L.Seq((L.LA(C(x)), C(x)))
        elif k < 0.65:
            extra = L.Choice((L.Seq((C(x), L.Cut(), L.Tok('b'))), L.Seq((C(x), L.Tok('c')))))
        elif k < 0.8:
            extra = L.Seq((L.NLA(L.Seq((C(x), L.Tok('c')))), C(x), L.Opt(C(x))))
        elif k < 0.97:
            # between two uses of x, an alternative that fails where x failed but with ANOTHER class of error: which
            # failure is reported must not depend on whether the last one was replayed from the memo table
            leaves = [L.Tok('b'), L.Pat(r'[0-9]+'), L.Meta('int'), L.EOF(), L.NLA(L.Dot()), L.Fail(), L.Meta('bool'), L.LA(L.Tok('b'))]
            l1, l2 = rng.sample(leaves, 2)
            prefix = g.rule(x).body
            for r in g.rules:
                if r.name == x:
                    r.body = G.normalise(L.Seq((L.Group(prefix), l1)))
            mid = G.normalise(L.Seq((L.Group(prefix), l2)))
            tails = [L.Tok('b'), L.Tok('c')] if rng.random() < 0.7 else [L.EOF(), L.Tok('c')]
            # (a rule of its own: failures are registered as "furthest" when a rule fails)
            g.rules.append(L.Rule('w9', mid))
            extra = L.Choice((L.Seq((C(x), tails[0])), C('w9'), L.Seq((C(x), tails[1]))))
            # inputs on which the prefix matches and what follows it does not
            g.extra_texts = []
            for _ in range(5):
                d = G.derive(rng, g, prefix)
                g.extra_texts.append(d + rng.choice(['', ' ', ' c', '?', ' ?', 'c', ' a', '\n', ' 1x']))
        else:
            extra = None
        if extra is not None:
            r0 = g.rules[0]
            g.rules[0] = L.Rule(r0.name, G.normalise(L.Choice((extra, L.Group(r0.body)))) if rng.random() < 0.5
                                else G.normalise(L.Seq((L.Group(extra), L.Opt(L.Group(r0.body))))))
    if rng.random() < 0.2:
        g.keywords = tuple(rng.sample(['a', 'b', 'bb', 'c'], 2))
        for r in g.rules[1:]:
            if rng.random() < 0.6:
                r.decorators = ('name',)
    return g


def _unused_other_failure(rng, body):
    """a copy of the expression with one token/pattern leaf replaced by a leaf that fails with another exception class"""
    leaves = [x for x in L.walk(body) if isinstance(x, (L.Tok, L.Pat))]
    if not leaves:
        return L.Seq((body, L.Pat(r'[0-9]+')))
    target = leaves[-1] if rng.random() < 0.6 else rng.choice(leaves)
    repl = rng.choice([L.Pat(r'[0-9]+'), L.EOF(), L.Meta('int'), L.Meta('bool'), L.NLA(L.Dot()), L.Fail(), L.Tok('zz')])
    done = [False]

    def rw(e):
        if e is target and not done[0]:
            done[0] = True
            return repl
        kids = L.children(e)
        return L.rebuild(e, [rw(k) for k in kids]) if kids else e
    return G.normalise(rw(body))


DECOS = [(), (), ('nomemo',), ('nostak',), ('nomemo', 'nostak')]


def nested_grammar(rng):
    """recursion at later positions, nullable prefix rules, @nomemo/@nostak rules, a cut inside a sub-rule, and (sometimes)
    a recursive call behind a nullable rule: the shapes where guards and memo keys of different rules meet at one position"""
    C, T = L.Call, L.Tok
    pre_body = rng.choice([L.Choice((T('-'), L.Empty())), L.Opt(T('-')), L.Clo(T('-')), L.Choice((T('-'), L.Void()))])
    hidden = rng.random() < 0.35
    alts = [L.Seq((T('('), C('pre'), C('r'), T(')'))), L.Seq((C('pre'), C('num')))]
    if rng.random() < 0.6:
        alts.append(C('s'))
    if hidden:
        alts.append(L.Seq((C('pre'), C('r'), T('+'), C('num'))))
    if rng.random() < 0.5:
        alts.append(T('z'))
    if rng.random() < 0.4:
        alts.append(L.Seq((C('num'), T('+'), C('r'))))
    rng.shuffle(alts)
    s_body = rng.choice([L.Seq((T('z'), L.Cut(), T('q'))), L.Seq((C('num'), L.Cut(), T('q'))), L.Seq((T('z'), T('q')))])
    rules = [L.Rule('start', L.Seq((C('r'), L.EOF())) if rng.random() < 0.6 else C('r')),
             L.Rule('r', L.Choice(tuple(alts)), rng.choice(DECOS[:3])),
             L.Rule('pre', pre_body, rng.choice(DECOS)),
             L.Rule('s', s_body, rng.choice(DECOS)),
             L.Rule('num', L.Pat(r'\d'), rng.choice(DECOS))]
    return L.Grammar(rules)


def nested_inputs(rng, n):
    out = ['(1)', '1', '(-1)', 'z+1', '-z+1', '((1))', 'zq', '1+1', '(1', '(z)']
    rng.shuffle(out)
    out = out[:4]
    for _ in range(n):
        out.append(''.join(rng.choice(['(', ')', '-', '1', '2', 'z', 'q', '+', ' ']) for _k in range(rng.randrange(1, 7))))
    d = rng.randrange(1, 4)
    out.append('(' * d + rng.choice(['', '-']) + '1' + ')' * d)
    return out


def lrec_grammar(rng):
    from .c03 import Spec
    spec = Spec(rng)
    return spec.grammar(), spec


CONFIGS = [
    ('memo_off', {'memoization': False}),
    ('plm_0.01', {'perlinememos': 0.01}),
    ('plm_1', {'perlinememos': 1}),
    ('noprune', {'prune_memos_on_cut': False}),
    ('trace', {'trace': True, 'colorize': False}),
    ('trace_color', {'trace': True, 'colorize': True}),
    ('parseinfo', {'parseinfo': True}),
    ('all', {'perlinememos': 0.01, 'prune_memos_on_cut': False, 'trace': True, 'parseinfo': True}),
]


def failing_semantics(salt):
    """a deterministic action that rejects some rule values with FailedSemantics (same decisions under every configuration)"""
    from tatsu.exceptions import FailedSemantics

    def transform(name, ast, n):
        if h64(salt, name, crepr(ast)) % 3 == 0:
            raise FailedSemantics(f'rejected {name}')
        return ast
    return Recorder(transform=transform, record=False)


def run(model, g, text, settings, probe=False, failing=None):
    from tatsu.exceptions import FailedParse
    sem = Recorder() if probe else None
    if failing is not None:
        sem = failing_semantics(failing)
    kw = dict(settings)
    if sem is not None:
        kw['semantics'] = sem
    sink = Sink()
    old = sys.stderr
    sys.stderr = sink
    try:
        try:
            out = ('ok', canon(model.parse(text, heart=StepHeart(step_budget(g, text)), **kw)))
        except FailedParse as e:
            out = ('fail', type(e).__name__)
            sink.stack = list(getattr(e, 'stack', []) or [])
        except RecursionError:
            out = ('EXC', 'RecursionError')
        except Exception as e:  # noqa: BLE001
            out = ('EXC', type(e).__name__, str(e)[:100])
    finally:
        sys.stderr = old
    events = None
    if sem is not None:
        events = collections.Counter((e[0], crepr(e[1]), e[4]) for e in sem.events)
    return out, events, sink


def check_case(acc, g, model, text, lrec, origin):
    base, ev_on, _ = run(model, g, text, {}, probe=True)
    acc.count('cases')
    acc.count('accepted' if base[0] == 'ok' else 'failed' if base[0] == 'fail' else 'base_exc')
    if lrec:
        acc.count('lrec_cases')
    for name, settings in CONFIGS:
        if name == 'memo_off' and lrec:
            continue
        probe = name == 'memo_off'
        out, ev, sink = run(model, g, text, settings, probe=probe)
        acc.evaluations += 1
        acc.count('cfg:' + name)
        acc.count('trace_chars', sink.chars)
        acc.count('trace_escapes', sink.escapes)
        expect = base
        if out != expect:
            w = {'grammar': L.to_json(g), 'grammar_text': L.grammar_text(g), 'text': text, 'config': name,
                 'settings': settings, 'baseline': base, 'variant': out, 'origin': origin}
            if relation(base, out) == 'error-class' and reexecution_reorders_failures(model, g, text, settings):
                acc.violation(f'outcome/{name}/error-class/trigger:successful-rule-reexecuted-inside-failing-stack',
                              f'configuration {name} {settings} changed the CLASS of the reported failure: grammar '
                              f'{L.grammar_text(g).strip()!r} input {text!r} DEFAULT={base} VARIANT={out}', w)
                continue
            acc.violation(f'outcome/{name}/{relation(base, out)}',
                          f'configuration {name} {settings} changed the outcome of a parse: grammar {L.grammar_text(g).strip()!r} '
                          f'input {text!r} DEFAULT={base} VARIANT={out}', w)
            continue
        if probe and ev is not None and ev_on is not None:
            # memoization only changes how many times rule bodies run
            extra = ev_on - ev
            if extra:
                acc.violation('events/memo-on-not-subset',
                              f'with memoization ON an action event occurred that does not occur with memoization OFF: {list(extra)[:3]} '
                              f'grammar {L.grammar_text(g).strip()!r} input {text!r}',
                              {'grammar': L.to_json(g), 'grammar_text': L.grammar_text(g), 'text': text, 'config': name,
                               'settings': settings, 'origin': origin})
            saved = sum(ev.values()) - sum(ev_on.values())
            if saved > 0:
                acc.count('memo_mattered')
                acc.count('action_runs_saved', saved)
                acc.nontriv(L.grammar_text(g), text)
    # the same relation under a semantics whose actions reject some values (FailedSemantics is memoized like a failure)
    salt = len(text)
    base_f, _, _ = run(model, g, text, {}, failing=salt)
    if base_f != base:
        acc.count('failing_semantics_mattered')
    for name, settings in CONFIGS:
        if name in ('trace', 'trace_color', 'parseinfo', 'plm_1') or (name == 'memo_off' and lrec):
            continue
        out, _, _ = run(model, g, text, settings, failing=salt)
        acc.evaluations += 1
        acc.count('cfg_failing:' + name)
        if out != base_f:
            acc.violation(f'outcome-failing-semantics/{name}/{relation(base_f, out)}',
                          f'with actions that raise FailedSemantics, configuration {name} {settings} changed the outcome: grammar '
                          f'{L.grammar_text(g).strip()!r} input {text!r} DEFAULT={base_f} VARIANT={out}',
                          {'grammar': L.to_json(g), 'grammar_text': L.grammar_text(g), 'text': text, 'config': name,
                           'settings': settings, 'baseline': base_f, 'variant': out, 'origin': origin, 'failing_salt': salt})


def reexecution_reorders_failures(model, g, text, settings):
    """mechanism predicate of the recorded finding: the failure reported is the LAST one registered at the furthest
    position; a rule that succeeds is executed again (memoization off, entry evicted or pruned) or not (memo hit), and only
    when executed does it register the failures inside it again.  Observable side: a rule on the reported failure's own
    rule stack (public FailedParse.stack), other than the failing rule itself, completed a different number of times in
    the two runs (semantics-probe event logs)."""
    _b, ev_b, sk_b = run(model, g, text, {}, probe=True)
    _o, ev_o, sk_o = run(model, g, text, settings, probe=True)
    if ev_b is None or ev_o is None:
        return False
    cb, co = collections.Counter(), collections.Counter()
    for (n, _a, _p), k in ev_b.items():
        cb[n] += k
    for (n, _a, _p), k in ev_o.items():
        co[n] += k
    names = set(sk_b.stack[:-1]) | set(sk_o.stack[:-1])
    return any(cb[n] != co[n] for n in names)


def relation(a, b):
    if a[0] != b[0]:
        return f'{a[0]}->{b[0]}'
    if a[0] == 'ok':
        return 'ast'
    return 'error-class'


def inputs_for(rng, g, n):
    texts = G.gen_inputs(rng, g, g.rules[0].name, n)
    # long single-line inputs: LRU pressure with perlinememos (capacity = lines * perlinememos)
    body = g.rules[0].body
    long = ' '.join(G.derive(rng, g, body) for _ in range(rng.choice([4, 8, 16])))
    texts.append(long)
    texts.append(long.replace(' ', '\n'))
    return texts


def run_shard(desc, acc):
    os.environ['FORCE_COLOR'] = '1'
    os.environ.pop('NO_COLOR', None)
    sys.setrecursionlimit(4000)
    probe_installed = install_boundeddict_probe(acc)
    for i in range(desc['n']):
        rng = random.Random(h64('C04', desc['seed'], desc['shard'], i))
        lrec = rng.random() < 0.15
        if not lrec and rng.random() < 0.12:
            g = nested_grammar(rng)
            texts = nested_inputs(rng, 5)
            acc.count('nested_family')
            if any(r.decorators for r in g.rules):
                acc.count('nested_family_with_nomemo_or_nostak')
        elif lrec:
            g, spec = lrec_grammar(rng)
            from .c03 import inputs_for as lr_inputs
            texts = lr_inputs(rng, spec, 'quick')
            rng.shuffle(texts)
            texts = texts[:6]
        else:
            g = retry_grammar(rng)
            if rng.random() < 0.5:
                # names that differ only in case, a suffix or a prefix: memo keys must keep them apart
                g = G.rename_rules(g, G.SIMILAR_NAMES)
                acc.count('similar_rule_names')
            texts = inputs_for(rng, g, 5) + getattr(g, 'extra_texts', [])
            if getattr(g, 'extra_texts', None):
                acc.count('error_class_family')
        try:
            model = L.to_model(g, name='T')
        except Exception as e:  # noqa: BLE001
            acc.count('build_failed:' + type(e).__name__)
            continue
        is_lrec = bool(left_recursive_rules(g)[0])
        for text in texts:
            check_case(acc, g, model, text, is_lrec, {'shard': desc['shard'], 'i': i})
        if i == 0:
            acc.sample({'grammar': L.grammar_text(g), 'inputs': texts, 'configs': [c[0] for c in CONFIGS]})
    if probe_installed:
        for k, v in PROBE.items():
            acc.count('probe:' + k, v)


PROBE = collections.Counter()


def install_boundeddict_probe(acc):
    """evidence probe (never an alarm): eviction counts and the len <= capacity invariant the class itself states"""
    try:
        from tatsu.util import boundeddict
        BD = boundeddict.BoundedDict
        orig = BD._enforce_limit

        def enforce(self):
            before = len(self)
            orig(self)
            if before > len(self):
                PROBE['evictions'] += before - len(self)
            if len(self) > self.capacity:
                PROBE['over_capacity'] += 1
        BD._enforce_limit = enforce
        return True
    except Exception:  # noqa: BLE001
        acc.note('BoundedDict probe unobserved')
        return False


def replay(w, acc):
    g = L.from_json(w['grammar'])
    model = L.to_model(g, name='T')
    os.environ['FORCE_COLOR'] = '1'
    check_case(acc, g, model, w['text'], bool(left_recursive_rules(g)[0]), {'mode': 'replay'})


MANIFEST = {
    'technique': 'runtime monitoring: metamorphic relation between configurations of the same real parser + offline sub-multiset check of recorded semantic-action event logs',
    'level_text': 'each (grammar, input) is parsed by the real model under the default and eight variant configurations; outcome triples must be '
                  'equal and the action-event multiset with memoization on must be contained in the one with memoization off; the workload is biased '
                  'to shapes where memoization, eviction and pruning matter and reports how often they did',
    'level_note': 'self-referential (baseline = defaults), so it cannot tell which answer is right (C01 does); evidence probes on BoundedDict are '
                  'not verdicts; held = no divergence on the executions listed',
}
