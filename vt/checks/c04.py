"""C04 — memoization and tracing never change what a parse returns.

Oracle: metamorphic, self-referential: the same real parser run under a baseline and under
variant configurations must give the same outcome triple (ok/fail, AST, error class); plus the
event log of a semantics-object probe: with memoization on, the multiset of action events is a
sub-multiset of the one with memoization off.  DESIGN.md section 3/C04.

Long-input / cache-pressure family (`long_family`): the capacity of the memo cache follows the number of
LINES of the input and perlinememos, so a tiny cache only bites on inputs of thousands of tokens.  Per shard
two grammars (a layered left-recursive expression grammar with a layer whose rule uses its own left operand
in two alternatives sharing a prefix; in rotation: layered left-recursive grammars of other kinds, statement
lists with retry shapes, the nested family and random retry grammars wrapped in a closure) are run on inputs
of 1 500 - 6 000 tokens (big bracketed lists as one operand, long operator chains, parentheses nested within
the recursion limit; on one line and on many lines of 1-6 tokens) under baseline, one tiny-cache
configuration, one rotating configuration (pruning off, trace, all together) and memoization off where
allowed.  Same oracle; ASTs are compared by an iterative fingerprint (the trees are thousands of levels deep).
"""
from __future__ import annotations

import collections
import os
import random
import sys

from .. import gen as G
from .. import lang as L
from ..common import h64
from ..ref import canon, crepr, left_recursive_rules
from ..refdiff import step_budget
from ..semprobe import Recorder
from ..shrink import kind_sig
from ..tsu import StepHeart

ID = 'C04'
LEVEL = 'exploration'
RULE = ('cases = (grammar, input, configuration): random grammars biased to retry shapes (options sharing a rule-call prefix, lookahead then '
        'consume, one rule reachable at a position through two callers, cuts before a later failure, @name + keywords, long single-line inputs) '
        'and layered left-recursive grammars; each input parsed by the real model under defaults and under {memoization off (non-left-recursive '
        'only), perlinememos 0.01 / 1, prune_memos_on_cut off, trace on (output discarded), trace+colorize, parseinfo on}; non-trivial = memoization '
        'observably mattered (fewer action events with memoization on than off) or the memo cache evicted/pruned; distinct by (grammar text, input); '
        'plus the long-input family: per shard 2 grammars (left-recursive expression grammars with a shared-prefix layer `e: e a m b m | e a m | next`, '
        'other layered left-recursive kinds, retry statement lists, nested and random retry grammars under a closure) x 2-3 inputs of 1 500-6 000 '
        'tokens (big bracketed list as the left/middle/right operand of the long or short form, biased to the retry shape; operator chains; deep '
        'parentheses; one line / lines of 1-6 tokens) x {baseline, perlinememos 1 or 0.01, one of pruning off / trace / trace+colorize / all / '
        'tiny+pruning off, memoization off if not left recursive}; non-trivial there = entries were evicted or rule bodies ran again')
ASSUMPTIONS = [
    'the baseline configuration is the reference (self-referential relation); which answer is right is C01\'s business',
    'parseinfo on: ASTs are compared after deleting exactly the parseinfo entries',
    'trace output goes to sys.stderr (replaced by a counting sink during the parse)',
    'long-input family: ASTs are compared through a non-recursive fingerprint with the equivalence of ref.canon (lists = tuples, dict key '
    'order ignored, parseinfo entries deleted); a RecursionError of either run is counted and not compared (stack depth is not in the statement)',
    'long-input family: evictions are read from the BoundedDict evidence probe and re-executions from a counting semantics object; both are '
    'evidence of pressure, not verdicts',
]
FLOORS = {
    'quick': {'cases': 12000, 'memo_mattered': 2500, 'cfg:memo_off': 8000, 'cfg:plm_0.01': 10000, 'cfg:trace': 10000,
              'cfg:trace_color': 10000, 'cfg:parseinfo': 10000, 'cfg:noprune': 10000, 'lrec_cases': 1000,
              'trace_chars': 100000, 'trace_escapes': 1000, 'accepted': 4000, 'failed': 3000, 'similar_rule_names': 500, 'nested_family': 150, 'error_class_family': 100, 'nested_family_with_nomemo_or_nostak': 80, 'failing_semantics_mattered': 2000, 'cfg_failing:memo_off': 8000,
              # long inputs under cache pressure
              'long_cases': 60, 'long_lrec_parses': 70, 'long_lrec_accepted': 35, 'long_many_lines': 35, 'long_one_line': 20,
              'long_kind:lrec_shared_prefix': 30, 'long_shared_prefix_biglist:short:1:many_lines': 6, 'long_cases_under_pressure': 35,
              'long_lrec_parses_with_evictions': 30, 'long_evictions': 50000, 'long_max_tokens': 5500, 'long_nonlrec_cases': 12},
    'thorough': {'cases': 250000, 'memo_mattered': 50000, 'lrec_cases': 20000, 'long_cases': 400, 'long_lrec_parses': 500,
                 'long_cases_under_pressure': 250, 'long_max_tokens': 4500},
}
PEAK_COUNTERS = ('max_memo_len_over_capacity', 'long_max_tokens', 'long_max_lines')
N = {'quick': 2600, 'thorough': 56000}


def plan(tier, seed):
    k = 16 if tier == 'quick' else 64
    return [{'seed': seed, 'shard': i, 'n': N[tier] // k, 'tier': tier} for i in range(k)]


class Sink:
    def __init__(self):
        self.chars = 0
        self.escapes = 0
        self.stack = []

    def write(self, s):
        self.chars += len(s)
        self.escapes += s.count('\x1b')
        return len(s)

    def flush(self):
        pass

    def isatty(self):
        return False


def retry_grammar(rng):
    """random grammar biased to shapes where a rule is tried twice at one position"""
    F = dict(G.FEATURES, cut=rng.random() < 0.4, skipto=False, dot=rng.random() < 0.2, const=rng.random() < 0.3)
    g = G.gen_grammar(rng, F, max_rules=4, pats=list(G.PATS)[:5])
    names = [r.name for r in g.rules]
    k = rng.random()
    if len(names) > 1:
        x = rng.choice(names[1:])
        C = L.Call
        if k < 0.3:
            extra = L.Choice((L.Seq((C(x), L.Tok('b'))), L.Seq((C(x), L.Tok('c'))), C(x)))
        elif k < 0.5:
            extra = L.Seq((L.LA(C(x)), C(x)))
        elif k < 0.65:
            extra = L.Choice((L.Seq((C(x), L.Cut(), L.Tok('b'))), L.Seq((C(x), L.Tok('c')))))
        elif k < 0.8:
            extra = L.Seq((L.NLA(L.Seq((C(x), L.Tok('c')))), C(x), L.Opt(C(x))))
        elif k < 0.97:
            # between two uses of x, an alternative that fails where x failed but with ANOTHER class of error: which
            # failure is reported must not depend on whether the last one was replayed from the memo table
            leaves = [L.Tok('b'), L.Pat(r'[0-9]+'), L.Meta('int'), L.EOF(), L.NLA(L.Dot()), L.Fail(), L.Meta('bool'), L.LA(L.Tok('b'))]
            l1, l2 = rng.sample(leaves, 2)
            prefix = g.rule(x).body
            for r in g.rules:
                if r.name == x:
                    r.body = G.normalise(L.Seq((L.Group(prefix), l1)))
            mid = G.normalise(L.Seq((L.Group(prefix), l2)))
            tails = [L.Tok('b'), L.Tok('c')] if rng.random() < 0.7 else [L.EOF(), L.Tok('c')]
            # (a rule of its own: failures are registered as "furthest" when a rule fails)
            g.rules.append(L.Rule('w9', mid))
            extra = L.Choice((L.Seq((C(x), tails[0])), C('w9'), L.Seq((C(x), tails[1]))))
            # inputs on which the prefix matches and what follows it does not
            g.extra_texts = []
            for _ in range(5):
                d = G.derive(rng, g, prefix)
                g.extra_texts.append(d + rng.choice(['', ' ', ' c', '?', ' ?', 'c', ' a', '\n', ' 1x']))
        else:
            extra = None
        if extra is not None:
            r0 = g.rules[0]
            g.rules[0] = L.Rule(r0.name, G.normalise(L.Choice((extra, L.Group(r0.body)))) if rng.random() < 0.5
                                else G.normalise(L.Seq((L.Group(extra), L.Opt(L.Group(r0.body))))))
    if rng.random() < 0.2:
        g.keywords = tuple(rng.sample(['a', 'b', 'bb', 'c'], 2))
        for r in g.rules[1:]:
            if rng.random() < 0.6:
                r.decorators = ('name',)
    return g


def _unused_other_failure(rng, body):
    """a copy of the expression with one token/pattern leaf replaced by a leaf that fails with another exception class"""
    leaves = [x for x in L.walk(body) if isinstance(x, (L.Tok, L.Pat))]
    if not leaves:
        return L.Seq((body, L.Pat(r'[0-9]+')))
    target = leaves[-1] if rng.random() < 0.6 else rng.choice(leaves)
    repl = rng.choice([L.Pat(r'[0-9]+'), L.EOF(), L.Meta('int'), L.Meta('bool'), L.NLA(L.Dot()), L.Fail(), L.Tok('zz')])
    done = [False]

    def rw(e):
        if e is target and not done[0]:
            done[0] = True
            return repl
        kids = L.children(e)
        return L.rebuild(e, [rw(k) for k in kids]) if kids else e
    return G.normalise(rw(body))


DECOS = [(), (), ('nomemo',), ('nostak',), ('nomemo', 'nostak')]


def nested_grammar(rng):
    """recursion at later positions, nullable prefix rules, @nomemo/@nostak rules, a cut inside a sub-rule, and (sometimes)
    a recursive call behind a nullable rule: the shapes where guards and memo keys of different rules meet at one position"""
    C, T = L.Call, L.Tok
    pre_body = rng.choice([L.Choice((T('-'), L.Empty())), L.Opt(T('-')), L.Clo(T('-')), L.Choice((T('-'), L.Void()))])
    hidden = rng.random() < 0.35
    alts = [L.Seq((T('('), C('pre'), C('r'), T(')'))), L.Seq((C('pre'), C('num')))]
    if rng.random() < 0.6:
        alts.append(C('s'))
    if hidden:
        alts.append(L.Seq((C('pre'), C('r'), T('+'), C('num'))))
    if rng.random() < 0.5:
        alts.append(T('z'))
    if rng.random() < 0.4:
        alts.append(L.Seq((C('num'), T('+'), C('r'))))
    rng.shuffle(alts)
    s_body = rng.choice([L.Seq((T('z'), L.Cut(), T('q'))), L.Seq((C('num'), L.Cut(), T('q'))), L.Seq((T('z'), T('q')))])
    rules = [L.Rule('start', L.Seq((C('r'), L.EOF())) if rng.random() < 0.6 else C('r')),
             L.Rule('r', L.Choice(tuple(alts)), rng.choice(DECOS[:3])),
             L.Rule('pre', pre_body, rng.choice(DECOS)),
             L.Rule('s', s_body, rng.choice(DECOS)),
             L.Rule('num', L.Pat(r'\d'), rng.choice(DECOS))]
    return L.Grammar(rules)


def nested_inputs(rng, n):
    out = ['(1)', '1', '(-1)', 'z+1', '-z+1', '((1))', 'zq', '1+1', '(1', '(z)']
    rng.shuffle(out)
    out = out[:4]
    for _ in range(n):
        out.append(''.join(rng.choice(['(', ')', '-', '1', '2', 'z', 'q', '+', ' ']) for _k in range(rng.randrange(1, 7))))
    d = rng.randrange(1, 4)
    out.append('(' * d + rng.choice(['', '-']) + '1' + ')' * d)
    return out


def lrec_grammar(rng):
    from .c03 import Spec
    spec = Spec(rng)
    return spec.grammar(), spec


CONFIGS = [
    ('memo_off', {'memoization': False}),
    ('plm_0.01', {'perlinememos': 0.01}),
    ('plm_1', {'perlinememos': 1}),
    ('noprune', {'prune_memos_on_cut': False}),
    ('trace', {'trace': True, 'colorize': False}),
    ('trace_color', {'trace': True, 'colorize': True}),
    ('parseinfo', {'parseinfo': True}),
    ('all', {'perlinememos': 0.01, 'prune_memos_on_cut': False, 'trace': True, 'parseinfo': True}),
]


def failing_semantics(salt):
    """a deterministic action that rejects some rule values with FailedSemantics (same decisions under every configuration)"""
    from tatsu.exceptions import FailedSemantics

    def transform(name, ast, n):
        if h64(salt, name, crepr(ast)) % 3 == 0:
            raise FailedSemantics(f'rejected {name}')
        return ast
    return Recorder(transform=transform, record=False)


def run(model, g, text, settings, probe=False, failing=None):
    from tatsu.exceptions import FailedParse
    sem = Recorder() if probe else None
    if failing is not None:
        sem = failing_semantics(failing)
    kw = dict(settings)
    if sem is not None:
        kw['semantics'] = sem
    sink = Sink()
    old = sys.stderr
    sys.stderr = sink
    try:
        try:
            out = ('ok', canon(model.parse(text, heart=StepHeart(step_budget(g, text)), **kw)))
        except FailedParse as e:
            out = ('fail', type(e).__name__)
            sink.stack = list(getattr(e, 'stack', []) or [])
        except RecursionError:
            out = ('EXC', 'RecursionError')
        except Exception as e:  # noqa: BLE001
            out = ('EXC', type(e).__name__, str(e)[:100])
    finally:
        sys.stderr = old
    events = None
    if sem is not None:
        events = collections.Counter((e[0], crepr(e[1]), e[4]) for e in sem.events)
    return out, events, sink


def check_case(acc, g, model, text, lrec, origin):
    base, ev_on, _ = run(model, g, text, {}, probe=True)
    acc.count('cases')
    acc.count('accepted' if base[0] == 'ok' else 'failed' if base[0] == 'fail' else 'base_exc')
    if lrec:
        acc.count('lrec_cases')
    for name, settings in CONFIGS:
        if name == 'memo_off' and lrec:
            continue
        probe = name == 'memo_off'
        out, ev, sink = run(model, g, text, settings, probe=probe)
        acc.evaluations += 1
        acc.count('cfg:' + name)
        acc.count('trace_chars', sink.chars)
        acc.count('trace_escapes', sink.escapes)
        expect = base
        if out != expect:
            w = {'grammar': L.to_json(g), 'grammar_text': L.grammar_text(g), 'text': text, 'config': name,
                 'settings': settings, 'baseline': base, 'variant': out, 'origin': origin}
            if relation(base, out) == 'error-class' and reexecution_reorders_failures(model, g, text, settings):
                acc.violation(f'outcome/{name}/error-class/trigger:successful-rule-reexecuted-inside-failing-stack',
                              f'configuration {name} {settings} changed the CLASS of the reported failure: grammar '
                              f'{L.grammar_text(g).strip()!r} input {text!r} DEFAULT={base} VARIANT={out}', w)
                continue
            acc.violation(f'outcome/{name}/{relation(base, out)}',
                          f'configuration {name} {settings} changed the outcome of a parse: grammar {L.grammar_text(g).strip()!r} '
                          f'input {text!r} DEFAULT={base} VARIANT={out}', w)
            continue
        if probe and ev is not None and ev_on is not None:
            # memoization only changes how many times rule bodies run
            extra = ev_on - ev
            if extra:
                acc.violation('events/memo-on-not-subset',
                              f'with memoization ON an action event occurred that does not occur with memoization OFF: {list(extra)[:3]} '
                              f'grammar {L.grammar_text(g).strip()!r} input {text!r}',
                              {'grammar': L.to_json(g), 'grammar_text': L.grammar_text(g), 'text': text, 'config': name,
                               'settings': settings, 'origin': origin})
            saved = sum(ev.values()) - sum(ev_on.values())
            if saved > 0:
                acc.count('memo_mattered')
                acc.count('action_runs_saved', saved)
                acc.nontriv(L.grammar_text(g), text)
    # the same relation under a semantics whose actions reject some values (FailedSemantics is memoized like a failure)
    salt = len(text)
    base_f, _, _ = run(model, g, text, {}, failing=salt)
    if base_f != base:
        acc.count('failing_semantics_mattered')
    for name, settings in CONFIGS:
        if name in ('trace', 'trace_color', 'parseinfo', 'plm_1') or (name == 'memo_off' and lrec):
            continue
        out, _, _ = run(model, g, text, settings, failing=salt)
        acc.evaluations += 1
        acc.count('cfg_failing:' + name)
        if out != base_f:
            acc.violation(f'outcome-failing-semantics/{name}/{relation(base_f, out)}',
                          f'with actions that raise FailedSemantics, configuration {name} {settings} changed the outcome: grammar '
                          f'{L.grammar_text(g).strip()!r} input {text!r} DEFAULT={base_f} VARIANT={out}',
                          {'grammar': L.to_json(g), 'grammar_text': L.grammar_text(g), 'text': text, 'config': name,
                           'settings': settings, 'baseline': base_f, 'variant': out, 'origin': origin, 'failing_salt': salt})


def reexecution_reorders_failures(model, g, text, settings):
    """mechanism predicate of the recorded finding: the failure reported is the LAST one registered at the furthest
    position; a rule that succeeds is executed again (memoization off, entry evicted or pruned) or not (memo hit), and only
    when executed does it register the failures inside it again.  Observable side: a rule on the reported failure's own
    rule stack (public FailedParse.stack), other than the failing rule itself, completed a different number of times in
    the two runs (semantics-probe event logs)."""
    _b, ev_b, sk_b = run(model, g, text, {}, probe=True)
    _o, ev_o, sk_o = run(model, g, text, settings, probe=True)
    if ev_b is None or ev_o is None:
        return False
    cb, co = collections.Counter(), collections.Counter()
    for (n, _a, _p), k in ev_b.items():
        cb[n] += k
    for (n, _a, _p), k in ev_o.items():
        co[n] += k
    names = set(sk_b.stack[:-1]) | set(sk_o.stack[:-1])
    return any(cb[n] != co[n] for n in names)


def relation(a, b):
    if a[0] != b[0]:
        return f'{a[0]}->{b[0]}'
    if a[0] == 'ok':
        return 'ast'
    return 'error-class'


# ------------------------------------------------------------------ long inputs / cache pressure
# The capacity of the memo cache is derived from the number of LINES of the input and from perlinememos, so what a tiny
# cache does to a parse only shows on inputs with thousands of tokens, written on ONE line and on MANY lines.  This family
# takes the grammar families above (layered left-recursive expression grammars -- including layers whose rule uses its own
# left operand in two alternatives that share a prefix, `e: e '?' m ':' m | e '?' m | next` --, statement lists with retry
# shapes, the nested family, random retry grammars; bracketed lists and parentheses nested within the recursion limit) and
# parses inputs of 1 500 - 6 000 tokens under the cache configurations.  Oracle unchanged: same outcome as the baseline.
LONG_TOKENS_PER_LINE = [2, 3, 2, 4, 2, 3, 1, 6]
LONG_BINOPS = ['+', '*', '-', '/', '|', '%']
LONG_TERNOPS = [('?', ':'), ('!', '^'), ('<', '>')]
LONG_LAYER_KINDS = ['direct', 'both', 'ternary', 'twoops', 'aliased2']
# (form, position of the big operand): long form `c ? a : b`, short form `c ? a`
# biased to the retry shape: the short form with the big operand in the middle is the input on which the first alternative
# fails only after the long operand, and the second alternative then asks for the rule's own left operand again
LONG_BIG_FORMS = [('short', 1), ('long', 1), ('short', 1), ('short', 0), ('long', 2), ('short', 1), ('long', 0)]
LONG_ROTATING = [
    ('noprune', {'prune_memos_on_cut': False}),
    ('trace', {'trace': True, 'colorize': False}),
    ('all', {'perlinememos': 0.01, 'prune_memos_on_cut': False, 'trace': True, 'parseinfo': True}),
    ('plm_1+noprune', {'perlinememos': 1, 'prune_memos_on_cut': False}),
    ('trace_color', {'trace': True, 'colorize': True}),
    ('plm_0.01+noprune', {'perlinememos': 0.01, 'prune_memos_on_cut': False}),
]
N_LONG = {'quick': 2, 'thorough': 4}   # grammars of the long family per shard


class LongExpr:
    """layered left-recursive expression grammar + sentences of a requested number of tokens"""

    def __init__(self, rng, force_ternary):
        self.nl = rng.choice([1, 2, 2, 3])
        kinds = [rng.choice(LONG_LAYER_KINDS) for _ in range(self.nl)]
        if force_ternary and 'ternary' not in kinds:
            kinds[rng.randrange(self.nl)] = 'ternary'
        bops = rng.sample(LONG_BINOPS, 2 * self.nl)
        tops = rng.sample(LONG_TERNOPS, len(LONG_TERNOPS))
        self.layers = []
        for i, k in enumerate(kinds):
            self.layers.append({'kind': k, 'op': bops[2 * i], 'op2': bops[2 * i + 1], 'tern': tops[i % len(tops)],
                                'mid': rng.choice(['self', 'self', 'next']), 'cut': rng.random() < 0.2})
        self.parens = rng.random() < 0.75
        self.list_style = rng.choice(['closure', 'closure', 'gather', 'pclosure'])
        self.list_cut = rng.random() < 0.25
        self.eof = rng.random() < 0.8

    def describe(self):
        return '/'.join(l['kind'] + (':' + l['mid'] if l['kind'] == 'ternary' else '') for l in self.layers)

    def grammar(self):
        C, T = L.Call, L.Tok
        rules = [L.Rule('start', L.Seq((C('e0'), L.EOF())) if self.eof else C('e0'))]
        for i, l in enumerate(self.layers):
            e, x = f'e{i}', f'x{i}'
            nxt = f'e{i + 1}' if i + 1 < self.nl else 'atom'
            cut = [L.Cut()] if l['cut'] else []
            k = l['kind']
            if k == 'direct':
                opts = [L.Seq((C(e), T(l['op']), *cut, C(nxt))), C(nxt)]
            elif k == 'both':
                opts = [L.Seq((C(e), T(l['op']), *cut, C(e))), C(nxt)]
            elif k == 'twoops':
                opts = [L.Seq((C(e), T(l['op']), *cut, C(nxt))), L.Seq((C(e), T(l['op2']), C(nxt))), C(nxt)]
            elif k == 'aliased2':
                rules.append(L.Rule(x, C(e)))
                opts = [L.Seq((C(x), T(l['op']), *cut, C(nxt))), L.Seq((C(x), T(l['op2']), C(nxt))), C(nxt)]
            else:
                # the rule uses its own left operand in two alternatives sharing the prefix `e op1 m`
                m = e if l['mid'] == 'self' else nxt
                a, b = l['tern']
                opts = [L.Seq((C(e), T(a), C(m), T(b), *cut, C(m))), L.Seq((C(e), T(a), C(m))), C(nxt)]
            rules.append(L.Rule(e, L.Choice(tuple(opts))))
        lcut = [L.Cut()] if self.list_cut else []
        if self.list_style == 'closure':
            lst = L.Seq((T('['), *lcut, L.Clo(C('e0')), T(']')))
        elif self.list_style == 'pclosure':
            lst = L.Seq((T('['), *lcut, L.PClo(C('e0')), T(']')))
        else:
            lst = L.Seq((T('['), *lcut, L.Join(T(','), C('e0'), False, True), T(']')))
        atom = [lst]
        if self.parens:
            atom.append(L.Seq((T('('), C('e0'), T(')'))))
        atom.append(C('num'))
        rules.append(L.Rule('atom', L.Choice(tuple(atom))))
        rules.append(L.Rule('num', L.Pat(r'\d+')))
        return L.Grammar(rules)

    # ---- sentences (lists of tokens)
    def num(self, rng):
        return [str(rng.randrange(100))] if rng.random() < 0.3 else [rng.choice('0123456789')]

    def small(self, rng, level=0, depth=0):
        """an expression of a few tokens that layer `level` derives (operators of lower layers only inside brackets)"""
        if level >= self.nl:
            k = rng.random()
            if k < 0.7 or depth > 2:
                return self.num(rng)
            if k < 0.85 and self.parens:
                return ['(', *self.small(rng, 0, depth + 1), ')']
            return self.listof([self.small(rng, 0, depth + 1) for _ in range(rng.randrange(1, 4))])
        l = self.layers[level]
        if depth > 2 or rng.random() < 0.55:
            return self.small(rng, level + 1, depth)
        d = depth + 1
        if l['kind'] == 'ternary':
            a, b = l['tern']
            m = level if l['mid'] == 'self' else level + 1
            out = [*self.small(rng, level + 1, d), a, *self.small(rng, m, d)]
            if rng.random() < 0.5:
                out += [b, *self.small(rng, m, d)]
            return out
        op = l['op2'] if l['kind'] in ('twoops', 'aliased2') and rng.random() < 0.5 else l['op']
        right = level if l['kind'] == 'both' else level + 1
        return [*self.small(rng, level + (rng.random() < 0.5), d), op, *self.small(rng, right, d)]

    def listof(self, elements):
        out = ['[']
        for i, el in enumerate(elements):
            if i and self.list_style == 'gather':
                out.append(',')
            out += el
        out.append(']')
        return out

    def elements(self, rng, n_tokens, deep=0):
        """elements of a list with about n_tokens tokens; most elements are single numbers (one new position each)"""
        out, size = [], 0
        while size < n_tokens:
            if deep:
                d = rng.randrange(max(1, deep // 2), deep + 1)
                el = ['('] * d + self.small(rng, 0, 2) + [')'] * d
            else:
                el = self.num(rng) if rng.random() < 0.7 else self.small(rng, 0, 1)
            out.append(el)
            size += len(el)
        return out

    def biglist(self, rng, n_tokens, form, bigpos, deep=0):
        """a small expression one operand of which is a bracketed list of ~n_tokens tokens"""
        big = self.listof(self.elements(rng, n_tokens, deep))
        tern = [i for i, l in enumerate(self.layers) if l['kind'] == 'ternary']
        if tern:
            i = rng.choice(tern)
            l = self.layers[i]
            a, b = l['tern']
            m = i if l['mid'] == 'self' else i + 1
            ops = [self.small(rng, i + 1, 1), self.small(rng, m, 1), self.small(rng, m, 1)]
            ops[bigpos] = big
            out = [*ops[0], a, *ops[1]]
            if form == 'long':
                out += [b, *ops[2]]
            return out
        i = rng.randrange(self.nl)
        l = self.layers[i]
        ops = [self.small(rng, i + 1, 1), self.small(rng, i if l['kind'] == 'both' else i + 1, 1)]
        ops[bigpos % 2] = big
        return [*ops[0], l['op'], *ops[1]]

    def chain(self, rng, n_tokens):
        """operand (op operand)* over the layers whose right operand is the next layer (growth is iterative there);
        bracketed operands are few (the nesting stays far from the recursion limit)"""
        flat = [l for l in self.layers if l['kind'] in ('direct', 'twoops', 'aliased2')]
        if not flat:
            return None
        out = self.num(rng)
        while len(out) < n_tokens:
            l = rng.choice(flat)
            op = l['op2'] if l['kind'] != 'direct' and rng.random() < 0.5 else l['op']
            k = rng.random()
            if k < 0.04 and self.parens:
                operand = ['(', *self.small(rng, 0, 1), ')']
            elif k < 0.06:
                operand = self.listof([self.small(rng, 0, 1) for _ in range(rng.randrange(1, 4))])
            else:
                operand = self.num(rng)
            out += [op, *operand]
        return out


def long_stmt_grammar(rng):
    """a list of statements whose alternatives share a rule-call prefix (retry shapes), not left recursive"""
    C, T = L.Call, L.Tok
    terms = rng.sample(['b', 'c', ';', '!', '.'], rng.choice([2, 3, 3, 4]))
    pre = rng.choice([(C('x'),), (C('x'),), (C('x'), C('x')), (L.LA(C('x')), C('x'))])
    alts = []
    for i, t in enumerate(terms):
        cut = [L.Cut()] if (i == len(terms) - 1 and rng.random() < 0.4) else []
        alts.append(L.Seq((*pre, *cut, T(t))))
    if rng.random() < 0.3:
        alts.insert(rng.randrange(len(alts)), L.Seq((L.NLA(L.Seq((C('x'), T(terms[0])))), C('x'), T(terms[0]))))
    xalts = [L.Seq((T('('), C('x'), T(')'))), L.Seq((T('['), L.Clo(C('x')), T(']'))), C('num')]
    if rng.random() < 0.5:
        xalts.insert(2, L.Seq((C('num'), T(':'), C('x'))))
    rules = [L.Rule('start', L.Seq((L.Clo(C('stmt')), L.EOF()))),
             L.Rule('stmt', L.Choice(tuple(alts)), rng.choice(DECOS[:3])),
             L.Rule('x', L.Choice(tuple(xalts)), rng.choice(DECOS[:2])),
             L.Rule('num', L.Pat(r'\d+'))]
    g = L.Grammar(rules)
    g.long_terms = terms
    g.long_two = len(pre) == 2 and not isinstance(pre[0], L.LA)
    return g


def long_stmt_tokens(rng, g, n_tokens, one_big):
    def x(depth=0):
        k = rng.random()
        if k < 0.6 or depth > 3:
            return [rng.choice('0123456789')]
        if k < 0.8:
            d = rng.randrange(1, 12)
            return ['('] * d + x(depth + 1) + [')'] * d
        return ['[', *[t for _ in range(rng.randrange(0, 5)) for t in x(depth + 1)], ']']
    terms = g.long_terms
    out = []
    if one_big:
        big = ['[']
        while len(big) < n_tokens:
            big += x(1)
        big.append(']')
        out += big + (x() if g.long_two else []) + [terms[-1]]
    while len(out) < n_tokens:
        # mostly the LAST alternatives: the prefix is parsed, the terminator fails, the prefix is tried again
        t = terms[-1] if rng.random() < 0.6 else rng.choice(terms)
        out += x() + (x() if g.long_two else []) + [t]
    return out


def long_wrapped(g, item):
    """the grammar with a new start rule that accepts a sequence of `item`s"""
    top = L.Rule('vtlong', L.Seq((L.Clo(L.Call(item)), L.EOF())))
    return L.Grammar([top] + list(g.rules), dict(g.directives), tuple(g.keywords))


def layout(tokens, per_line):
    """one line (per_line None) or a new line after every per_line tokens"""
    if not per_line:
        return ' '.join(tokens)
    return '\n'.join(' '.join(tokens[i:i + per_line]) for i in range(0, len(tokens), per_line))


class _End:
    def __init__(self, s):
        self.s = s


def fingerprint(v):
    """(digest, nodes, head) of an AST, computed without recursion (left-recursive chains are thousands of levels deep);
    same equivalence as ref.canon: lists and tuples alike, dict keys in sorted order, parseinfo entries deleted"""
    import hashlib
    h = hashlib.blake2b(digest_size=12)
    head, nodes = [], 0
    stack = [v]
    while stack:
        x = stack.pop()
        if isinstance(x, _End):
            s = x.s
        elif isinstance(x, dict):
            keys = sorted(k for k in x if k not in ('parseinfo', '__parseinfo__'))
            stack.append(_End('}'))
            for k in reversed(keys):
                stack.append(x[k])
                stack.append(_End(repr(k) + ':'))
            s = '{'
        elif isinstance(x, (list, tuple)):
            stack.append(_End(']'))
            stack.extend(reversed(x))
            s = '['
        else:
            s = repr(x)
        nodes += 1
        h.update(s.encode('utf-8', 'backslashreplace') + b'\0')
        if len(head) < 40:
            head.append(s)
    return h.hexdigest(), nodes, ' '.join(head)


class CountingSem:
    """semantics-object probe for long parses: counts the action calls per (rule, position); the value is returned unchanged"""

    def __init__(self):
        self.__dict__['runs'] = collections.Counter()
        self.__dict__['ctx'] = None

    def set_context(self, ctx):
        self.__dict__['ctx'] = ctx

    def safe_context(self):
        return {}

    def __getattr__(self, name):
        if name.startswith('__') or name in ('set_context', 'safe_context', '_default'):
            raise AttributeError(name)
        d = self.__dict__

        def action(ast, *params, **kwparams):
            pos = None
            try:
                pos = d['ctx'].pos
            except Exception:  # noqa: BLE001
                pass
            d['runs'][(name, pos)] += 1
            return ast
        action.__name__ = name
        return action


def run_long(model, g, text, settings, probe):
    """one long parse -> (outcome, Counter of (rule, end position) action runs | None, sink, evictions seen by the probe)"""
    from tatsu.exceptions import FailedParse
    sem = CountingSem() if probe else None
    kw = dict(settings)
    if sem is not None:
        kw['semantics'] = sem
    sink = Sink()
    old = sys.stderr
    sys.stderr = sink
    ev0 = PROBE['evictions']
    try:
        try:
            ast = model.parse(text, heart=StepHeart(step_budget(g, text)), **kw)
            digest, nodes, head = fingerprint(ast)
            out = ('ok', digest, nodes, head)
        except FailedParse as e:
            out = ('fail', type(e).__name__)
        except RecursionError:
            out = ('EXC', 'RecursionError')
        except Exception as e:  # noqa: BLE001
            out = ('EXC', type(e).__name__, str(e)[:100])
    finally:
        sys.stderr = old
    return out, (sem.runs if sem is not None else None), sink, PROBE['evictions'] - ev0


def check_long_case(acc, g, model, text, lrec, rot, origin, meta):
    """the C04 relation on one long input: baseline against the cache configurations (and one rotating configuration)"""
    n_lines = text.count('\n') + 1
    base, runs_base, _, ev_base = run_long(model, g, text, {}, probe=True)
    acc.count('long_cases')
    acc.count('long_parses')
    acc.count('long_lrec_cases' if lrec else 'long_nonlrec_cases')
    acc.count('long_one_line' if n_lines == 1 else 'long_many_lines')
    acc.count('long_kind:' + meta.get('kind', '?'))
    acc.count('long_shape:' + meta.get('shape', '?'))
    acc.peak('long_max_tokens', meta.get('tokens', 0))
    acc.peak('long_max_lines', n_lines)
    acc.count('long_evictions', ev_base)
    if base == ('EXC', 'RecursionError'):
        # how deep Python's stack goes is not the property's business (and tracing adds frames): counted, not compared
        acc.count('long_recursion_limit_unjudged')
        return
    acc.count('long_accepted' if base[0] == 'ok' else 'long_failed' if base[0] == 'fail' else 'long_base_exc')
    if base[0] == 'ok' and lrec:
        acc.count('long_lrec_accepted')
    # baseline + one tiny-cache configuration + one rotating configuration (+ memoization off where allowed)
    configs = [('plm_1', {'perlinememos': 1}, True) if rot % 2 else ('plm_0.01', {'perlinememos': 0.01}, True)]
    name, settings = LONG_ROTATING[rot % len(LONG_ROTATING)]
    if settings.get('trace') and meta.get('tokens', 0) > 2500:
        # (a trace of a long parse is tens of megabytes: traced on the shorter inputs of the family)
        name, settings = LONG_ROTATING[-1]
    configs.append((name, settings, False))
    if not lrec:
        configs.append(('memo_off', {'memoization': False}, True))
    pressure = ev_base > 0
    for name, settings, probe in configs:
        out, runs, sink, evicted = run_long(model, g, text, settings, probe=probe)
        acc.evaluations += 1
        acc.count('long_parses')
        if lrec:
            acc.count('long_lrec_parses')
        acc.count('long_cfg:' + name)
        acc.count('trace_chars', sink.chars)
        acc.count('trace_escapes', sink.escapes)
        acc.count('long_evictions', evicted)
        if out == ('EXC', 'RecursionError'):
            acc.count('long_recursion_limit_unjudged')
            continue
        w = {'long': True, 'grammar': L.to_json(g), 'grammar_text': L.grammar_text(g), 'text': text, 'config': name,
             'settings': settings, 'baseline': base, 'variant': out, 'origin': origin, 'meta': meta, 'rot': rot}
        if out[:2] != base[:2]:
            acc.violation(f'outcome/{name}/{relation(base, out)}/long-input',
                          f'configuration {name} {settings} changed the outcome of a parse of a LONG input ({meta.get("tokens")} tokens on '
                          f'{n_lines} line(s), family {meta.get("kind")}/{meta.get("shape")}): grammar {L.grammar_text(g).strip()!r} '
                          f'input {text[:60]!r}... DEFAULT={base} VARIANT={out}', w)
            continue
        if runs is not None and runs_base is not None:
            extra = sum(runs.values()) - sum(runs_base.values())
            if name == 'memo_off':
                # memoization only changes how many times rule bodies run (here: per (rule, end position))
                more = runs_base - runs
                if more:
                    acc.violation('events/memo-on-not-subset/long-input',
                                  f'with memoization ON a rule action ran at a (rule, position) more often than with memoization OFF: '
                                  f'{list(more.items())[:3]} grammar {L.grammar_text(g).strip()!r} input {text[:60]!r}...', w)
                if extra > 0:
                    acc.count('long_memo_mattered')
            elif extra > 0:
                # the tiny cache made rule bodies run again that the default cache answered from memory
                acc.count('long_tiny_cache_reexecuted_cases')
                acc.count('long_tiny_cache_reexecutions', extra)
                if lrec:
                    acc.count('long_lrec_tiny_cache_reexecuted_cases')
                pressure = True
        if evicted:
            pressure = True
            if lrec:
                acc.count('long_lrec_parses_with_evictions')
    if pressure:
        acc.count('long_cases_under_pressure')
        acc.nontriv(L.grammar_text(g), text)


LONG_OTHER = ['lrec_layered', 'retry_statements', 'nested', 'retry_random']
LONG_BIG_SIZES = [1500, 1700, 2000, 2400, 1600, 1800]
LONG_CHAIN_SIZES = [2000, 3000, 4500, 2500]
LONG_CHEAP_SIZES = [1500, 2000, 3000, 2000, 1500, 6000, 2500, 2000]   # (6000 falls on the statement lists: shards 5 and 13)


def long_accepting(rng, make, item_of, tries=8):
    """one of the family's random grammars whose wrapped form accepts a short sequence of its own derivations (so that a
    long sequence is parsed to its end and not given up at the first item) -> (g0, wrapped g, model, accepted pieces)"""
    last = None
    for _ in range(tries):
        g0 = make(rng)
        item = item_of(g0)
        g = long_wrapped(g0, item)
        try:
            model = L.to_model(g, name='T')
        except Exception:  # noqa: BLE001
            continue
        pieces = []
        for _k in range(24):
            d = G.derive(rng, g0, L.Call(item)).split()
            if d and run_long(model, g, ' '.join(d), {}, False)[0][0] == 'ok':
                pieces.append(d)
        last = (g0, g, model, pieces)
        if len(pieces) >= 6:
            probe = [t for p in pieces[:12] for t in p]
            if run_long(model, g, ' '.join(probe), {}, False)[0][0] == 'ok':
                return last
    return last


def long_family(acc, desc, j):
    """the j-th grammar of the long family of this shard, with its inputs: even j = a left-recursive expression grammar with
    a shared-prefix layer, odd j = the other kinds in rotation"""
    shard, seed = desc['shard'], desc['seed']
    rng = random.Random(h64('C04', 'long', seed, shard, j))
    r = shard + j // 2                         # rotation index of this (shard, slot)
    kind = 'lrec_shared_prefix' if j % 2 == 0 else LONG_OTHER[r % len(LONG_OTHER)]
    origin = {'shard': shard, 'long': j}
    cases = []          # (tokens, tokens per line | None, shape)
    per_line = lambda k: LONG_TOKENS_PER_LINE[(r + k) % len(LONG_TOKENS_PER_LINE)]    # noqa: E731
    pick = lambda sizes, k: sizes[(r + k) % len(sizes)]                              # noqa: E731
    model = None
    if kind in ('lrec_shared_prefix', 'lrec_layered'):
        spec = LongExpr(rng, force_ternary=kind == 'lrec_shared_prefix')
        g = spec.grammar()
        if any(l['kind'] == 'ternary' for l in spec.layers):
            kind = 'lrec_shared_prefix'
        # two big bracketed lists on many lines (the cache capacity follows the number of lines), a third input on ONE line
        form, bigpos = LONG_BIG_FORMS[r % len(LONG_BIG_FORMS)]
        cases.append((spec.biglist(rng, pick(LONG_BIG_SIZES, 0), form, bigpos), per_line(0), f'biglist:{form}:{bigpos}'))
        if j % 2 == 0:
            form, bigpos = LONG_BIG_FORMS[(r + 2) % len(LONG_BIG_FORMS)]
            cases.append((spec.biglist(rng, pick(LONG_BIG_SIZES, 1), form, bigpos), per_line(3), f'biglist:{form}:{bigpos}'))
        ch = spec.chain(rng, pick(LONG_CHAIN_SIZES, r // 2)) if (r % 2 == 0 or not spec.parens) else None
        if ch is not None:
            cases.append((ch, None, 'chain'))
        elif spec.parens:
            deep = rng.choice([6, 10, 14]) if spec.nl < 3 else rng.choice([4, 8])
            cases.append((spec.biglist(rng, pick(LONG_BIG_SIZES, 2), form, bigpos % 2, deep=deep), None, 'deep_parens'))
        else:
            form, bigpos = LONG_BIG_FORMS[(r + 3) % len(LONG_BIG_FORMS)]
            cases.append((spec.biglist(rng, pick(LONG_BIG_SIZES, 2), form, bigpos), None, f'biglist:{form}:{bigpos}'))
        meta = {'kind': kind, 'layers': spec.describe()}
    elif kind == 'retry_statements':
        g = long_stmt_grammar(rng)
        cases.append((long_stmt_tokens(rng, g, pick(LONG_CHEAP_SIZES, 0), r % 8 < 4), per_line(0),
                      'statements+biglist' if r % 8 < 4 else 'statements'))
        cases.append((long_stmt_tokens(rng, g, pick(LONG_CHEAP_SIZES, 1), r % 8 >= 4), None,
                      'statements+biglist' if r % 8 >= 4 else 'statements'))
        meta = {'kind': kind}
    else:
        nested = kind == 'nested'
        got = long_accepting(rng, nested_grammar if nested else retry_grammar, lambda g0: 'r' if nested else g0.rules[0].name)
        if got is None:
            acc.count('long_build_failed')
            return
        g0, g, model, pieces = got
        acc.count('long_accepting_grammar_found' if len(pieces) >= 6 else 'long_accepting_grammar_not_found')
        pieces = pieces or [['1'] if nested else ['a']]
        parts = []
        n = pick(LONG_CHEAP_SIZES, 0)
        while len(parts) < n:
            parts += rng.choice(pieces)
        cases.append((parts, per_line(0), 'items'))
        if nested:
            deep = []
            n = pick(LONG_BIG_SIZES, 1)
            while len(deep) < n:
                d = rng.randrange(5, 40)
                deep += ['('] * d + [rng.choice(['', '-']) + rng.choice('123')] + [')'] * d
            cases.append((deep, None if (r // 4) % 2 else per_line(1), 'deep_parens'))
        else:
            cases.append((parts, None, 'items'))
        meta = {'kind': kind}
    if model is None:
        try:
            model = L.to_model(g, name='T')
        except Exception as e:  # noqa: BLE001
            acc.count('build_failed:' + type(e).__name__)
            acc.count('long_build_failed')
            return
    lrec = bool(left_recursive_rules(g)[0])
    acc.count('long_grammars')
    for k, (tokens, pl, shape) in enumerate(cases):
        text = layout(tokens, pl)
        m = dict(meta, shape=shape.split(':')[0], shape_full=shape, tokens=len(tokens), per_line=pl)
        check_long_case(acc, g, model, text, lrec, r + k, dict(origin, k=k), m)
        if shape.startswith('biglist') and pl and meta['kind'] == 'lrec_shared_prefix':
            acc.count('long_shared_prefix_' + shape + ':many_lines')
    if shard == 0 and j == 0:
        acc.sample({'long_grammar': L.grammar_text(g), 'inputs': [layout(t, pl)[:120] + ' ...' for t, pl, _s in cases],
                    'tokens': [len(t) for t, _p, _s in cases]})


def inputs_for(rng, g, n):
    texts = G.gen_inputs(rng, g, g.rules[0].name, n)
    # long single-line inputs: LRU pressure with perlinememos (capacity = lines * perlinememos)
    body = g.rules[0].body
    long = ' '.join(G.derive(rng, g, body) for _ in range(rng.choice([4, 8, 16])))
    texts.append(long)
    texts.append(long.replace(' ', '\n'))
    return texts


def run_shard(desc, acc):
    os.environ['FORCE_COLOR'] = '1'
    os.environ.pop('NO_COLOR', None)
    sys.setrecursionlimit(4000)
    probe_installed = install_boundeddict_probe(acc)
    for i in range(desc['n']):
        rng = random.Random(h64('C04', desc['seed'], desc['shard'], i))
        lrec = rng.random() < 0.15
        if not lrec and rng.random() < 0.12:
            g = nested_grammar(rng)
            texts = nested_inputs(rng, 5)
            acc.count('nested_family')
            if any(r.decorators for r in g.rules):
                acc.count('nested_family_with_nomemo_or_nostak')
        elif lrec:
            g, spec = lrec_grammar(rng)
            from .c03 import inputs_for as lr_inputs
            texts = lr_inputs(rng, spec, 'quick')
            rng.shuffle(texts)
            texts = texts[:6]
        else:
            g = retry_grammar(rng)
            if rng.random() < 0.5:
                # names that differ only in case, a suffix or a prefix: memo keys must keep them apart
                g = G.rename_rules(g, G.SIMILAR_NAMES)
                acc.count('similar_rule_names')
            texts = inputs_for(rng, g, 5) + getattr(g, 'extra_texts', [])
            if getattr(g, 'extra_texts', None):
                acc.count('error_class_family')
        try:
            model = L.to_model(g, name='T')
        except Exception as e:  # noqa: BLE001
            acc.count('build_failed:' + type(e).__name__)
            continue
        is_lrec = bool(left_recursive_rules(g)[0])
        for text in texts:
            check_case(acc, g, model, text, is_lrec, {'shard': desc['shard'], 'i': i})
        if i == 0:
            acc.sample({'grammar': L.grammar_text(g), 'inputs': texts, 'configs': [c[0] for c in CONFIGS]})
    for j in range(N_LONG[desc.get('tier', 'quick')] if desc.get('long', True) else 0):
        long_family(acc, desc, j)
    if probe_installed:
        for k, v in PROBE.items():
            acc.count('probe:' + k, v)


PROBE = collections.Counter()


def install_boundeddict_probe(acc):
    """evidence probe (never an alarm): eviction counts and the len <= capacity invariant the class itself states"""
    try:
        from tatsu.util import boundeddict
        BD = boundeddict.BoundedDict
        orig = BD._enforce_limit

        def enforce(self):
            before = len(self)
            orig(self)
            if before > len(self):
                PROBE['evictions'] += before - len(self)
            if len(self) > self.capacity:
                PROBE['over_capacity'] += 1
        BD._enforce_limit = enforce
        return True
    except Exception:  # noqa: BLE001
        acc.note('BoundedDict probe unobserved')
        return False


def replay(w, acc):
    g = L.from_json(w['grammar'])
    model = L.to_model(g, name='T')
    os.environ['FORCE_COLOR'] = '1'
    if w.get('long'):
        sys.setrecursionlimit(4000)
        install_boundeddict_probe(acc)
        check_long_case(acc, g, model, w['text'], bool(left_recursive_rules(g)[0]), w.get('rot', 0), {'mode': 'replay'},
                        dict(w.get('meta') or {}))
        return
    check_case(acc, g, model, w['text'], bool(left_recursive_rules(g)[0]), {'mode': 'replay'})


MANIFEST = {
    'technique': 'runtime monitoring: metamorphic relation between configurations of the same real parser + offline sub-multiset check of recorded semantic-action event logs',
    'level_text': 'each (grammar, input) is parsed by the real model under the default and eight variant configurations; outcome triples must be '
                  'equal and the action-event multiset with memoization on must be contained in the one with memoization off; the workload is biased '
                  'to shapes where memoization, eviction and pruning matter and reports how often they did; a long-input family (1 500-6 000 tokens on one '
                  'line and on many lines, left-recursive grammars with shared-prefix alternatives included) puts the line-derived cache capacity under '
                  'pressure and reports evictions and re-executions',
    'level_note': 'self-referential (baseline = defaults), so it cannot tell which answer is right (C01 does); evidence probes on BoundedDict are '
                  'not verdicts; held = no divergence on the executions listed',
}
